(* END TO END: property theorems whose subject is the re-extracted source itself.

   Compiled per run, after Bridge/SolverTopBridge.v.  gen_solver_top is the description of the top level of the CURRENT
   steady_state_transport_solver (harness/py2coq_solvertop.py); run_top interprets it on the arguments of a call.
   bridge_solver_top (this run) : run_top gen_solver_top t = solve_top t, and solve_top is made of Solver.geometry and
   SolverArray.field_arr, whose pipelines / kernels / per-mode expressions the other bridges of this run tie to the
   source (PlumbingBridge, KernelBridge, SolverBridge) and which Properties/C11Array.v refines to Solver.solve.
   The theorems below restate C11 / C03 / C10 about  run_top gen_solver_top  by rewriting with these. *)
From Coq Require Import ZArith List Bool Lia.
From BL Require Import Base.Ops Base.Laws Model.Solver Model.SolverArray Model.SolverTop Proofs.Plumbing Proofs.SpecProofs
  Proofs.C03Proofs Proofs.C04Proofs Proofs.C10Proofs Proofs.ArrayRefine Proofs.SolverTopProofs.
From BL Require Properties.C11Array Properties.C10 Properties.C04.
From Gen Require Import GenSolverTop SolverTopBridge.
Import ListNotations.

Notation code := (fun O => run_top O gen_solver_top).

(* which error the code raises, and when: odd modes before anything else; then a negative pad width; then the precision
   check; then the level index; nothing else *)
Theorem code_error_order (O : Ops) (t : targs O) e : run_top O gen_solver_top t = inr e ->
  match e with
  | TErr ModesOdd => odd_modes O (top_args O t) = true
  | TErr NegativePad => odd_modes O (top_args O t) = false /\ neg_pad O (top_args O t) = true
  | TBadPrecision => odd_modes O (top_args O t) = false /\ neg_pad O (top_args O t) = false /\ t_prec O t = PrecOther
  | TErr LevelIndex => odd_modes O (top_args O t) = false /\ neg_pad O (top_args O t) = false /\ bad_prec O t = false /\
                       bad_level O (top_args O t) = true
  | _ => False
  end.
Proof. rewrite bridge_solver_top. apply solve_top_err. Qed.

(* C11, shape-or-error, about the translated code: a call either raises one of the four modelled errors or returns two
   (nlvls, ny, nx) arrays -- the shape of the source, whatever the parities, the halo and the mode counts --, squeezed,
   with x = np.linspace(0, xmx, nx, endpoint=False), y likewise, z[levels], meshed with indexing="ij" and returned as (X, Y, Z) *)
Theorem code_C11_shape_or_error (O : Ops) (L : Laws O) (t : targs O) :
  (exists e, run_top O gen_solver_top t = inr e /\ e <> TNotModelled) \/
  (exists r, run_top O gen_solver_top t = inl r /\
     let a := top_args O t in
     let ny := length (a_q0 O a) in let nx := length (hd [] (a_q0 O a)) in let nl := length (a_levels O a) in
     ar_rows O (tr_conc O r) = Z.of_nat ny /\ ar_cols O (tr_conc O r) = Z.of_nat nx /\
     ar_rows O (tr_flx O r) = Z.of_nat ny /\ ar_cols O (tr_flx O r) = Z.of_nat nx /\
     tr_shape O r = squeeze_shape [nl; ny; nx] /\ tr_squeezed O r = (true, true) /\
     tr_mesh_in O r = [MVZlev O (map (fun l => nth0 O (a_z O a) l) (a_levels O a));
                       MVLin O (mkLinVal O (cofZ O 0%Z) (a_ymx O a) (Z.of_nat ny) false);
                       MVLin O (mkLinVal O (cofZ O 0%Z) (a_xmx O a) (Z.of_nat nx) false)] /\
     tr_mesh_ij O r = true /\ tr_grid O r = [(2, true); (1, true); (0, true)]%nat /\
     (forall i, lin_at O (mkLinVal O (cofZ O 0%Z) (a_xmx O a) (Z.of_nat nx) false) i
                = cmul O (cofZ O (Z.of_nat i)) (cdiv O (a_xmx O a) (cofZ O (Z.of_nat nx))))).
Proof.
  rewrite bridge_solver_top. destruct (solve_top O t) as [r|e] eqn:E.
  - right. exists r. split; [reflexivity|]. cbv zeta.
    destruct (solve_top_ok O t r E) as (g & Hg & Hp & Hsa & Hc & Hf & Hsh & Hm & Hij & Hgr & Hsq).
    pose proof (geometry_cases O (top_args O t)) as Hgc. rewrite Hg in Hgc.
    assert (Hgo : g = geom_of O (top_args O t)).
    { destruct (odd_modes O _); [discriminate|]. destruct (neg_pad O _); [discriminate|].
      destruct (bad_level O _); [discriminate|]. congruence. }
    assert (Hny : g_ny O g = length (a_q0 O (top_args O t))) by (rewrite Hgo; reflexivity).
    assert (Hnx : g_nx O g = length (hd [] (a_q0 O (top_args O t)))) by (rewrite Hgo; reflexivity).
    destruct (field_arr_shape O L (top_args O t) g fst Hg) as [H1 H2].
    destruct (field_arr_shape O L (top_args O t) g snd Hg) as [H3 H4].
    rewrite Hc, Hf, Hsh, Hm, Hij, Hgr, Hsq, H1, H2, H3, H4, Hny, Hnx.
    repeat split. intros i. apply (lin_at_model O L).
  - left. exists e. split; [reflexivity|]. intros ->. exact (solve_top_err O t _ E).
Qed.

(* REFINEMENT about the translated code: an accepted call returns, cell by cell and level slot by level slot, the fields
   of Model/Solver.solve (the model every theorem of C01-C07, C10, C11 is about), and its coordinates are solve's *)
Theorem code_C11_refines_spec (O : Ops) (L : Laws O) (t : targs O) r :
  wf O (top_args O t) -> run_top O gen_solver_top t = inl r ->
  exists rs, solve O (top_args O t) = inl rs /\
    lin_list O (mkLinVal O (cofZ O 0%Z) (a_xmx O (top_args O t)) (Z.of_nat (length (hd [] (a_q0 O (top_args O t))))) false) = r_x O rs /\
    lin_list O (mkLinVal O (cofZ O 0%Z) (a_ymx O (top_args O t)) (Z.of_nat (length (a_q0 O (top_args O t)))) false) = r_y O rs /\
    tr_shape O r = r_shape O rs /\
    ((0 < a_nlx O (top_args O t))%nat -> (0 < a_nly O (top_args O t))%nat ->
     forall k j i, (k < length (a_levels O (top_args O t)))%nat -> (j < length (a_q0 O (top_args O t)))%nat ->
       (i < length (hd [] (a_q0 O (top_args O t))))%nat ->
       ar_at O (tr_conc O r) (Z.of_nat k) (Z.of_nat j) (Z.of_nat i) = get3 O (r_conc O rs) k j i /\
       ar_at O (tr_flx O r) (Z.of_nat k) (Z.of_nat j) (Z.of_nat i) = get3 O (r_flx O rs) k j i).
Proof.
  intros Hwf. rewrite bridge_solver_top. intros E.
  destruct (solve_top_ok O t r E) as (g & Hg & Hp & Hsa & Hc & Hf & Hsh & _).
  pose proof (geometry_cases O (top_args O t)) as Hgc. rewrite Hg in Hgc.
  assert (Hgo : g = geom_of O (top_args O t)).
  { destruct (odd_modes O _); [discriminate|]. destruct (neg_pad O _); [discriminate|].
    destruct (bad_level O _); [discriminate|]. congruence. }
  assert (Hny : g_ny O g = length (a_q0 O (top_args O t))) by (rewrite Hgo; reflexivity).
  assert (Hnx : g_nx O g = length (hd [] (a_q0 O (top_args O t)))) by (rewrite Hgo; reflexivity).
  assert (Hs : exists rs, solve O (top_args O t) = inl rs) by (unfold solve; rewrite Hg; eexists; reflexivity).
  destruct Hs as [rs Hs]. exists rs. split; [exact Hs|].
  destruct (C11Array.C11_array_refines_spec O L (top_args O t) rs Hwf Hs) as (g' & pa & qa & Hg' & Hsa' & _ & Hcell).
  rewrite Hsa in Hsa'. injection Hsa' as <- <-. rewrite Hg in Hg'. injection Hg' as <-.
  unfold solve in Hs. rewrite Hg in Hs. injection Hs as <-. cbn [r_x r_y r_shape r_conc r_flx].
  rewrite !(lin_list_model O L), Hsh, <- Hnx, <- Hny.
  split; [reflexivity|]. split; [reflexivity|]. split; [reflexivity|].
  intros Hlx Hly k j i Hk Hj Hi. apply (Hcell Hlx Hly k j i Hk); first [assumption | rewrite Hny; assumption | rewrite Hnx; assumption].
Qed.

(* C03 about the translated code (periodic domain: no halo cells; double storage): at every level slot the flux returned
   by the code sums to nx * ny * Re(q00) ... *)
Theorem code_C03_flux_sum (O : Ops) (L : Laws O) (t : targs O) r g k :
  wf O (top_args O t) -> run_top O gen_solver_top t = inl r -> geometry O (top_args O t) = inl g ->
  t_prec O t = PrecDouble ->
  g_px O g = 0%nat -> g_py O g = 0%nat -> g_nx O g <> 0%nat -> g_ny O g <> 0%nat ->
  (0 < g_nlx O g)%nat -> (0 < g_nly O g)%nat -> (k < length (a_levels O (top_args O t)))%nat ->
  asum O (tr_flx O r) (g_ny O g) (g_nx O g) k
  = cre O (cmul O (cmul O (cofZ O (Z.of_nat (g_ny O g))) (cofZ O (Z.of_nat (g_nx O g)))) (q0_hat O (top_args O t) g 0%nat 0%nat)).
Proof.
  intros Hwf. rewrite bridge_solver_top. intros E Hg Hpr.
  destruct (solve_top_ok O t r E) as (g' & Hg' & _ & _ & _ & Hf & _). rewrite Hg in Hg'. injection Hg' as <-.
  rewrite Hf. apply (C11Array.C11_array_flux_sum O L); try assumption.
  cbn [top_args a_single]. rewrite Hpr. reflexivity.
Qed.

(* ... and in footprint mode to 1: the footprint the code returns has unit mass *)
Theorem code_C03_footprint_mass (O : Ops) (L : Laws O) (t : targs O) r g k :
  wf O (top_args O t) -> run_top O gen_solver_top t = inl r -> geometry O (top_args O t) = inl g ->
  t_prec O t = PrecDouble -> a_footprint O (t_a O t) = true ->
  g_px O g = 0%nat -> g_py O g = 0%nat -> g_nx O g <> 0%nat -> g_ny O g <> 0%nat ->
  (0 < g_nlx O g)%nat -> (0 < g_nly O g)%nat -> (k < length (a_levels O (top_args O t)))%nat ->
  asum O (tr_flx O r) (g_ny O g) (g_nx O g) k = c1 O.
Proof.
  intros Hwf. rewrite bridge_solver_top. intros E Hg Hpr Hfp.
  destruct (solve_top_ok O t r E) as (g' & Hg' & _ & _ & _ & Hf & _). rewrite Hg in Hg'. injection Hg' as <-.
  rewrite Hf. apply (C11Array.C11_array_footprint_mass O L); try assumption.
  cbn [top_args a_single]. rewrite Hpr. reflexivity.
Qed.

(* a request that Model/Solver.solve accepts (and whose precision is single or double) is accepted by the translated code *)
Lemma code_accepts (O : Ops) (t : targs O) rs :
  solve O (top_args O t) = inl rs -> bad_prec O t = false -> exists r, run_top O gen_solver_top t = inl r.
Proof.
  rewrite bridge_solver_top. unfold solve, solve_top.
  destruct (geometry O (top_args O t)) as [g|e]; [|discriminate]. intros _ ->. eexists; reflexivity.
Qed.

Lemma code_result_prec (O : Ops) (t : targs O) r : run_top O gen_solver_top t = inl r -> bad_prec O t = false.
Proof. rewrite bridge_solver_top. intros E. destruct (solve_top_ok O t r E) as (g & _ & Hp & _). exact Hp. Qed.

(* C10 about the translated code: slot k of a call with ANY level list (unsorted, repeated, ...) equals, cell by cell, the
   single slot of the call of the translated code with the SCALAR level levels[k] (which goes through the
   np.ndim(levels) == 0 normalisation), both fields, both branches, both precisions *)
Theorem code_C10_slice_is_level (O : Ops) (L : Laws O) (t : targs O) r k :
  wf O (top_args O t) -> run_top O gen_solver_top t = inl r ->
  (k < length (a_levels O (top_args O t)))%nat ->
  (0 < a_nlx O (top_args O t))%nat -> (0 < a_nly O (top_args O t))%nat ->
  let lv := nth k (a_levels O (top_args O t)) 0%nat in
  exists r1, run_top O gen_solver_top (mkTArgs O (t_a O t) (LvScalar lv) (t_prec O t)) = inl r1 /\
    forall j i, (j < length (a_q0 O (top_args O t)))%nat -> (i < length (hd [] (a_q0 O (top_args O t))))%nat ->
      ar_at O (tr_conc O r) (Z.of_nat k) (Z.of_nat j) (Z.of_nat i) = ar_at O (tr_conc O r1) 0%Z (Z.of_nat j) (Z.of_nat i) /\
      ar_at O (tr_flx O r) (Z.of_nat k) (Z.of_nat j) (Z.of_nat i) = ar_at O (tr_flx O r1) 0%Z (Z.of_nat j) (Z.of_nat i).
Proof.
  intros Hwf E Hk Hlx Hly. cbv zeta.
  set (lv := nth k (a_levels O (top_args O t)) 0%nat).
  set (t1 := mkTArgs O (t_a O t) (LvScalar lv) (t_prec O t)).
  destruct (code_C11_refines_spec O L t r Hwf E) as (rs & Hs & _ & _ & _ & Hcell).
  pose proof (C10.C10_slice_is_level O L (top_args O t) rs k Hwf Hs Hk) as H10. cbv zeta in H10.
  destruct H10 as (rs1 & Hs1 & _ & _ & _ & _ & Hsl).
  change (with_levels O (top_args O t) [nth k (a_levels O (top_args O t)) 0%nat]) with (top_args O t1) in Hs1.
  assert (Hp1 : bad_prec O t1 = false) by (exact (code_result_prec O t r E)).
  destruct (code_accepts O t1 rs1 Hs1 Hp1) as [r1 E1]. exists r1. split; [exact E1|].
  assert (Hwf1 : wf O (top_args O t1)) by (exact (wf_with_levels O L (top_args O t) [lv] Hwf)).
  destruct (code_C11_refines_spec O L t1 r1 Hwf1 E1) as (rs1' & Hs1' & _ & _ & _ & Hcell1).
  rewrite Hs1 in Hs1'. injection Hs1' as <-.
  intros j i Hj Hi.
  destruct (Hcell Hlx Hly k j i Hk Hj Hi) as [Hc Hf].
  destruct (Hsl j i Hj Hi) as [Hc' Hf'].
  assert (H0 : (0 < length (a_levels O (top_args O t1)))%nat) by (cbn; lia).
  destruct (Hcell1 Hlx Hly 0%nat j i H0 Hj Hi) as [Hc1 Hf1].
  change (Z.of_nat 0) with 0%Z in Hc1, Hf1.
  rewrite Hc, Hf, Hc1, Hf1. split; assumption.
Qed.

(* C04 about the translated code (dispersion mode, double storage): the call on any real combination of two (source,
   background) pairs returns the same combination of the two calls' fields, at every level slot and cell *)
Theorem code_C04_linear (O : Ops) (L : Laws O) (t : targs O)
  (q1 q2 q : list (list (C O))) (p1 p2 p s1 s2 : C O) r r1 r2 :
  let tq := fun q p => mkTArgs O (with_src O (t_a O t) q p) (t_levels O t) (t_prec O t) in
  wf O (top_args O (tq q1 p1)) -> wf O (top_args O (tq q2 p2)) -> wf O (top_args O (tq q p)) ->
  same_shape O q q1 -> same_shape O q q2 ->
  a_footprint O (t_a O t) = false -> t_prec O t = PrecDouble ->
  (0 < a_nlx O (t_a O t))%nat -> (0 < a_nly O (t_a O t))%nat ->
  cre O s1 = s1 -> cre O s2 = s2 ->
  (forall j i, (j < length q)%nat -> (i < length (hd [] q))%nat ->
     cellq O q j i = cadd O (cmul O s1 (cellq O q1 j i)) (cmul O s2 (cellq O q2 j i))) ->
  p = cadd O (cmul O s1 p1) (cmul O s2 p2) ->
  run_top O gen_solver_top (tq q p) = inl r ->
  run_top O gen_solver_top (tq q1 p1) = inl r1 -> run_top O gen_solver_top (tq q2 p2) = inl r2 ->
  forall k j i, (k < length (levels_list (t_levels O t)))%nat -> (j < length q)%nat -> (i < length (hd [] q))%nat ->
    ar_at O (tr_conc O r) (Z.of_nat k) (Z.of_nat j) (Z.of_nat i)
    = cadd O (cmul O s1 (ar_at O (tr_conc O r1) (Z.of_nat k) (Z.of_nat j) (Z.of_nat i)))
             (cmul O s2 (ar_at O (tr_conc O r2) (Z.of_nat k) (Z.of_nat j) (Z.of_nat i))) /\
    ar_at O (tr_flx O r) (Z.of_nat k) (Z.of_nat j) (Z.of_nat i)
    = cadd O (cmul O s1 (ar_at O (tr_flx O r1) (Z.of_nat k) (Z.of_nat j) (Z.of_nat i)))
             (cmul O s2 (ar_at O (tr_flx O r2) (Z.of_nat k) (Z.of_nat j) (Z.of_nat i))).
Proof.
  cbv zeta. intros Hw1 Hw2 Hw [Hs1a Hs1b] [Hs2a Hs2b] Hfp Hpr Hlx Hly Hr1 Hr2 Hq Hp E E1 E2 k j i Hk Hj Hi.
  set (a0 := top_args O t).
  destruct (code_C11_refines_spec O L _ r Hw E) as (rs & Hs & _ & _ & _ & Hc).
  destruct (code_C11_refines_spec O L _ r1 Hw1 E1) as (rs1 & Hsv1 & _ & _ & _ & Hc1).
  destruct (code_C11_refines_spec O L _ r2 Hw2 E2) as (rs2 & Hsv2 & _ & _ & _ & Hc2).
  assert (Hsing : a_single O a0 = false) by (unfold a0; cbn [top_args a_single]; rewrite Hpr; reflexivity).
  pose proof (C04.C04_linear O L a0 q1 q2 q p1 p2 p s1 s2 rs rs1 rs2 Hw1 Hw2 Hw (conj Hs1a Hs1b) (conj Hs2a Hs2b) Hfp Hsing
                Hr1 Hr2 Hq Hp Hs Hsv1 Hsv2 k j i Hk Hj Hi) as [Hlc Hlf].
  destruct (Hc Hlx Hly k j i Hk Hj Hi) as [A B].
  assert (Hj1 : (j < length q1)%nat) by (rewrite <- Hs1a; exact Hj).
  assert (Hi1 : (i < length (hd [] q1))%nat) by (rewrite <- Hs1b; exact Hi).
  assert (Hj2 : (j < length q2)%nat) by (rewrite <- Hs2a; exact Hj).
  assert (Hi2 : (i < length (hd [] q2))%nat) by (rewrite <- Hs2b; exact Hi).
  destruct (Hc1 Hlx Hly k j i Hk Hj1 Hi1) as [A1 B1].
  destruct (Hc2 Hlx Hly k j i Hk Hj2 Hi2) as [A2 B2].
  rewrite A, B, A1, B1, A2, B2. split; assumption.
Qed.
