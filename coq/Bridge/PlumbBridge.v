(* Bridge lemmas for the integer index arithmetic of the spectrum plumbing, re-extracted from
   /repo/src/bldfm/solver.py on every run (Gen.GenPlumb): padded sizes, start of the retained
   band, slice bounds of the truncation, pad widths of the re-embedding, crop bounds.  They tie
   the assumptions of Proofs/Plumbing.v (band start n//2 - L//2, slice [s : s+L], pad (s, n-L-s))
   and of Model/Solver.v (nxe = nx + 2 px; crop [px : nxe-px]) to the current source, for all
   integers. *)
From Coq Require Import ZArith Lia Arith Bool.
From BL Require Import Proofs.Plumbing.
From Gen Require Import GenPlumb.
Open Scope Z_scope.

Lemma bridge_nxe nx px : gen_nxe nx px = nx + 2 * px. Proof. reflexivity. Qed.
Lemma bridge_nye ny py : gen_nye ny py = ny + 2 * py. Proof. reflexivity. Qed.

(* source padding is symmetric by (py, py), (px, px) *)
Lemma bridge_srcpad px py :
  gen_srcpad_y_lo py = py /\ gen_srcpad_y_hi py = py /\ gen_srcpad_x_lo px = px /\ gen_srcpad_x_hi px = px.
Proof. repeat split; reflexivity. Qed.

(* the retained band starts at n//2 - L//2 ... *)
Lemma bridge_dlx nxe nlx : gen_dlx nxe nlx = start nxe nlx. Proof. reflexivity. Qed.
Lemma bridge_dly nye nly : gen_dly nye nly = start nye nly. Proof. reflexivity. Qed.

(* ... the truncation slice is [s : s + L] on both axes ... *)
Lemma bridge_trunc nxe nlx nye nly :
  gen_trunc_x_lo (gen_dlx nxe nlx) = start nxe nlx /\
  gen_trunc_x_hi (gen_dlx nxe nlx) nlx - gen_trunc_x_lo (gen_dlx nxe nlx) = nlx /\
  gen_trunc_y_lo (gen_dly nye nly) = start nye nly /\
  gen_trunc_y_hi (gen_dly nye nly) nly - gen_trunc_y_lo (gen_dly nye nly) = nly.
Proof. unfold gen_trunc_x_lo, gen_trunc_x_hi, gen_trunc_y_lo, gen_trunc_y_hi, gen_dlx, gen_dly, start. lia. Qed.

(* ... and the re-embedding pads (s, n - L - s): same start, total length n; the level axis is
   not padded; concentration and flux spectra are padded alike *)
Lemma bridge_unpad nxe nlx nye nly :
  gen_unpad_l_lo = 0 /\ gen_unpad_l_hi = 0 /\
  gen_unpad_x_lo (gen_dlx nxe nlx) = start nxe nlx /\
  gen_unpad_x_lo (gen_dlx nxe nlx) + nlx + gen_unpad_x_hi nxe nlx (gen_dlx nxe nlx) = nxe /\
  gen_unpad_y_lo (gen_dly nye nly) = start nye nly /\
  gen_unpad_y_lo (gen_dly nye nly) + nly + gen_unpad_y_hi nye nly (gen_dly nye nly) = nye /\
  gen_unpadq_x_lo (gen_dlx nxe nlx) = gen_unpad_x_lo (gen_dlx nxe nlx) /\
  gen_unpadq_x_hi nxe nlx (gen_dlx nxe nlx) = gen_unpad_x_hi nxe nlx (gen_dlx nxe nlx) /\
  gen_unpadq_y_lo (gen_dly nye nly) = gen_unpad_y_lo (gen_dly nye nly) /\
  gen_unpadq_y_hi nye nly (gen_dly nye nly) = gen_unpad_y_hi nye nly (gen_dly nye nly).
Proof.
  unfold gen_unpad_l_lo, gen_unpad_l_hi, gen_unpad_x_lo, gen_unpad_x_hi, gen_unpad_y_lo, gen_unpad_y_hi,
    gen_unpadq_x_lo, gen_unpadq_x_hi, gen_unpadq_y_lo, gen_unpadq_y_hi, gen_dlx, gen_dly, start.
  repeat split; lia.
Qed.

(* the pad widths are non-negative whenever 0 < L <= n (np.pad would raise otherwise) *)
Lemma bridge_unpad_nonneg n L : 0 < L <= n ->
  0 <= gen_unpad_x_lo (gen_dlx n L) /\ 0 <= gen_unpad_x_hi n L (gen_dlx n L).
Proof.
  intros H. destruct (start_bounds n L H) as [A B].
  unfold gen_unpad_x_lo, gen_unpad_x_hi, gen_dlx. fold (start n L). lia.
Qed.

(* the crop takes the window [p : n - p] on both axes, of length n - 2p = the source size when
   n = size + 2p; concentration and flux are cropped alike *)
Lemma bridge_crop nx px ny py :
  gen_crop_c_x_lo px = px /\ gen_crop_c_x_hi (gen_nxe nx px) px - gen_crop_c_x_lo px = nx /\
  gen_crop_c_y_lo py = py /\ gen_crop_c_y_hi (gen_nye ny py) py - gen_crop_c_y_lo py = ny /\
  gen_crop_f_x_lo px = gen_crop_c_x_lo px /\ gen_crop_f_x_hi (gen_nxe nx px) px = gen_crop_c_x_hi (gen_nxe nx px) px /\
  gen_crop_f_y_lo py = gen_crop_c_y_lo py /\ gen_crop_f_y_hi (gen_nye ny py) py = gen_crop_c_y_hi (gen_nye ny py) py.
Proof.
  unfold gen_crop_c_x_lo, gen_crop_c_x_hi, gen_crop_c_y_lo, gen_crop_c_y_hi, gen_crop_f_x_lo, gen_crop_f_x_hi,
    gen_crop_f_y_lo, gen_crop_f_y_hi, gen_nxe, gen_nye. repeat split; lia.
Qed.

(* control-flow conditions: odd mode requests are rejected; the clamp fires when either count
   exceeds the padded size (pairwise, as Model/Solver.geometry has it) *)
Lemma zodd_nat (n : nat) : Z.odd (Z.of_nat n) = Nat.odd n.
Proof.
  induction n as [|n IH]; [reflexivity|].
  rewrite Nat2Z.inj_succ, Z.odd_succ, Nat.odd_succ.
  rewrite <- Z.negb_odd, IH, <- Nat.negb_odd. reflexivity.
Qed.

Lemma bridge_modes_odd (nlx nly : nat) :
  gen_modes_odd (Z.of_nat nlx) (Z.of_nat nly) = (Nat.odd nlx || Nat.odd nly)%bool.
Proof.
  unfold gen_modes_odd.
  assert (H : forall n : nat, (0 <? Z.of_nat n mod 2) = Nat.odd n).
  { intros n. rewrite Zmod_odd, zodd_nat. destruct (Nat.odd n); reflexivity. }
  (* the same test written as the truth value of the int `n % 2` (translated as negb (n mod 2 =? 0)) *)
  assert (H' : forall n : nat, negb (Z.of_nat n mod 2 =? 0) = Nat.odd n).
  { intros n. rewrite Zmod_odd, zodd_nat. destruct (Nat.odd n); reflexivity. }
  rewrite ?H, ?H'. reflexivity.
Qed.

Lemma bridge_clamp_cond (nlx nly nxe nye : nat) :
  gen_clamp_cond (Z.of_nat nlx) (Z.of_nat nly) (Z.of_nat nxe) (Z.of_nat nye)
  = ((nxe <? nlx)%nat || (nye <? nly)%nat)%bool.
Proof.
  unfold gen_clamp_cond.
  assert (H : forall a b : nat, (Z.of_nat a <? Z.of_nat b) = (a <? b)%nat).
  { intros a b. destruct (a <? b)%nat eqn:E.
    - apply Nat.ltb_lt in E. apply Z.ltb_lt. lia.
    - apply Nat.ltb_ge in E. apply Z.ltb_ge. lia. }
  rewrite !H. reflexivity.
Qed.
