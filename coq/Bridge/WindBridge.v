(* Bridge lemmas: both components of `return u, v` of /repo/src/bldfm/utils.py compute_wind_fields, re-extracted on
   every run (Gen.GenWind; the re-assignment `wind_dir = np.deg2rad(wind_dir)` is expanded SSA-correctly), equal the
   model of Model/Wind.v for ALL speeds and directions.  sin/cos are atoms for `ring`: swapping them, dropping a
   sign, or another angle convention does not pass. *)
From Coq Require Import Reals.
From BL Require Import Model.Wind.
From Gen Require Import GenWind.
Open Scope R_scope.

Lemma bridge_wind_u : forall u_rot wind_dir : R,
  gen_wind_u u_rot wind_dir = fst (compute_wind_fields u_rot wind_dir).
Proof. intros. unfold gen_wind_u, compute_wind_fields, deg2rad. cbn [fst]. ring. Qed.

Lemma bridge_wind_v : forall u_rot wind_dir : R,
  gen_wind_v u_rot wind_dir = snd (compute_wind_fields u_rot wind_dir).
Proof. intros. unfold gen_wind_v, compute_wind_fields, deg2rad. cbn [snd]. ring. Qed.
