(* Bridge lemmas for property C19, part 1 (module constant and the five stability helpers; GenKMHelp.v;
   parts 2 and 3: KMBridge.v, KMLoopBridge.v): every formula slice extracted from
   /repo/src/bldfm/ffm_kormann_meixner.py by the slice translator (Gen.GenKM, regenerated on every run;
   a Section over `Gamma : R -> R`) equals the hand-written model kernel of Model/KM.v for ALL real
   arguments.  Where a slice divides, the lemma is proved with `field` under the non-zero hypotheses it
   needs only if the source was rewritten; as extracted today every lemma is unconditional. *)
From Coq Require Import Reals Lra.
From BL Require Import Model.KM.
From Gen Require Import GenKMHelp.
Open Scope R_scope.

(* equal up to a harmless algebraic rewrite of the source *)
Ltac km_eq := first [ reflexivity | ring | (f_equal; ring) | (do 2 f_equal; ring) | (do 3 f_equal; ring)
                    | (do 4 f_equal; ring) ].

Ltac dec := repeat match goal with
  | |- context [Rle_dec ?a ?b] => destruct (Rle_dec a b)
  | |- context [Rlt_dec ?a ?b] => destruct (Rlt_dec a b)
  end; try km_eq; try (exfalso; lra).

Ltac decall := repeat match goal with
  | |- context [Rle_dec ?a ?b] => destruct (Rle_dec a b)
  | |- context [Rlt_dec ?a ?b] => destruct (Rlt_dec a b)
  | H : context [Rle_dec ?a ?b] |- _ => destruct (Rle_dec a b)
  | H : context [Rlt_dec ?a ?b] |- _ => destruct (Rlt_dec a b)
  end; try km_eq; try (exfalso; lra).

Lemma bridge_von_karman : gen_von_karman = vk.
Proof. reflexivity. Qed.

(* ---- helpers: zeros, mask L < 0, mask L >= 0  ==  if L < 0 then .. else .. *)
Lemma bridge_phiM zm L : gen_phiM zm L = phiM zm L.
Proof. unfold gen_phiM, phiM. dec. Qed.

Lemma bridge_phiC zm L : gen_phiC zm L = phiC zm L.
Proof. unfold gen_phiC, phiC. dec. Qed.

Lemma bridge_psiM zm L : gen_psiM zm L = psiM zm L.
Proof. unfold gen_psiM, psiM, zeta. dec. Qed.

Lemma bridge_nParam zm L : gen_nParam zm L = nParam zm L.
Proof. unfold gen_nParam, nParam. dec. Qed.

Lemma bridge_mParam zm ws ustar L : gen_mParam zm ws ustar L = mParam zm ws ustar L.
Proof. unfold gen_mParam, mParam. rewrite bridge_phiM, bridge_von_karman. km_eq. Qed.

