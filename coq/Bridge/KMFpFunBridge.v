(* Whole-function bridge for property C19 (per run), part 2: estimateFootprint (part 1, estimateZ0, and the overview:
   KMFunBridge.v).  gen_fp_desc is the description harness/py2coq_km.py read off the CURRENT source. *)
From Coq Require Import Reals List ZArith Bool Lra Lia.
From BL Require Import Model.KM Model.KMDesc Proofs.KMProofs Proofs.KMBridgeLemmas.
From Gen Require Import GenKMHelp KMHelpBridge GenKMFun.
Import ListNotations.
Open Scope R_scope.

(* ---------------------------------------------------------------------------------------------- *)
(* estimateFootprint, component by component *)
Lemma bridge_fpfun_grid : forall a,
  (fst (fst (fd_cols gen_fp_desc a)) = a_xmin a + 1 / 2 * a_res a /\ snd (fst (fd_cols gen_fp_desc a)) = a_xmax a /\ snd (fd_cols gen_fp_desc a) = a_res a) /\
  (fst (fst (fd_rows gen_fp_desc a)) = a_ymax a - 1 / 2 * a_res a /\ snd (fst (fd_rows gen_fp_desc a)) = a_ymin a /\ snd (fd_rows gen_fp_desc a) = - a_res a).
Proof. intro a. cbn. repeat split; ring. Qed.

Ltac helpers := rewrite ?bridge_psiM, ?bridge_phiM, ?bridge_phiC, ?bridge_nParam, ?bridge_mParam, ?bridge_von_karman.

Lemma bridge_fpfun_exit_test : forall a, fd_exit gen_fp_desc a = if Rlt_dec (U_of (a_p a)) 0 then true else false.
Proof.
  intro a. cbn [fd_exit gen_fp_desc]. helpers.
  match goal with |- (if Rlt_dec ?u 0 then _ else _) = _ =>
    replace u with (U_of (a_p a)) by (unfold U_of, Ucoef, m_of; km_eq) end.
  reflexivity.
Qed.

Lemma bridge_fpfun_exit_warns : fd_exit_warns gen_fp_desc = true.
Proof. reflexivity. Qed.

Lemma bridge_fpfun_exit_return : forall a i j,
  fd_exit_ret gen_fp_desc a i j = (grid_xc (a_xmin a) (a_res a) j, grid_yc (a_ymax a) (a_res a) i, 0).
Proof. intros a i j. cbn [fd_exit_ret gen_fp_desc]. apply triple_eq; unfold arange_nth, grid_xc, grid_yc; ring. Qed.

Ltac model_chain := unfold cell_expr, num_of, numc, A_of, A_of_g, Acoef_g, mr_of, mrc, mu_of, muc, Xi_of, Xic, r_of, rshape, U_of, Ucoef, kappa_of, kappa, m_of, n_of.

Lemma bridge_fpfun_return_aligned : forall Gamma a i j, a_wd a = None -> ~ U_of (a_p a) < 0 ->
  fd_ret gen_fp_desc Gamma a i j = fp_model Gamma a i j.
Proof.
  intros Gamma a i j Hwd HU. unfold fp_model. cbn [fd_ret gen_fp_desc]. rewrite Hwd.
  rewrite !arange_cols, !arange_rows. helpers.
  apply triple_eq; [reflexivity | reflexivity |]. unfold cell_aligned, cell, cell_g. destruct (Rlt_dec (U_of (a_p a)) 0) as [Hc|_]; [contradiction|].
  unfold al_x, al_y. model_chain.
  destruct (Rlt_dec 0 (grid_xc (a_xmin a) (a_res a) j - a_mx a)); reflexivity.
Qed.

Lemma bridge_fpfun_return_rotated : forall Gamma a i j wd, a_wd a = Some wd -> ~ U_of (a_p a) < 0 ->
  fd_ret gen_fp_desc Gamma a i j = fp_model Gamma a i j.
Proof.
  intros Gamma a i j wd Hwd HU. unfold fp_model. cbn [fd_ret gen_fp_desc]. rewrite Hwd.
  rewrite !arange_cols, !arange_rows. helpers.
  apply triple_eq; [reflexivity | reflexivity |]. unfold cell_wd, cell, cell_g.
  destruct (Rlt_dec (U_of (a_p a)) 0) as [Hc|_]; [contradiction|].
  unfold rot_x, rot_y. model_chain.
  match goal with |- (if (if Rlt_dec 0 ?x then true else false) then _ else _) = _ => destruct (Rlt_dec 0 x) end;
    first [reflexivity | km_eq].
Qed.

Lemma bridge_fpfun_ok : forall Gamma, fpdesc_ok Gamma gen_fp_desc.
Proof.
  intro Gamma. constructor.
  - intro a. exact (proj1 (bridge_fpfun_grid a)).
  - intro a. exact (proj2 (bridge_fpfun_grid a)).
  - exact bridge_fpfun_exit_test.
  - exact bridge_fpfun_exit_warns.
  - intros a i j _. apply bridge_fpfun_exit_return.
  - intros a i j HU. destruct (a_wd a) as [wd|] eqn:Hwd.
    + exact (bridge_fpfun_return_rotated Gamma a i j wd Hwd HU).
    + exact (bridge_fpfun_return_aligned Gamma a i j Hwd HU).
Qed.

(* estimateFootprint(zm, z0, ws, ustar, mo_len, sigma_v, [xmin, xmax, ymin, ymax], grid_res, [mx, my], wd)[.][i, j] *)
Theorem bridge_estimateFootprint : forall (Gamma : R -> R) (a : fpargs) (i j : nat),
  run_fp Gamma gen_fp_desc a i j = fp_model Gamma a i j.
Proof. intros Gamma a i j. apply run_fp_model. apply bridge_fpfun_ok. Qed.

(* spelled out for the two call forms *)
Theorem bridge_estimateFootprint_cells : forall (Gamma : R -> R) (p : kmpar) (xmin xmax ymin ymax res mx my : R) (i j : nat),
  (run_fp Gamma gen_fp_desc (mkFp p xmin xmax ymin ymax res mx my None) i j
   = (grid_xc xmin res j, grid_yc ymax res i, cell_aligned Gamma p res mx my (grid_xc xmin res j) (grid_yc ymax res i))) /\
  (forall wd, run_fp Gamma gen_fp_desc (mkFp p xmin xmax ymin ymax res mx my (Some wd)) i j
   = (grid_xc xmin res j, grid_yc ymax res i, cell_wd Gamma p res mx my wd (grid_xc xmin res j) (grid_yc ymax res i))).
Proof. intros. split; [|intro wd]; rewrite bridge_estimateFootprint; reflexivity. Qed.
