(* Bridge lemmas of C13 (tie B), run_bldfm_single: the description re-extracted on every run from the CURRENT source of
   /repo/src/bldfm/interface.py (Gen.GenInterface, written by harness/py2coq_interface.py; the parser part is in
   ConfigParserBridge.v)
   means, under the semantics of Model/InterfaceDesc.v, exactly what Model/Interface.v says - for ALL
   configurations, towers, indices, optional fluxes and caches, over arbitrary token types. *)
From Coq Require Import List Arith Bool String ZArith.
From BL Require Import Model.Met Model.Interface Model.InterfaceDesc.
From Gen Require Import GenInterface.
Import ListNotations.
Open Scope string_scope.
Open Scope list_scope.

(* run_bldfm_single: parameter names and defaults (index 0, no flux, no cache: Interface.plumb) *)
Lemma bridge_plumb_params : fd_params gen_plumb = model_params.
Proof. reflexivity. Qed.

(* run_bldfm_single: the calls it makes and the labels it returns are plumb_c's, whatever the arguments
   (in particular: z0 given <-> `is not None`; the levels rule; halo and cache handed through as they are;
   one ideal_source call exactly when no flux is supplied; None <-> MetConfig.get_step raises) *)
Lemma bridge_plumb : forall (A T F K : Type) (cfg : config A T) (tw : tower A) (i : nat)
    (flux : option F) (cache : option K),
  run_desc gen_sigs gen_plumb cfg tw i flux cache = plumb_c cfg tw i flux cache.
Proof.
  intros A T F K cfg tw i flux cache.
  unfold run_desc, plumb_c, levels_rule. cbv zeta.
  rewrite <- (Nat.add_1_r (d_nz (c_domain cfg))).
  generalize (@get_step A T). intro gs.
  destruct cfg as [dom tws m sol out par].
  destruct dom as [nx ny xmax ymax nz modes halo rlat rlon ol fo].
  destruct sol as [closure precision footprint shape analytic src_loc].
  destruct tw as [tname tlat tlon tzm tx ty].
  vm_compute.
  destruct (gs m i) as [[ustar mol ws wd z0 stp]|]; [|reflexivity].
  destruct z0 as [z0|]; destruct flux as [flux|]; destruct ol as [[|l0 ol]|]; destruct fo; reflexivity.
Qed.
