(* Bridge lemmas for the COMMAND-LINE DRIVER (tie B of C16, with C14's driver fragment): the two functions that
   harness/py2coq_cli.py translates from the CURRENT /repo/src/bldfm/cli.py (Gen.GenCli, regenerated on every run) equal
   the hand-written model of Model/Cli.v - for every world (any types of paths / configurations / towers / names /
   setting values / results / result items; any load_config, raising or not; any single run, which may depend on the
   runtime settings stored when it is made; any rendering of f-string fields), every argument namespace (dry run or
   not, plot or not), every towers list (duplicates and the empty list included) and every number of steps (0 included).

   The proofs first bring the loop shapes the translator emits (nested append loops carrying the Python list and the
   hidden call log; comprehensions) to map / flat_map form with Proofs/CliBridgeLemmas.v, whose hypotheses about the
   loop bodies are discharged by computation; so renamed locals, `xs.append(run(...))` instead of `x = run(...);
   xs.append(x)`, or a comprehension instead of the nested loop stay provable, while swapped loops, a changed range,
   `met_index=0`, a setting stored from the wrong field or after the runs, a changed file name do not. *)
From Coq Require Import List Arith String.
From BL Require Import Model.Cli Proofs.DriversBridgeLemmas Proofs.CliBridgeLemmas Proofs.CliProofs.
From Gen Require Import GenCli.
Import ListNotations.

Section Bridge.
Context {Path Cfg Tw N V R D : Type}.
Variable W : world Path Cfg Tw N V R D.

(* one append loop -> map, two nested append loops -> flat_map of maps; for one carried list or a carried pair *)
Ltac body_snoc := intros; cbv beta iota zeta; reflexivity.
Ltac loops :=
  repeat first
    [ erewrite fold_pair_flat by (intros; cbv beta iota zeta; erewrite fold_pair_snoc by body_snoc; cbv beta iota; reflexivity)
    | erewrite fold_pair_snoc by body_snoc
    | erewrite fold_one_flat by (intros; cbv beta iota zeta; erewrite fold_one_snoc by body_snoc; reflexivity)
    | erewrite fold_one_snoc by body_snoc ];
  cbv beta iota; rewrite ?app_nil_l.

(* _save_plots *)
Lemma bridge_save_plots results : gen_save_plots W results = save_plots W results.
Proof.
  unfold gen_save_plots, save_plots. cbv zeta.
  transitivity (fold_left (fun acc r => acc ++ [plot_of W r]) results []).
  - apply fold_left_ext. intros acc r. unfold plot_of, plot_name_of.
    destruct (w_unpack2 W (w_item W r "tower_xy")) as [tx ty]. reflexivity.
  - rewrite fold_snoc. reflexivity.
Qed.

(* cmd_run *)
Lemma bridge_cmd_run args : gen_cmd_run W args = cmd_run W args.
Proof.
  unfold gen_cmd_run, cmd_run. cbv zeta.
  destruct (w_load W (a_config args)) as [c|]; [|reflexivity].
  destruct (a_dry_run args); [reflexivity|].
  loops. rewrite ?bridge_save_plots.
  rewrite (results_of_flat W c). reflexivity.
Qed.

End Bridge.

(* ---- consequences stated on the GENERATED code (what the current source does, for every world) ---- *)
Section Consequences.
Context {Path Cfg Tw N V R D : Type}.
Variable W : world Path Cfg Tw N V R D.

(* the calls of run_bldfm_single that the current cmd_run makes, observed in the tracing world: exactly the pairs
   (tower, step) of the model, tower-major and time-minor, each made under the configured settings *)
Lemma bridge_cli_calls (d0 : D) args :
  o_results (gen_cmd_run (trace W d0) args) =
  map (fun p => (match w_load W (a_config args) with Some c => configured_rt W c | None => rt0 end, p)) (cli_runs W args).
Proof. rewrite bridge_cmd_run. apply trace_results. Qed.

(* a dry run, or a configuration that does not load: no run, no store into bldfm.config, no figure *)
Lemma bridge_cli_dry_run args :
  a_dry_run args = true \/ w_load W (a_config args) = None ->
  o_rt (gen_cmd_run W args) = rt0 /\ o_results (gen_cmd_run W args) = [] /\ o_plots (gen_cmd_run W args) = [].
Proof. rewrite bridge_cmd_run. apply dry_or_failed. Qed.

(* otherwise the three settings are the configured ones *)
Lemma bridge_cli_settings args c :
  w_load W (a_config args) = Some c -> a_dry_run args = false ->
  o_rt (gen_cmd_run W args) = mkRt (Some (w_par_num_threads W c)) (Some (w_par_max_workers W c)) (Some (w_par_use_cache W c)).
Proof. rewrite bridge_cmd_run. apply settings_configured. Qed.

End Consequences.
