(* Bridge lemmas: the cell formulas extracted on every run from /repo/src/bldfm/utils.py
     source_area_contribution, source_area_circular, source_area_upwind, source_area_crosswind, source_area_sector
   by harness/sabaseslices.py (Gen.GenSABase: the return expression of each function with all locals inlined; the
   tuple parameters meas_pt / wind unpacked to the scalars meas_pt_0, meas_pt_1 / wind_0, wind_1) equal the
   hand-written model of Model/SourceAreaBase.v for ALL arguments.
   `ring` treats sqrt(..) and inverses as atoms: harmless re-association passes; a changed sign (+v_hat for -v_hat),
   a dropped normalisation, a swapped component or a swapped unpacking does not.  The sector lemma is closed by
   reflexivity (up to ring-equal arguments of the trigonometric functions): arctan2(v, u) for arctan2(-v, -u), swapped
   arctan2 arguments, a dropped re-wrapping or a dropped abs do not pass. *)
From Coq Require Import Reals.
From BL Require Import Model.KM Model.SourceAreaBase.
From Gen Require Import GenSABase.
Open Scope R_scope.

Lemma bridge_sa_contribution : forall flx : R, gen_sa_contribution flx = sa_contribution flx.
Proof. intros. unfold gen_sa_contribution, sa_contribution. ring. Qed.

Lemma bridge_sa_circular : forall x y xm ym : R, gen_sa_circular x y xm ym = sa_circular x y xm ym.
Proof. intros. unfold gen_sa_circular, sa_circular. ring. Qed.

Lemma bridge_sa_upwind : forall x y xm ym u v : R, gen_sa_upwind x y xm ym u v = sa_upwind x y xm ym u v.
Proof. intros. unfold gen_sa_upwind, sa_upwind, sa_speed. ring. Qed.

Lemma bridge_sa_crosswind : forall x y xm ym u v : R, gen_sa_crosswind x y xm ym u v = sa_crosswind x y xm ym u v.
Proof. intros. unfold gen_sa_crosswind, sa_crosswind, sa_speed. ring. Qed.

Lemma bridge_sa_sector : forall x y xm ym u v : R, gen_sa_sector x y xm ym u v = sa_sector x y xm ym u v.
Proof.
  intros. unfold gen_sa_sector, sa_sector, sa_theta_rel.
  first [ reflexivity
        | (f_equal; f_equal; f_equal; f_equal; f_equal; f_equal; ring) ].
Qed.
