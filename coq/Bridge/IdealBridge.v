(* Bridge lemmas of C13 (second part): the Gallina reading of bldfm/utils.py::ideal_source generated on every run by
   harness/idealslices.py (Gen.GenIdeal: the whole function, statement by statement, as the value of cell (j_, i_) of
   the returned array, its shape and the signature's default shape) equals the hand-written model of
   Model/IdealSource.v for ALL arguments: every shape string, all sizes, all real extents, location given or None,
   every cell.
   The proofs compare the two sides constructor by constructor and close arithmetic leaves with `ring`, so harmless
   re-association / renaming / reordering of independent statements passes, while `<=` for `<`, ymx for xmx in R0,
   dy for dx in sig, a swapped default location, `X - ys`, linspace with other end points or another count do not. *)
From Coq Require Import Reals String List Bool.
From BL Require Import Model.IdealSource Proofs.IdealSourceProofs.
From Gen Require Import GenIdeal.
Open Scope R_scope.

Ltac req := first [ reflexivity | ring | (progress f_equal; req) ].

Ltac eval_streqb :=
  repeat match goal with
         | |- context [String.eqb ?a ?b] =>
           let v := eval vm_compute in (String.eqb a b) in change (String.eqb a b) with v
         end.

Ltac unfold_both :=
  unfold gen_ideal_source_cell, ideal_source_cell, ideal_cell, ideal_value, ideal_diamond, ideal_circle, ideal_point,
         ideal_l1, ideal_rsq, ideal_R0, ideal_sigma, ideal_x, ideal_y, ideal_loc.

Ltac solve_cell := cbv beta iota zeta; cbn [fst snd]; first [ reflexivity | (apply ind_ext; req) | req ].

Lemma bridge_ideal_default_shape : gen_ideal_default_shape = ideal_default_shape.
Proof. reflexivity. Qed.

Lemma bridge_ideal_shape : forall nx ny : nat, gen_ideal_shape nx ny = ideal_shape nx ny.
Proof. intros. reflexivity. Qed.

Lemma bridge_ideal_diamond : forall (nx ny : nat) (xmx ymx : R) (loc : option (R * R)) (j i : nat),
  gen_ideal_source_cell "diamond" nx ny xmx ymx loc j i = ideal_source_cell "diamond" nx ny xmx ymx loc j i.
Proof. intros. unfold_both. eval_streqb. destruct loc as [[a b]|]; solve_cell. Qed.

Lemma bridge_ideal_circle : forall (nx ny : nat) (xmx ymx : R) (loc : option (R * R)) (j i : nat),
  gen_ideal_source_cell "circle" nx ny xmx ymx loc j i = ideal_source_cell "circle" nx ny xmx ymx loc j i.
Proof. intros. unfold_both. eval_streqb. destruct loc as [[a b]|]; solve_cell. Qed.

Lemma bridge_ideal_point : forall (nx ny : nat) (xmx ymx : R) (loc : option (R * R)) (j i : nat),
  gen_ideal_source_cell "point" nx ny xmx ymx loc j i = ideal_source_cell "point" nx ny xmx ymx loc j i.
Proof. intros. unfold_both. eval_streqb. destruct loc as [[a b]|]; solve_cell. Qed.

(* any other shape string: the zeros *)
Lemma bridge_ideal_unknown : forall (shape : string) (nx ny : nat) (xmx ymx : R) (loc : option (R * R)) (j i : nat),
  shape <> "diamond"%string -> shape <> "circle"%string -> shape <> "point"%string ->
  gen_ideal_source_cell shape nx ny xmx ymx loc j i = 0.
Proof.
  intros shape nx ny xmx ymx loc j i Hd Hc Hp. unfold gen_ideal_source_cell.
  apply String.eqb_neq in Hd. apply String.eqb_neq in Hc. apply String.eqb_neq in Hp.
  rewrite ?Hd, ?Hc, ?Hp. reflexivity.
Qed.

(* the whole function, every shape string at once (also strings matching none of the three statements) *)
Lemma bridge_ideal_source_cell : forall (shape : string) (nx ny : nat) (xmx ymx : R) (loc : option (R * R)) (j i : nat),
  gen_ideal_source_cell shape nx ny xmx ymx loc j i = ideal_source_cell shape nx ny xmx ymx loc j i.
Proof.
  intros shape nx ny xmx ymx loc j i.
  destruct (String.eqb_spec shape "diamond") as [Hd|Hd]; [ subst shape; apply bridge_ideal_diamond | ].
  destruct (String.eqb_spec shape "circle") as [Hc|Hc]; [ subst shape; apply bridge_ideal_circle | ].
  destruct (String.eqb_spec shape "point") as [Hp|Hp]; [ subst shape; apply bridge_ideal_point | ].
  rewrite (bridge_ideal_unknown shape nx ny xmx ymx loc j i Hd Hc Hp).
  unfold ideal_source_cell, ideal_cell, ideal_value.
  apply String.eqb_neq in Hd. apply String.eqb_neq in Hc. apply String.eqb_neq in Hp.
  rewrite Hd, Hc, Hp. reflexivity.
Qed.
