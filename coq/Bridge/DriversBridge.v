(* Bridge lemmas for the DRIVERS (tie B of C14): every function that harness/py2coq_drivers.py translates from the
   CURRENT /repo/src/bldfm/interface.py (Gen.GenDrivers, regenerated on every run) equals the hand-written model of
   Model/Drivers.v - for every world (any type of configurations / towers / names / results, any single run), every
   configuration (any list of towers, duplicate names included; any number of steps, 0 included; any configured
   worker count), every `max_workers` argument and every valid completion schedule.

   pool.map is translated as `pmap workers f tasks := map f tasks` (results in submission order: the documented
   semantics of Executor.map); the lemmas bridge_parallel_<s> connect that to the model's pool_map under EVERY valid
   schedule, so what is assumed about the pool is exactly the hypothesis of C14_pool_map_any_order.

   The proofs first normalise the loop shapes the translator emits (append loops, comprehensions, dict
   comprehensions, the index-carrying regrouping loop) with Proofs/DriversBridgeLemmas.v, so harmless rewrites of the
   source (a for/append loop turned into a comprehension, ...) stay provable; a changed stride, index, key, order of
   insertion or task order does not. *)
From Coq Require Import List Arith Lia Permutation.
From BL Require Import Model.Drivers Proofs.DriversProofs Proofs.DriversBridgeLemmas.
From Gen Require Import GenDrivers.
Import ListNotations.

Section Bridge.
Context {Cfg Tw N R : Type}.
Variable W : world Cfg Tw N R.

Notation m_timeseries c := (timeseries (w_single W c) (w_nsteps W c)).
Notation m_multitower c := (multitower (w_name W) (w_eqdec W) (w_single W c) (w_nsteps W c) (w_towers W c)).

(* loop shapes -> map / flat_map / one fold_left of dict_set over the towers *)
Ltac norm :=
  cbv zeta; unfold pmap, pyslice, pyenumerate;
  repeat first
    [ rewrite fold_snoc
    | rewrite fold_fold_snoc
    | rewrite map_repair
    | rewrite map_map
    | rewrite dict_of_pairs_map
    | rewrite map_flat_map
    | rewrite app_nil_l ].

(* run_bldfm_timeseries *)
Lemma bridge_timeseries c tw : gen_timeseries W c tw = m_timeseries c tw.
Proof. unfold gen_timeseries, timeseries. norm. reflexivity. Qed.

(* run_bldfm_multitower *)
Lemma bridge_multitower c : gen_multitower W c = m_multitower c.
Proof.
  unfold gen_multitower, multitower. norm.
  apply fold_left_ext. intros d tw. rewrite ?bridge_timeseries. cbn [fst snd]. reflexivity.
Qed.

(* the workers *)
Lemma bridge_worker_single c tw i : gen_worker_single W (c, tw, i) = w_single W c tw i.
Proof. reflexivity. Qed.

Lemma bridge_worker_timeseries c tw : gen_worker_timeseries W (c, tw) = (w_name W tw, m_timeseries c tw).
Proof. unfold gen_worker_timeseries. cbv iota beta. rewrite ?bridge_timeseries. reflexivity. Qed.

(* the flat task list of strategy "both" mapped through the worker = the model's both_tasks mapped through single *)
Lemma bridge_both_flat c :
  flat_map (fun tw => map (gen_worker_single W) (map (fun i => (c, tw, i)) (seq 0 (w_nsteps W c)))) (w_towers W c) =
  map (fun p => w_single W c (fst p) (snd p)) (both_tasks (w_nsteps W c) (w_towers W c)).
Proof.
  unfold both_tasks. rewrite map_flat_map. apply flat_map_ext'. intros tw. rewrite !map_map. reflexivity.
Qed.

(* ---- the VALUE of the three strategies (pool.map = map): the serial multi-tower result *)

Lemma bridge_parallel_towers_value c mw : gen_parallel_towers W c mw = m_multitower c.
Proof.
  unfold gen_parallel_towers, multitower. norm.
  apply fold_left_ext. intros d tw. rewrite ?bridge_worker_timeseries. cbn [fst snd]. reflexivity.
Qed.

Lemma bridge_parallel_time_value c mw : gen_parallel_time W c mw = m_multitower c.
Proof.
  unfold gen_parallel_time, multitower. norm.
  apply fold_left_ext. intros d tw. unfold timeseries. rewrite ?map_map. cbn [fst snd]. reflexivity.
Qed.

Lemma bridge_parallel_both_value c mw : gen_parallel_both W c mw = m_multitower c.
Proof.
  unfold gen_parallel_both, multitower. norm.
  first
    [ (* idx = 0; for tower in towers: results[tower.name] = flat[idx : idx + n]; idx += n *)
      rewrite (chunk_fold (w_name W) (w_eqdec W)); cbv iota beta
    | (* {tower.name: flat[k * n : k * n + n] for k, tower in enumerate(towers)} *)
      rewrite (chunk_loop_enumerate (w_name W) (w_eqdec W) (w_nsteps W c) _ (w_towers W c) [] 0) ].
  rewrite bridge_both_flat, both_tasks_map.
  exact (chunk_loop_spec (w_name W) (w_eqdec W) (w_single W c) (w_nsteps W c) (w_towers W c) [] []).
Qed.

(* ---- gen_parallel_<s> = Drivers.par_<s> under EVERY valid completion schedule of any number of workers *)

Lemma bridge_parallel_towers c mw workers sched :
  valid_sched workers (length (w_towers W c)) sched ->
  par_towers (w_name W) (w_eqdec W) (w_single W c) (w_nsteps W c) (w_towers W c) sched = Some (gen_parallel_towers W c mw).
Proof. intros H. rewrite bridge_parallel_towers_value. exact (par_towers_eq _ _ _ workers _ _ sched H). Qed.

Lemma bridge_parallel_time c mw workers scheds :
  (forall k, k < length (w_towers W c) -> valid_sched workers (w_nsteps W c) (scheds k)) ->
  par_time (w_name W) (w_eqdec W) (w_single W c) (w_nsteps W c) (w_towers W c) scheds = Some (gen_parallel_time W c mw).
Proof. intros H. rewrite bridge_parallel_time_value. exact (par_time_eq _ _ _ workers _ _ scheds H). Qed.

Lemma bridge_parallel_both c mw workers sched :
  valid_sched workers (length (w_towers W c) * w_nsteps W c) sched ->
  par_both (w_name W) (w_eqdec W) (w_single W c) (w_nsteps W c) (w_towers W c) sched = Some (gen_parallel_both W c mw).
Proof. intros H. rewrite bridge_parallel_both_value. exact (par_both_eq _ _ _ workers _ _ sched H). Qed.

(* ---- the property itself on the generated code: every strategy returns what the serial driver returns *)
Lemma bridge_parallel_eq_serial c mw :
  gen_parallel_towers W c mw = gen_multitower W c /\
  gen_parallel_time W c mw = gen_multitower W c /\
  gen_parallel_both W c mw = gen_multitower W c.
Proof.
  rewrite bridge_parallel_towers_value, bridge_parallel_time_value, bridge_parallel_both_value, bridge_multitower.
  repeat split.
Qed.

End Bridge.
