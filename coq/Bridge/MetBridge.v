(* Bridge lemmas of C16 (tie B): the three methods of bldfm.config_parser.MetConfig, re-extracted from the
   CURRENT source into Gen.GenMet (deep embedding of Model/MetPy.v, interpreted with `self` = the record m),
   equal the hand-written model Model/Met.v for ALL inputs: every absent/scalar/list pattern of the six
   fields, every list length, every value, every step index (in range or not).
   The equalities go through the explicit encoders of MetPy.v (a Python outcome for each model outcome):
     n_timesteps m : nat          |->  Ok (VInt n)
     get_step m i  : option step  |->  None: Err IndexError;  Some s: Ok (VDict [ustar; mol; wind_speed; wind_dir; (z0); timestamp])
     validate m    : bool         |->  true: Ok VNone (returns);  false: Err ValueError (raises)
   which are injective (Proofs/MetBridgeLemmas.v), so nothing is lost; the last lemmas restate the two
   outcomes the property speaks about without encoders. *)
From Coq Require Import List String Arith Bool Lia.
From BL Require Import Model.Met Model.MetPy Proofs.MetBridgeLemmas.
From Gen Require Import GenMet.
Import ListNotations.

(* the dataclass has the fields the record `met` stands for, in this order, optional exactly where `met` has an option *)
Lemma bridge_fields : gen_fields = met_fields.
Proof. reflexivity. Qed.

Lemma bridge_n_timesteps (A T : Type) (m : met A T) : gen_n_timesteps m = enc_nat (n_timesteps m).
Proof.
  destruct m as [[[ua|ul]|] [ma|ml] [sa|sl] [da|dl] [z|] [ts|]]; met_symex.
Qed.

Lemma bridge_get_step (A T : Type) (m : met A T) (i : nat) : gen_get_step m i = enc_step (get_step m i).
Proof.
  destruct m as [[[ua|ul]|] [ma|ml] [sa|sl] [da|dl] [z|] [ts|]]; met_symex.
Qed.

Lemma bridge_validate (A T : Type) (m : met A T) : gen_validate m = enc_validate (validate m).
Proof.
  destruct m as [[[ua|ul]|] [ma|ml] [sa|sl] [da|dl] [z|] [ts|]]; met_symex.
Qed.

(* without encoders *)
Lemma bridge_validate_outcomes (A T : Type) (m : met A T) :
  (gen_validate m = Ok VNone <-> validate m = true) /\
  (gen_validate m = Err ValueError <-> validate m = false).
Proof.
  rewrite bridge_validate. split; [apply enc_validate_true | apply enc_validate_false].
Qed.

Lemma bridge_get_step_index_error (A T : Type) (m : met A T) (i : nat) :
  gen_get_step m i = Err IndexError <-> get_step m i = None.
Proof. rewrite bridge_get_step. apply enc_step_none. Qed.

Lemma bridge_n_timesteps_value (A T : Type) (m : met A T) (n : nat) :
  gen_n_timesteps m = Ok (VInt n) <-> n_timesteps m = n.
Proof.
  rewrite bridge_n_timesteps. unfold enc_nat. split; intros H; [injection H as H; exact H | rewrite H; reflexivity].
Qed.

(* the interpreter on a concrete forcing: step 1 of a mixed scalar/list series, and one step too far *)
Example gen_get_step_runs :
  let m := @mkMet nat nat (Some (Scalar 7)) (Lst [1;2;3]) (Scalar 5) (Lst [10;20;30]) None (Some [100;101;102]) in
  gen_get_step m 1 = Ok (VDict [("ustar", VAtom 7); ("mol", VAtom 2); ("wind_speed", VAtom 5);
                                ("wind_dir", VAtom 20); ("timestamp", VStamp 101)])%string
  /\ gen_get_step m 3 = Err IndexError /\ gen_n_timesteps m = Ok (VInt 3) /\ gen_validate m = Ok VNone.
Proof. vm_compute. repeat split; reflexivity. Qed.

Example gen_validate_rejects :
  @gen_validate nat nat (mkMet None (Lst [1;2]) (Scalar 5) (Lst [1;2]) None None) = Err ValueError
  /\ @gen_validate nat nat (mkMet (Some (Scalar 1)) (Lst [1;2]) (Scalar 5) (Lst [1;2;3]) None None) = Err ValueError
  /\ @gen_validate nat nat (mkMet (Some (Scalar 1)) (Scalar 2) (Scalar 5) (Scalar 3) None (Some [7;8])) = Err ValueError.
Proof. vm_compute. repeat split; reflexivity. Qed.
