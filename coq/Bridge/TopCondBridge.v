(* Bridge lemmas for the two integer CONDITIONS of the top level of steady_state_transport_solver that the slice
   translator addresses by their text (Gen.GenTopCond, slices modes_odd and clamp_cond of harness/solverslices.py).
   Moved verbatim from PlumbBridge.v: when the conditions are rewritten into a form the slice translator does not accept
   (`if nlx % 2 or nly % 2`) but Bridge/SolverTopBridge.v is fully discharged on the current source, bridge_top_modes_check
   and bridge_top_geometry imply both lemmas and they are recorded as subsumed (harness/solverslices.py). *)
From Coq Require Import ZArith Lia Arith Bool.
From Gen Require Import GenTopCond.
Open Scope Z_scope.

(* control-flow conditions: odd mode requests are rejected; the clamp fires when either count
   exceeds the padded size (pairwise, as Model/Solver.geometry has it) *)
Lemma zodd_nat (n : nat) : Z.odd (Z.of_nat n) = Nat.odd n.
Proof.
  induction n as [|n IH]; [reflexivity|].
  rewrite Nat2Z.inj_succ, Z.odd_succ, Nat.odd_succ.
  rewrite <- Z.negb_odd, IH, <- Nat.negb_odd. reflexivity.
Qed.

Lemma bridge_modes_odd (nlx nly : nat) :
  gen_modes_odd (Z.of_nat nlx) (Z.of_nat nly) = (Nat.odd nlx || Nat.odd nly)%bool.
Proof.
  unfold gen_modes_odd.
  assert (H : forall n : nat, (0 <? Z.of_nat n mod 2) = Nat.odd n).
  { intros n. rewrite Zmod_odd, zodd_nat. destruct (Nat.odd n); reflexivity. }
  (* the same test written as the truth value of the int `n % 2` (translated as negb (n mod 2 =? 0)) *)
  assert (H' : forall n : nat, negb (Z.of_nat n mod 2 =? 0) = Nat.odd n).
  { intros n. rewrite Zmod_odd, zodd_nat. destruct (Nat.odd n); reflexivity. }
  rewrite ?H, ?H'. reflexivity.
Qed.

Lemma bridge_clamp_cond (nlx nly nxe nye : nat) :
  gen_clamp_cond (Z.of_nat nlx) (Z.of_nat nly) (Z.of_nat nxe) (Z.of_nat nye)
  = ((nxe <? nlx)%nat || (nye <? nly)%nat)%bool.
Proof.
  unfold gen_clamp_cond.
  assert (H : forall a b : nat, (Z.of_nat a <? Z.of_nat b) = (a <? b)%nat).
  { intros a b. destruct (a <? b)%nat eqn:E.
    - apply Nat.ltb_lt in E. apply Z.ltb_lt. lia.
    - apply Nat.ltb_ge in E. apply Z.ltb_ge. lia. }
  rewrite !H. reflexivity.
Qed.
