(* Bridge lemmas for the array plumbing of steady_state_transport_solver.  Gen.GenPlumbing is generated on every
   run from the CURRENT /repo/src/bldfm/solver.py by harness/py2coq_plumbing.py: the sequence of array statements
   (np.pad with its widths, fft2 / ifft2 with their norm, fftshift / ifftshift with their axes, slices with their
   bounds, .real, the multiplication by `shift`, the crop) per branch, as terms of the description language of
   Model/SolverArray.v.  The lemmas prove, for ALL arrays, sizes and pad widths, that interpreting the generated
   descriptions gives exactly the pipelines fwd_pipe / ones_arr / back_pipe . apply_shift of which
   Model.SolverArray.solve_array is made (Proofs/ArrayRefine.v: solve_array = Solver.solve cell by cell).
   A swapped fftshift / ifftshift, a changed pad width, slice bound, norm, fft2 <-> ifft2, a dropped .real or a
   changed crop makes one of them unprovable. *)
From Coq Require Import ZArith List Bool Lia.
From BL Require Import Base.Ops Model.Solver Model.SolverArray Proofs.Plumbing Proofs.ArrayRefine.
From Gen Require Import GenPlumbing.
Import ListNotations.
Open Scope Z_scope.

(* the interpreted description and the model's pipeline are compared operation by operation (congruence lemmas of
   Proofs/ArrayRefine.v); index expressions that were rewritten in the source into equal ones
   (nye - (nly + dly) for nye - nly - dly ...) are identified by lia *)
Ltac arr_eq :=
  lazymatch goal with
  | |- ?x = ?x => reflexivity
  | |- @eq Z _ _ => lia
  | |- Some _ = Some _ => apply f_equal; arr_eq
  | |- a_slice _ _ _ _ _ _ = a_slice _ _ _ _ _ _ => apply a_slice_congr; arr_eq
  | |- a_pad _ _ _ _ _ _ = a_pad _ _ _ _ _ _ => apply a_pad_congr; arr_eq
  | |- a_real _ _ = a_real _ _ => apply a_real_congr; arr_eq
  | |- a_fft2 _ _ _ _ = a_fft2 _ _ _ _ => apply a_fft2_congr; arr_eq
  | |- a_shift _ _ _ = a_shift _ _ _ => apply a_shift_congr; arr_eq
  | |- a_mul _ _ _ = a_mul _ _ _ => apply a_mul_congr; arr_eq
  | |- mkArr _ _ _ _ _ = mkArr _ _ _ _ _ => apply mkArr_congr; arr_eq
  | |- _ => fail "the plumbing of the source differs from the model here"
  end.

Ltac plumb_eq :=
  unfold run_ones, gen_ones_shape, gen_ones_divs;
  cbn [run_ops run_op run_ones zeval mk_env ar_rank3 a_pad a_fft2 a_shift a_slice a_real a_mul andb Z.eqb
       gen_fwd gen_conc gen_flx gen_ones_shape gen_ones_divs shift_ops fst snd fold_left];
  cbv beta iota zeta delta [fwd_pipe back_pipe ones_arr]; arr_eq.

(* dispersion branch: srf_flx -> pad((py,py),(px,px)) -> fft2(norm="forward") -> fftshift -> [dly:dly+nly, dlx:dlx+nlx] -> ifftshift *)
Lemma bridge_fwd (O : Ops) py px nye nxe nly nlx se rows cols f :
  run_ops O (mk_env py px nye nxe nly nlx) se gen_fwd (mkArr O false rows cols f)
  = Some (fwd_pipe O py px nye nxe nly nlx (mkArr O false rows cols f)).
Proof. plumb_eq. Qed.

(* footprint branch: tfftq0 = np.ones((nly, nlx), dtype=np.complex128) / nxe / nye *)
Lemma bridge_ones (O : Ops) py px nye nxe nly nlx :
  run_ones O (mk_env py px nye nxe nly nlx) gen_ones_shape gen_ones_divs = ones_arr O nye nxe nly nlx.
Proof. plumb_eq. Qed.

(* tfftp -> [* shift] -> fftshift(axes=(1,2)) -> pad((0,0),(dly, nye-nly-dly),(dlx, nxe-nlx-dlx)) -> ifftshift(axes=(1,2))
   -> fft2(norm="backward") | ifft2(norm="forward") -> .real -> [:, py:nye-py, px:nxe-px], every branch *)
Lemma bridge_conc (O : Ops) fp rc py px nye nxe nly nlx se rows cols f :
  run_ops O (mk_env py px nye nxe nly nlx) se (gen_conc fp rc) (mkArr O true rows cols f)
  = match run_ops O (mk_env py px nye nxe nly nlx) se (shift_ops fp rc) (mkArr O true rows cols f) with
    | Some y => Some (back_pipe O fp py px nye nxe nly nlx y)
    | None => None
    end.
Proof. destruct fp; [destruct rc|destruct rc]; plumb_eq. Qed.

Lemma bridge_flx (O : Ops) fp rc py px nye nxe nly nlx se rows cols f :
  run_ops O (mk_env py px nye nxe nly nlx) se (gen_flx fp rc) (mkArr O true rows cols f)
  = match run_ops O (mk_env py px nye nxe nly nlx) se (shift_ops fp rc) (mkArr O true rows cols f) with
    | Some y => Some (back_pipe O fp py px nye nxe nly nlx y)
    | None => None
    end.
Proof. destruct fp; [destruct rc|destruct rc]; plumb_eq. Qed.

(* the spectra tfftp / tfftq are created with shape (nlvls, nly, nlx) *)
Lemma bridge_spec_shape (e : ienv) :
  zeval e (fst gen_spec_shape) = e Vnly /\ zeval e (snd gen_spec_shape) = e Vnlx.
Proof. split; reflexivity. Qed.

(* Lx, Ly = np.meshgrid(lx, ly): Lx is built on fftfreq(nlx) and varies along the last axis, Ly on fftfreq(nly) *)
Lemma bridge_mesh (e : ienv) :
  zeval e (fst gen_mesh) = e Vnlx /\ zeval e (snd gen_mesh) = e Vnly.
Proof. split; reflexivity. Qed.

(* msk = np.ones((nly, nlx), dtype=bool); msk[0, 0] = False *)
Lemma bridge_msk (e : ienv) :
  zeval e (fst gen_msk_shape) = e Vnly /\ zeval e (snd gen_msk_shape) = e Vnlx /\ gen_msk_false = [(0, 0)].
Proof. repeat split; reflexivity. Qed.

(* together: the generated descriptions, interpreted on the arguments of a call, ARE solve_array *)
Lemma bridge_solve_array (O : Ops) (a : args O) (g : geom O) :
  geometry O a = inl g ->
  let e := mk_env (zpy O g) (zpx O g) (znye O g) (znxe O g) (znly O g) (znlx O g) in
  let se := shift_env O a g in
  let rc := cltb O (c0 O) (cadd O (cmul O (a_xm O a) (a_xm O a)) (cmul O (a_ym O a) (a_ym O a))) in
  (if a_footprint O a then run_ones O e gen_ones_shape gen_ones_divs = tq0_arr O a g
   else run_ops O e se gen_fwd (src_arr O a g) = Some (tq0_arr O a g)) /\
  run_ops O e se (gen_conc (a_footprint O a) rc) (spec_arr O a g fst) = Some (field_arr O a g fst) /\
  run_ops O e se (gen_flx (a_footprint O a) rc) (spec_arr O a g snd) = Some (field_arr O a g snd) /\
  solve_array O a = inl (field_arr O a g fst, field_arr O a g snd).
Proof.
  intros Hg. cbv zeta. split; [|split; [|split]].
  - unfold tq0_arr. destruct (a_footprint O a).
    + apply bridge_ones with (py := zpy O g) (px := zpx O g).
    + unfold src_arr. apply bridge_fwd.
  - unfold field_arr, apply_shift, spec_arr. rewrite bridge_conc.
    destruct (a_footprint O a); [reflexivity|]. destruct (cltb O _ _); reflexivity.
  - unfold field_arr, apply_shift, spec_arr. rewrite bridge_flx.
    destruct (a_footprint O a); [reflexivity|]. destruct (cltb O _ _); reflexivity.
  - unfold solve_array. rewrite Hg. reflexivity.
Qed.
