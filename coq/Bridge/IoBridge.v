(* Bridge lemmas of property C18: the terms that harness/py2coq_io.py extracts on every run from
   /repo/src/bldfm/io.py (Gen.GenIo: gen_save, gen_load) mean, by the semantics of Model/IoDesc.v, exactly
   Model.NetcdfAsm.assemble / save / load -- for ALL results lists (any number of towers, steps, key order,
   duplicate or unknown names), ALL tower lists, every interpretation of the operations the model does not have
   (E : extras) and every library (write, read).  Every statement is closed (no Section variables).

   The first group names WHICH part of the description stopped being the model's when the source is changed:
     bridge_names            tower_names = list(results.keys())                (not sorted, not the configured order)
     bridge_is3d_test        the 2-D/3-D test is first_result["flx"].ndim == 3
     bridge_members_3d/_2d   the Dataset has exactly the nine data variables and the coordinates x, y, [z,] time, tower
     bridge_fields_3d/_2d    footprint / concentration: np.zeros((n_time, n_towers) + block shape), no dtype, filled
                             as a[t, ti] = r[key] by the loop nest over enumerate(tower_names) x enumerate(results[name]),
                             no astype; dims (time, tower, [z,] y, x)
     bridge_met              ustar / mol / wind_speed / wind_dir: np.zeros((n_time,)) filled as a[t] = r["params"][key]
                             inside `if ti == 0`; dim (time)
     bridge_labels           tower_lat / tower_lon / tower_z: looked up BY NAME for every entry of tower_names; dim (tower)
     bridge_coords_3d/_2d    x = X[0, 0, :], y = Y[0, :, 0], z = Z[:, 0, 0]  /  x = X[0, :] if X.ndim == 2 else X, ...; no z in 2-D
     bridge_time             time = [str(r["timestamp"]) for r in results[tower_names[0]]]
     bridge_tower            tower = tower_names
     bridge_encoding         no encoding entry other than compression / chunk layout (no dtype, scale_factor, ...)
     bridge_metadata         every member carries long_name + units (string literals); the global attributes and the
                             configuration fields that feed closure / domain_xmax / domain_ymax
   The second group is the tie itself:
     bridge_save             run_save gen_save = assemble  (and nothing lossy is requested from the writer)
     bridge_save_file        writing the denoted dataset = Model.NetcdfAsm.save
     bridge_load             run_load gen_load = load
     bridge_roundtrip        with read (write d) = d : load after save = assemble
     bridge_select           selection by tower / time / both on what is loaded = selection on the assembled dataset *)
From Coq Require Import List Arith Bool String.
From BL Require Import Model.NetcdfAsm Model.IoDesc Proofs.IoBridgeLemmas.
From Gen Require Import GenIo.
Import ListNotations.
Local Open Scope string_scope.

Lemma bridge_names : sv_names gen_save = NKeys.
Proof. reflexivity. Qed.

Lemma bridge_is3d_test : sv_is3d gen_save = (KFlx, 3).
Proof. reflexivity. Qed.

Lemma bridge_members_3d :
  exists n, normalize (sv_3d gen_save) = Some n /\ n_z n <> None /\ List.length (dd_vars (sv_3d gen_save)) = 9 /\
            List.length (dd_coords (sv_3d gen_save)) = 5.
Proof. eexists. split; [reflexivity|]. split; [discriminate|]. split; reflexivity. Qed.

Lemma bridge_members_2d :
  exists n, normalize (sv_2d gen_save) = Some n /\ n_z n = None /\ List.length (dd_vars (sv_2d gen_save)) = 9 /\
            List.length (dd_coords (sv_2d gen_save)) = 4.
Proof. eexists. split; [reflexivity|]. split; [reflexivity|]. split; reflexivity. Qed.

Lemma bridge_fields_3d : exists k1 k2 : fkey,
  option_map n_fp (normalize (sv_3d gen_save)) = Some (n_fp (canon_norm true MByName k1 k2)) /\
  option_map n_conc (normalize (sv_3d gen_save)) = Some (n_conc (canon_norm true MByName k1 k2)).
Proof. eexists. eexists. split; cbv; reflexivity. Qed.

Lemma bridge_fields_2d : exists k1 k2 : fkey,
  option_map n_fp (normalize (sv_2d gen_save)) = Some (n_fp (canon_norm false MByName k1 k2)) /\
  option_map n_conc (normalize (sv_2d gen_save)) = Some (n_conc (canon_norm false MByName k1 k2)).
Proof. eexists. eexists. split; cbv; reflexivity. Qed.

Lemma bridge_met : forall b : bool,
  let n := normalize (if b then sv_3d gen_save else sv_2d gen_save) in
  option_map n_ustar n = Some (["time"], canon_met PUstar) /\ option_map n_mol n = Some (["time"], canon_met PMol) /\
  option_map n_ws n = Some (["time"], canon_met PWs) /\ option_map n_wd n = Some (["time"], canon_met PWd).
Proof. intros [|]; repeat split; reflexivity. Qed.

Lemma bridge_labels : forall b : bool,
  let n := normalize (if b then sv_3d gen_save else sv_2d gen_save) in
  option_map n_lat n = Some (["tower"], DMeta MByName TLat) /\ option_map n_lon n = Some (["tower"], DMeta MByName TLon) /\
  option_map n_zm n = Some (["tower"], DMeta MByName TZm).
Proof. intros [|]; repeat split; reflexivity. Qed.

Lemma bridge_coords_3d :
  let n := normalize (sv_3d gen_save) in
  option_map n_x n = Some (["x"], DCoordIdx GX [I0; I0; IAll]) /\
  option_map n_y n = Some (["y"], DCoordIdx GY [I0; IAll; I0]) /\
  option_map n_z n = Some (Some (["z"], DCoordIdx GZ [IAll; I0; I0])).
Proof. repeat split; reflexivity. Qed.

Lemma bridge_coords_2d :
  let n := normalize (sv_2d gen_save) in
  option_map n_x n = Some (["x"], DCoordIf2 GX [I0; IAll] GX) /\
  option_map n_y n = Some (["y"], DCoordIf2 GY [IAll; I0] GY) /\
  option_map n_z n = Some None.
Proof. repeat split; reflexivity. Qed.

Lemma bridge_time : forall b : bool,
  option_map n_time (normalize (if b then sv_3d gen_save else sv_2d gen_save)) = Some (["time"], DStamps TStr).
Proof. intros [|]; reflexivity. Qed.

Lemma bridge_tower : forall b : bool,
  option_map n_tower (normalize (if b then sv_3d gen_save else sv_2d gen_save)) = Some (["tower"], DNames NKeys).
Proof. intros [|]; reflexivity. Qed.

Lemma bridge_encoding : lossy (dd_enc (sv_3d gen_save)) = [] /\ lossy (dd_enc (sv_2d gen_save)) = [].
Proof. split; reflexivity. Qed.

Lemma bridge_metadata :
  metadata_ok (sv_3d gen_save) = true /\ metadata_ok (sv_2d gen_save) = true /\
  map attr_kind (dd_attrs (sv_3d gen_save)) = model_global_attrs /\
  map attr_kind (dd_attrs (sv_2d gen_save)) = model_global_attrs.
Proof. repeat split; reflexivity. Qed.

Theorem bridge_save :
  forall (N L T V F A : Type) (eqbN : N -> N -> bool) (str : T -> L) (nanV : V) (zeroF : F) (E : @extras N L T V F),
  (forall a : N, eqbN a a = true) ->
  forall (rs : @results N T V F A) (tws : list (@tower N V)),
  run_save eqbN str nanV zeroF E gen_save rs tws =
  option_map (fun d => (d, @nil (string * string))) (assemble eqbN str nanV zeroF rs tws).
Proof.
  intros N L T V F A eqbN str nanV zeroF E Hrefl.
  eapply (run_save_canonical eqbN str nanV zeroF E Hrefl gen_save); [reflexivity|reflexivity|cbv; reflexivity|cbv; reflexivity].
Qed.

Theorem bridge_save_file :
  forall (N L T V F A : Type) (eqbN : N -> N -> bool) (str : T -> L) (nanV : V) (zeroF : F) (E : @extras N L T V F),
  (forall a : N, eqbN a a = true) ->
  forall (file : Type) (write : @dataset N L V F A -> file) (rs : @results N T V F A) (tws : list (@tower N V)),
  option_map (fun p => write (fst p)) (run_save eqbN str nanV zeroF E gen_save rs tws) =
  save eqbN str nanV zeroF write rs tws /\
  option_map snd (run_save eqbN str nanV zeroF E gen_save rs tws) =
  option_map (fun _ => @nil (string * string)) (assemble eqbN str nanV zeroF rs tws).
Proof.
  intros N L T V F A eqbN str nanV zeroF E Hrefl file write rs tws.
  rewrite (bridge_save N L T V F A eqbN str nanV zeroF E Hrefl rs tws). unfold save.
  destruct (assemble eqbN str nanV zeroF rs tws); split; reflexivity.
Qed.

Theorem bridge_load :
  forall (N L V F A : Type) (file : Type) (read : file -> @dataset N L V F A) (f : file),
  run_load read gen_load f = Some (load read f).
Proof. intros. apply run_load_canonical. reflexivity. Qed.

Theorem bridge_roundtrip :
  forall (N L T V F A : Type) (eqbN : N -> N -> bool) (str : T -> L) (nanV : V) (zeroF : F) (E : @extras N L T V F),
  (forall a : N, eqbN a a = true) ->
  forall (file : Type) (write : @dataset N L V F A -> file) (read : file -> @dataset N L V F A),
  (forall d, read (write d) = d) ->
  forall (rs : @results N T V F A) (tws : list (@tower N V)) d enc,
  run_save eqbN str nanV zeroF E gen_save rs tws = Some (d, enc) ->
  enc = [] /\ run_load read gen_load (write d) = Some d /\ assemble eqbN str nanV zeroF rs tws = Some d.
Proof.
  intros N L T V F A eqbN str nanV zeroF E Hrefl file write read Hrw rs tws d enc H.
  rewrite (bridge_save N L T V F A eqbN str nanV zeroF E Hrefl rs tws) in H.
  destruct (assemble eqbN str nanV zeroF rs tws) as [d'|]; [|discriminate H].
  cbn in H. inversion H; subst d' enc. split; [reflexivity|]. split; [|reflexivity].
  rewrite bridge_load. unfold load. rewrite Hrw. reflexivity.
Qed.

Theorem bridge_select :
  forall (N L T V F A : Type) (eqbN : N -> N -> bool) (eqbL : L -> L -> bool) (str : T -> L) (nanV : V) (zeroF : F)
         (E : @extras N L T V F),
  (forall a : N, eqbN a a = true) ->
  forall (file : Type) (write : @dataset N L V F A -> file) (read : file -> @dataset N L V F A),
  (forall d, read (write d) = d) ->
  forall (rs : @results N T V F A) (tws : list (@tower N V)) d enc d',
  run_save eqbN str nanV zeroF E gen_save rs tws = Some (d, enc) ->
  run_load read gen_load (write d) = Some d' ->
  assemble eqbN str nanV zeroF rs tws = Some d' /\
  (forall nm, sel_tower eqbN d' nm = sel_tower eqbN d nm) /\
  (forall lab, sel_time eqbL d' lab = sel_time eqbL d lab) /\
  (forall nm lab, sel_block eqbN eqbL d' nm lab = sel_block eqbN eqbL d nm lab).
Proof.
  intros N L T V F A eqbN eqbL str nanV zeroF E Hrefl file write read Hrw rs tws d enc d' Hs Hl.
  destruct (bridge_roundtrip N L T V F A eqbN str nanV zeroF E Hrefl file write read Hrw rs tws d enc Hs) as [_ [Hl' Ha]].
  rewrite Hl' in Hl. inversion Hl; subst d'. split; [exact Ha|]. split; [reflexivity|]. split; reflexivity.
Qed.
