(* Bridge lemmas for the KERNEL (tie B of C10, shared by the solver family): the functions that
   harness/py2coq_kernel.py translates from the CURRENT /repo/src/bldfm/solver.py (Gen.GenKernel, regenerated on every
   run) - the WHOLE body of ivp_solver and the mean-mode block of steady_state_transport_solver, read for one
   horizontal mode - equal the hand-written model of Model/Solver.v (ivp = ivp_loop + record, mean_loop) for ALL
   inputs: every column with at least one node, every list of levels (repeats and out-of-range entries included),
   every initial state, every initial contents of the output column, every profile.

   The control structure (layer loop, recording loops, final recording, order of recording and update) is bridged by
   the structural lemmas of Proofs/KernelBridgeLemmas.v and needs no field law; `Laws O` enters only where the layer
   update / trapezoid expression is compared with Solver.step / Solver.mean_update (ring / field).

   The proofs first normalise the loop shapes (enumerate, filtered comprehension, one loop for both columns or one
   loop per column, Python ints), so harmless rewrites of the source stay provable; a recording after the update, a
   sweep over range(nz) or range(nz - 2), a final test against nz, Kz[i] used twice in the trapezoid do not. *)
From Coq Require Import ZArith List Field Ring Lia Bool Arith.
From BL Require Import Base.Ops Base.Laws Model.Solver Model.KernelPy Proofs.KernelBridgeLemmas Proofs.StepProofs Proofs.ModeProofs.
From Gen Require Import GenKernel.
Import ListNotations.

Section Bridge.
Variable O : Ops.
Hypothesis L : Laws O.
Notation "0" := (c0 O) : ops_scope. Notation "1" := (c1 O) : ops_scope.
Infix "+" := (cadd O) : ops_scope. Infix "*" := (cmul O) : ops_scope.
Infix "-" := (csub O) : ops_scope. Infix "/" := (cdiv O) : ops_scope.
Notation "- x" := (copp O x) : ops_scope.
Local Open Scope ops_scope.
Add Field OFk : (L_field O L).

(* ---- scalar algebra: literals as sums of 1, every division as a product with an inverse (no side conditions) *)
Ltac lits := unfold half, sixth, two, cofQ; rewrite ?(ofZ_6 O L), ?(ofZ_3 O L), ?(ofZ_2 O L), ?(L_ofZ_1 O L), ?(L_ofZ_0 O L).
Ltac nz1 := first [ assumption | apply (one_nz O L) | apply (two_nz O L) | apply (three_nz O L) | apply (three_nz' O L) ].
Ltac nz := repeat split; repeat (apply (mul_nz O L)); try nz1.
Ltac alg :=
  lits;
  first [ reflexivity
        | ring
        | rewrite ?(Fdiv_def (L_field O L)); ring
        | field; nz ].

(* ---- loop shapes: enumerate / filtered comprehension -> range loop with a test; Python ints -> nat *)
Ltac shapes :=
  repeat first
    [ rewrite (fold_left_enumerate _ 0%nat)
    | rewrite fold_left_filter
    | rewrite pyrange_of_nat
    | rewrite pyzeros_of_nat ].

(* the per-slot side condition of a recording loop: `if levels[k] == i: a[k] = x` *)
Ltac slot Hz :=
  intros; cbv beta iota zeta;
  rewrite ?pylevel_eq_nat, ?(pylevel_eq_pred _ _ Hz);
  try reflexivity;
  match goal with |- context [if ?t then _ else _] => destruct t end; reflexivity.

(* recording loops (both columns in one loop, or one loop per column) -> Solver.record *)
Ltac recording levels i x y rp rq Hp Hq Hz :=
  repeat first
    [ rewrite (record_fold2 O _ levels i x y rp rq Hp Hq) by slot Hz
    | rewrite (record_fold1 O _ levels i x rp Hp) by slot Hz
    | rewrite (record_fold1 O _ levels i y rq Hq) by slot Hz ].

(* ================================================================ ivp_solver *)

Theorem bridge_ivp_solver (p0 q0 : C O) (u v Kx Ky Kz z : list (C O)) (levels : list nat) (lx ly : C O) :
  (1 <= length z)%nat ->
  (length z - 1 <= length u)%nat -> (length z - 1 <= length v)%nat -> (length z - 1 <= length Kx)%nat ->
  (length z - 1 <= length Ky)%nat -> (length z - 1 <= length Kz)%nat ->
  gen_ivp_solver O (p0, q0) (u, v, Kx, Ky, Kz) z levels lx ly
  = flat4 O (ivp O lx ly (layers_of O z (mkProf O u v Kx Ky Kz)) levels (p0, q0)).
Proof.
  intros Hz Hu Hv HKx HKy HKz.
  unfold gen_ivp_solver. cbv beta iota zeta. shapes. rewrite pyrange_pred.
  (* the layer sweep *)
  rewrite (ivp_fold_bridge O _ lx ly u v Kx Ky Kz z levels p0 q0 _ _ Hu Hv HKx HKy HKz
             (zeros_length' O _) (zeros_length' O _)).
  2:{ intros i p q rp rq Hi Hp Hq. cbv beta iota zeta. shapes.
      recording levels i p q rp rq Hp Hq Hz. cbv beta iota.
      unfold step, pyget, pydiff, coef_a, coef_b, coef_c, coef_d, Tsym.
      cbn [fst snd l_Kx l_Ky l_u l_v l_Kz l_dz].
      rewrite ?Nat.add_1_r, ?Nat.add_0_r, ?(diffs_nth O z i Hi).   (* dz[i] or z[i + 1] - z[i] *)
      apply tuple4_eq; [alg|alg|reflexivity|reflexivity]. }
  (* the final recording *)
  unfold ivp.
  pose proof (ivp_loop_lengths O lx ly levels (layers_of O z (mkProf O u v Kx Ky Kz)) 0%nat (p0, q0)
                (zeros O (length levels)) (zeros O (length levels)) (zeros_length' O _) (zeros_length' O _)) as [Hlp Hlq].
  rewrite (layers_of_length O u v Kx Ky Kz z Hu Hv HKx HKy HKz).
  destruct (ivp_loop O lx ly (layers_of O z (mkProf O u v Kx Ky Kz)) 0%nat levels (p0, q0)
              (zeros O (length levels)) (zeros O (length levels))) as [[[p q] rp] rq].
  cbn [fst snd] in Hlp, Hlq. cbn [flat4 fst snd]. cbv beta iota.
  recording levels (length z - 1)%nat p q rp rq Hlp Hlq Hz. cbv beta iota.
  reflexivity.
Qed.

(* C10 on the translated code: for a valid level levels[k] (<= nz - 1), slot k of the two arrays that the CODE returns
   holds the state of the sweep at node levels[k], and the returned final state is the end of the sweep - whatever the
   order of the list, with repeats, next to out-of-range entries *)
Theorem bridge_ivp_solver_slots (p0 q0 : C O) (u v Kx Ky Kz z : list (C O)) (levels : list nat) (lx ly : C O) k d :
  (1 <= length z)%nat ->
  (length z - 1 <= length u)%nat -> (length z - 1 <= length v)%nat -> (length z - 1 <= length Kx)%nat ->
  (length z - 1 <= length Ky)%nat -> (length z - 1 <= length Kz)%nat ->
  (k < length levels)%nat -> (nth k levels 0%nat <= length z - 1)%nat ->
  let Ls := layers_of O z (mkProf O u v Kx Ky Kz) in
  let '(pf, qf, rp, rq) := gen_ivp_solver O (p0, q0) (u, v, Kx, Ky, Kz) z levels lx ly in
  (pf, qf) = final O lx ly Ls (p0, q0) /\
  length rp = length levels /\ length rq = length levels /\
  nth k rp d = fst (nth (nth k levels 0%nat) (traj O lx ly Ls (p0, q0)) (d, d)) /\
  nth k rq d = snd (nth (nth k levels 0%nat) (traj O lx ly Ls (p0, q0)) (d, d)).
Proof.
  intros Hz Hu Hv HKx HKy HKz Hk Hl. cbv zeta.
  rewrite (bridge_ivp_solver p0 q0 u v Kx Ky Kz z levels lx ly Hz Hu Hv HKx HKy HKz).
  pose proof (ivp_spec O L lx ly (layers_of O z (mkProf O u v Kx Ky Kz)) levels (p0, q0)) as H.
  destruct (ivp O lx ly (layers_of O z (mkProf O u v Kx Ky Kz)) levels (p0, q0)) as [[[pf qf] rp] rq].
  cbn [flat4 fst snd]. destruct H as (Hf & Hlp & Hlq & Hs).
  rewrite (layers_of_length O u v Kx Ky Kz z Hu Hv HKx HKy HKz) in Hs.
  destruct (Hs k d Hk Hl) as [Hsp Hsq].
  split; [exact Hf|]. split; [exact Hlp|]. split; [exact Hlq|]. split; assumption.
Qed.

(* ================================================================ mean mode *)

Theorem bridge_mean_mode (p000 q00 : C O) (u v Kx Ky Kz z : list (C O)) (levels : list nat) (col : list (C O)) :
  (1 <= length z)%nat -> (length z <= length Kz)%nat -> length col = length levels ->
  gen_mean_mode O p000 q00 (u, v, Kx, Ky, Kz) z levels col
  = mean_loop O q00 (diffs O z) Kz 0%nat levels p000 col.
Proof.
  intros Hz HKz Hc.
  unfold gen_mean_mode. cbv beta iota zeta. shapes. rewrite pyrange_pred.
  match goal with |- context [fold_left ?F (seq 0 (length z - 1)) (p000, col)] =>
    rewrite <- (mean_fold_bridge O F q00 z Kz levels p000 col HKz Hz Hc) end.
  2:{ intros i p r Hi Hr. cbv beta iota zeta. shapes.
      recording levels i p p r r Hr Hr Hz. cbv beta iota.
      unfold mean_update, pyget, pydiff. rewrite ?Nat.add_1_r, ?Nat.add_0_r, ?(diffs_nth O z i Hi).
      apply tuple2_eq; [alg|reflexivity]. }
  cbv zeta.
  match goal with |- context [fold_left ?F (seq 0 (length z - 1)) (p000, col)] =>
    pose proof (mean_fold_length O F levels (seq 0 (length z - 1)) p000 col Hc) as Hl;
    destruct (fold_left F (seq 0 (length z - 1)) (p000, col)) as [p r] end.
  cbn [fst snd] in *. cbv beta iota.
  assert (Hr : length r = length levels).
  { apply Hl. intros i p' r' _ Hr'. cbv beta iota zeta. shapes.
    recording levels i p' p' r' r' Hr' Hr' Hz. cbv beta iota. cbn [snd].
    apply record_length'. exact Hr'. }
  recording levels (length z - 1)%nat p p r r Hr Hr Hz.
  reflexivity.
Qed.

(* C10 / C03 on the translated block: for a valid level, slot k of the mean-mode column is p000 - q00 * (trapezoidal
   resistance up to node levels[k]) - whatever the column held before (the code presets tfftp[0, 0, 0] = p000, the
   model starts from zeros: for valid levels the difference is overwritten) *)
Theorem bridge_mean_mode_slots (p000 q00 : C O) (u v Kx Ky Kz z : list (C O)) (levels : list nat) (col : list (C O)) k d :
  (1 <= length z)%nat -> (length z <= length Kz)%nat -> length col = length levels ->
  (k < length levels)%nat -> (nth k levels 0%nat <= length z - 1)%nat ->
  nth k (snd (gen_mean_mode O p000 q00 (u, v, Kx, Ky, Kz) z levels col)) d
  = p000 - q00 * resistance O (diffs O z) Kz (nth k levels 0%nat).
Proof.
  intros Hz HKz Hc Hk Hl.
  rewrite (bridge_mean_mode p000 q00 u v Kx Ky Kz z levels col Hz HKz Hc).
  pose proof (mean_loop_spec O L q00 levels (diffs O z) Kz 0%nat p000 col Hc) as H. cbv zeta in H.
  destruct H as [_ Hn]. rewrite (Hn k d Hk).
  pose proof (mean_traj_length O L q00 (diffs O z) Kz p000) as Hlen. rewrite (diffs_length O z) in Hlen.
  assert (Hm : Nat.min (length z - 1) (pred (length Kz)) = (length z - 1)%nat) by lia.
  rewrite Hm in Hlen.
  replace ((0 <=? nth k levels 0%nat)%nat && (nth k levels 0%nat <? 0 + length (mean_traj O q00 (diffs O z) Kz p000))%nat)
    with true by (symmetry; apply andb_true_iff; split; [apply Nat.leb_le; lia|apply Nat.ltb_lt; lia]).
  rewrite Nat.sub_0_r. apply (mean_traj_closed O L). lia.
Qed.

(* ---- the hypotheses are satisfiable: a three-node column; a level list with a repeat, an unsorted pair and an
   out-of-range entry; arbitrary values *)
Example bridge_ivp_solver_instance (p0 q0 lx ly u0 u1 u2 v0 v1 v2 kx0 kx1 kx2 ky0 ky1 ky2 kz0 kz1 kz2 z0 z1 z2 : C O) :
  gen_ivp_solver O (p0, q0) ([u0; u1; u2], [v0; v1; v2], [kx0; kx1; kx2], [ky0; ky1; ky2], [kz0; kz1; kz2]) [z0; z1; z2]
                 [2; 0; 2; 7; 1]%nat lx ly
  = flat4 O (ivp O lx ly (layers_of O [z0; z1; z2]
                            (mkProf O [u0; u1; u2] [v0; v1; v2] [kx0; kx1; kx2] [ky0; ky1; ky2] [kz0; kz1; kz2]))
                 [2; 0; 2; 7; 1]%nat (p0, q0)).
Proof. apply bridge_ivp_solver; cbn [length]; lia. Qed.

Example bridge_mean_mode_instance (p000 q00 kz0 kz1 kz2 z0 z1 z2 s0 s1 s2 s3 s4 : C O) :
  gen_mean_mode O p000 q00 ([], [], [], [], [kz0; kz1; kz2]) [z0; z1; z2] [2; 0; 2; 7; 1]%nat [s0; s1; s2; s3; s4]
  = mean_loop O q00 (diffs O [z0; z1; z2]) [kz0; kz1; kz2] 0%nat [2; 0; 2; 7; 1]%nat p000 [s0; s1; s2; s3; s4].
Proof. apply bridge_mean_mode; cbn [length]; lia. Qed.

End Bridge.

(* the arrays of steady_state_transport_solver whose mean-mode parts the block reads (source spectrum) / updates
   (concentration spectrum) *)
Module KernelNames.
Import String.
Lemma bridge_mean_arrays :
  GenNames.gen_mean_source_array = "tfftq0"%string /\ GenNames.gen_mean_column_array = "tfftp"%string.
Proof. split; reflexivity. Qed.
End KernelNames.
