(* Bridge at function level: the descriptions of pbl_model.vertical_profiles / psi / phi generated from the CURRENT
   source (Gen.GenPblFun, harness/py2coq_pbl.py), run by the interpreter of Model/PblDesc.v, are what Model/Pbl.v
   says — for ALL arguments: every closure string (unknown -> ValueError), every combination of given / not given
   for ustar, z0, mol, prsc, closure, domain_height, stretch, z0_min, z0_max, tke, every n (0 -> ZeroDivisionError),
   every wind.  `vp_matches` (Model/PblDesc.v) says: the call raises exactly when the model says so, with that
   exception; otherwise it returns (z, (u, v, Kx, Ky, Kz)), six arrays of e_nnodes E elements whose entries are the
   model's node functions at every index, and Kx, Ky, Kz are one array object except for MOSTM (all distinct). *)
From Coq Require Import Reals ZArith List String Bool Lra.
From BL Require Import Model.Pbl Model.PblDesc Proofs.PblBridgeLemmas.
From Gen Require Import GenPblFun.
Import ListNotations.
Open Scope R_scope.

Lemma bridge_fun_psi x : efun_eval gen_psi_def x = Some (psi x).
Proof.
  unfold gen_psi_def. pbl_efun. unfold psi, psi_stable, psi_unstable, psi_of_xi, xi_of.
  destruct (Rlt_dec 0 x) as [H|H]; apply f_equal; req.
Qed.

Lemma bridge_fun_phi x : efun_eval gen_phi_def x = Some (phi x).
Proof.
  unfold gen_phi_def. pbl_efun. unfold phi, phi_stable, phi_unstable.
  destruct (Rlt_dec 0 x) as [H|H]; apply f_equal; req.
Qed.

Lemma bridge_fun_signature : f_params gen_vp_def = vp_signature.
Proof. reflexivity. Qed.

(* the module's function environment is the model's psi, phi *)
Lemma bridge_fun_fenv : gen_fenv = [("psi"%string, psi); ("phi"%string, phi)].
Proof.
  unfold gen_fenv.
  rewrite (FunctionalExtensionality.functional_extensionality _ _ (sem_of_eval _ _ bridge_fun_psi)).
  rewrite (FunctionalExtensionality.functional_extensionality _ _ (sem_of_eval _ _ bridge_fun_phi)).
  reflexivity.
Qed.
Ltac rw := idtac.

Ltac known := timeout 20 (pbl_run; pbl_model; first [ reflexivity | pbl_returns rw ]).

Theorem bridge_fun_vertical_profiles : forall a : vp_args, vp_matches (gen_vp a) (vp_outcome a).
Proof.
  intros [n zm um vm ustar z0 mol prsc closure dh st z0min z0max tke].
  unfold gen_vp. rewrite bridge_fun_fenv. unfold vp_outcome, gen_vp_def, closure_of_string. pbl_bind. cbv [f_body].
  generalize (opt_str closure "MOST"); intro cs.
  generalize (opt_default mol 1000000000); intro molv.
  generalize (opt_default prsc 1); intro prscv.
  destruct (str_eq cs "CONSTANT") eqn:E1.
  { apply str_eq_eq in E1; subst cs.
    destruct z0 as [z0|], ustar as [us|], st as [st|], dh as [dh|]; cbn [opt_value]; known. }
  destruct (str_eq cs "MOST") eqn:E2.
  { apply str_eq_eq in E2; subst cs.
    destruct z0 as [z0|], ustar as [us|], st as [st|], dh as [dh|]; cbn [opt_value]; known. }
  destruct (str_eq cs "MOSTM") eqn:E3.
  { apply str_eq_eq in E3; subst cs.
    destruct z0 as [z0|], ustar as [us|], st as [st|], dh as [dh|]; cbn [opt_value]; known. }
  destruct (str_eq cs "OAAHOC") eqn:E4.
  { apply str_eq_eq in E4; subst cs.
    destruct ustar as [us|], tke as [tke|], st as [st|], dh as [dh|]; cbn [opt_value]; known. }
  (* any other string: the first chain raises before anything else is looked at *)
  first [ pbl_prefix 1%nat ltac:(rewrite ?E1, ?E2, ?E3, ?E4; reflexivity)
        | pbl_prefix 2%nat ltac:(rewrite ?E1, ?E2, ?E3, ?E4; reflexivity)
        | pbl_prefix 3%nat ltac:(rewrite ?E1, ?E2, ?E3, ?E4; reflexivity)
        | pbl_prefix 4%nat ltac:(rewrite ?E1, ?E2, ?E3, ?E4; reflexivity)
        | pbl_prefix 5%nat ltac:(rewrite ?E1, ?E2, ?E3, ?E4; reflexivity)
        | pbl_prefix 6%nat ltac:(rewrite ?E1, ?E2, ?E3, ?E4; reflexivity)
        | pbl_prefix 7%nat ltac:(rewrite ?E1, ?E2, ?E3, ?E4; reflexivity)
        | pbl_prefix 8%nat ltac:(rewrite ?E1, ?E2, ?E3, ?E4; reflexivity) ].
Qed.
