(* Bridge lemmas: the scalar formulas extracted on every run from
     /repo/src/bldfm/config_parser.py  latlon_to_xy   (both components of `return x, y`, with the module constant
                                                       _EARTH_RADIUS read from the module)
     /repo/src/bldfm/plotting/_geo.py  xy_to_latlon   (both components of `return lats, lons`)
   by the slice translator (Gen.GenGeo) equal the hand-written model of Model/Geo.v for ALL arguments.
   `ring` treats cos(..), PI and inverses as atoms: harmless re-association passes, a changed radius, a cosine taken
   at another latitude, a swapped component or a dropped conversion factor does not. *)
From Coq Require Import Reals.
From BL Require Import Model.Geo.
From Gen Require Import GenGeo.
Open Scope R_scope.

Lemma bridge_l2x_x : forall lat lon ref_lat ref_lon : R,
  gen_l2x_x lon ref_lon ref_lat = fst (latlon_to_xy lat lon ref_lat ref_lon).
Proof. intros. unfold gen_l2x_x, latlon_to_xy, radians, earth_radius. cbn [fst]. ring. Qed.

Lemma bridge_l2x_y : forall lat lon ref_lat ref_lon : R,
  gen_l2x_y lat ref_lat = snd (latlon_to_xy lat lon ref_lat ref_lon).
Proof. intros. unfold gen_l2x_y, latlon_to_xy, radians, earth_radius. cbn [snd]. ring. Qed.

Lemma bridge_x2l_lats : forall x y ref_lat ref_lon : R,
  gen_x2l_lats ref_lat y = fst (xy_to_latlon x y ref_lat ref_lon).
Proof. intros. unfold gen_x2l_lats, xy_to_latlon, degrees, radians, earth_radius. cbn [fst]. ring. Qed.

Lemma bridge_x2l_lons : forall x y ref_lat ref_lon : R,
  gen_x2l_lons ref_lon x ref_lat = snd (xy_to_latlon x y ref_lat ref_lon).
Proof. intros. unfold gen_x2l_lons, xy_to_latlon, degrees, radians, earth_radius. cbn [snd]. ring. Qed.
