(* Bridge lemmas: every kernel extracted from /repo/src/bldfm/solver.py by the slice translator
   (Gen.GenSolver, regenerated on every run) equals the hand-written model kernel of
   Model/Solver.v, for ALL arguments, under the field laws.  Harmless algebraic rewrites of the
   source keep these provable; a changed sign, coefficient, operand or index does not.
   (The slices of ivp_solver's layer step and of the trapezoid update are in Bridge/StepBridge.v; the WHOLE body of
   ivp_solver and the mean-mode block are bridged by Bridge/KernelBridge.v.) *)
From Coq Require Import ZArith Field Ring.
From BL Require Import Base.Ops Base.Laws Model.Solver.
From Gen Require Import GenSolver.

Section Bridge.
Variable O : Ops.
Hypothesis L : Laws O.
Notation "0" := (c0 O) : ops_scope. Notation "1" := (c1 O) : ops_scope.
Infix "+" := (cadd O) : ops_scope. Infix "*" := (cmul O) : ops_scope.
Infix "-" := (csub O) : ops_scope. Infix "/" := (cdiv O) : ops_scope.
Notation "- x" := (copp O x) : ops_scope.
Local Open Scope ops_scope.
Add Field OF : (L_field O L).

Ltac lits := unfold half, sixth, two, cofQ; rewrite ?(ofZ_6 O L), ?(ofZ_3 O L), ?(ofZ_2 O L), ?(L_ofZ_1 O L).
Ltac nz1 := first [ assumption | apply (one_nz O L) | apply (two_nz O L) | apply (three_nz O L)
  | apply (three_nz' O L) ].
Ltac nz := repeat split; repeat (apply (mul_nz O L)); try nz1.

Lemma bridge_dx xmx (nx : nat) : gen_dx O xmx (cofZ O (Z.of_nat nx)) = xmx / cofZ O (Z.of_nat nx).
Proof. reflexivity. Qed.
Lemma bridge_dy ymx (ny : nat) : gen_dy O ymx (cofZ O (Z.of_nat ny)) = ymx / cofZ O (Z.of_nat ny).
Proof. reflexivity. Qed.

Lemma bridge_lx dx (n : nat) (k : Z) :
  gen_lx O dx (cofZ O (Z.of_nat n)) (cofZ O k) = wavenumber O dx n k.
Proof. unfold gen_lx, wavenumber, two. reflexivity. Qed.
Lemma bridge_ly dy (n : nat) (k : Z) :
  gen_ly O dy (cofZ O (Z.of_nat n)) (cofZ O k) = wavenumber O dy n k.
Proof. unfold gen_ly, wavenumber, two. reflexivity. Qed.

Lemma bridge_eigval Kx Ky u v Kz lx ly :
  gen_eigval O Kx Ky u v Kz lx ly = eigval O Kx Ky u v Kz lx ly.
Proof.
  unfold gen_eigval, eigval, eig_radicand. rewrite (L_ofZ_1 O L). f_equal; ring.
Qed.

Lemma bridge_alpha q2 p2 q1 p1 KzN eig :
  gen_alpha O q2 p2 q1 p1 KzN eig = alpha O KzN eig p1 q1 p2 q2.
Proof. reflexivity. Qed.

Lemma bridge_comb_p al pm1 pm2 : gen_comb_p O al pm1 pm2 = al * pm1 + pm2.
Proof. reflexivity. Qed.
Lemma bridge_comb_q al qm1 qm2 : gen_comb_q O al qm1 qm2 = al * qm1 + qm2.
Proof. reflexivity. Qed.

(* analytic branch: h, Q = q0 * exp(-eig*h), P = Q * Kzinv / eig, mean = p000 - q00*Kzinv*h *)
Lemma bridge_an_h zl z0 : gen_an_h O zl z0 = zl - z0.
Proof. reflexivity. Qed.
Lemma bridge_an_q qh eig h : gen_an_q O qh eig h = qh * cexp O (- eig * h).
Proof. reflexivity. Qed.
Lemma bridge_an_p Q Kzinv eig : gen_an_p O Q Kzinv eig = Q * Kzinv / eig.
Proof. reflexivity. Qed.
Lemma bridge_an_mean p000 q00 Kzinv h : gen_an_mean O p000 q00 Kzinv h = p000 - q00 * Kzinv * h.
Proof. reflexivity. Qed.

(* phase shifts *)
Lemma bridge_shift_fp lx ly xm ym (px py : nat) dx dy :
  gen_shift_fp O lx ly xm ym (cofZ O (Z.of_nat px)) (cofZ O (Z.of_nat py)) dx dy
  = cis O (shift_arg_fp O lx ly xm ym dx dy px py).
Proof. unfold gen_shift_fp, cis, shift_arg_fp. first [reflexivity | (apply f_equal; ring) | (f_equal; lits; field; nz)]. Qed.
Lemma bridge_shift_ctr lx ly xm ym xmx ymx :
  gen_shift_ctr O lx ly xm ym xmx ymx = cis O (shift_arg_ctr O lx ly xm ym xmx ymx).
Proof. unfold gen_shift_ctr, cis, shift_arg_ctr. first [reflexivity | (f_equal; lits; field; nz)]. Qed.

(* the re-centring shift is applied exactly when 0 < xm^2 + ym^2 *)
Lemma bridge_recentre_guard xm ym :
  gen_recentre_guard O xm ym = cltb O 0 (xm * xm + ym * ym).
Proof. unfold gen_recentre_guard. rewrite (L_ofZ_0 O L). reflexivity. Qed.

End Bridge.
