(* Bridge lemmas for the expression slices of ivp_solver's layer step (Ti, Kzinv, dzi, a, b, c, d, the (p, q) update)
   and of the trapezoid update of the mean mode (Gen.GenStep, regenerated on every run by the slice translator):
   each equals the model's kernel for ALL arguments.  These slices address the statements BY NAME (`Ti`, `Kx[i]`,
   `fftpi` ...).  The whole-function tie Bridge/KernelBridge.v proves strictly more (the whole body of ivp_solver = the
   model's ivp, the whole mean-mode block = mean_loop) and does not depend on the names of locals; these lemmas are
   kept because they localise a broken coefficient (harness/solverslices.py: when the names moved but KernelBridge
   holds, the slices are reported as subsumed instead of broken). *)
From Coq Require Import ZArith Field Ring.
From BL Require Import Base.Ops Base.Laws Model.Solver.
From Gen Require Import GenStep.

Section Bridge.
Variable O : Ops.
Hypothesis L : Laws O.
Notation "0" := (c0 O) : ops_scope. Notation "1" := (c1 O) : ops_scope.
Infix "+" := (cadd O) : ops_scope. Infix "*" := (cmul O) : ops_scope.
Infix "-" := (csub O) : ops_scope. Infix "/" := (cdiv O) : ops_scope.
Notation "- x" := (copp O x) : ops_scope.
Local Open Scope ops_scope.
Add Field OFs : (L_field O L).

Ltac lits := unfold half, sixth, two, cofQ; rewrite ?(ofZ_6 O L), ?(ofZ_3 O L), ?(ofZ_2 O L), ?(L_ofZ_1 O L).
Ltac nz1 := first [ assumption | apply (one_nz O L) | apply (two_nz O L) | apply (three_nz O L)
  | apply (three_nz' O L) ].
Ltac nz := repeat split; repeat (apply (mul_nz O L)); try nz1.

Lemma bridge_Ti Kx Ky u v lx ly : gen_Ti O Kx Ky u v lx ly = Tsym O Kx Ky u v lx ly.
Proof. unfold gen_Ti, Tsym. ring. Qed.

Lemma bridge_Kzinv Kz : gen_Kzinv O Kz = 1 / Kz.
Proof. unfold gen_Kzinv. rewrite (L_ofZ_1 O L). reflexivity. Qed.

Lemma bridge_dzi dz : gen_dzi O dz = dz.
Proof. reflexivity. Qed.

Lemma bridge_a Kzinv Ti dz : gen_a O Kzinv Ti dz = coef_a O Kzinv Ti dz.
Proof. unfold gen_a, coef_a. lits. field. nz. Qed.

Lemma bridge_b Kzinv Ti dz : gen_b O Kzinv Ti dz = coef_b O Kzinv Ti dz.
Proof. unfold gen_b, coef_b. lits. field. nz. Qed.

Lemma bridge_c Kzinv Ti dz : gen_c O Kzinv Ti dz = coef_c O Kzinv Ti dz.
Proof. unfold gen_c, coef_c. lits. field. nz. Qed.

Lemma bridge_d Kzinv Ti dz : gen_d O Kzinv Ti dz = coef_d O Kzinv Ti dz.
Proof. unfold gen_d, coef_d. lits. field. nz. Qed.

(* the (p, q) update of one layer is the model's step *)
Lemma bridge_step lx ly (Lr : layer O) p q :
  let Ti := gen_Ti O (l_Kx O Lr) (l_Ky O Lr) (l_u O Lr) (l_v O Lr) lx ly in
  let Kzinv := gen_Kzinv O (l_Kz O Lr) in
  let dzi := gen_dzi O (l_dz O Lr) in
  (gen_p_next O (gen_a O Kzinv Ti dzi) (gen_b O Kzinv Ti dzi) p q,
   gen_q_next O (gen_c O Kzinv Ti dzi) (gen_d O Kzinv Ti dzi) p q) = step O lx ly Lr (p, q).
Proof.
  cbv zeta. unfold step, gen_p_next, gen_q_next. cbn [fst snd].
  rewrite bridge_a, bridge_b, bridge_c, bridge_d, bridge_Ti, bridge_Kzinv, bridge_dzi. reflexivity.
Qed.

Lemma bridge_mean_update p00 q00 dz Kz0 Kz1 :
  gen_mean_update O p00 q00 dz Kz0 Kz1 = mean_update O p00 q00 dz Kz0 Kz1.
Proof. reflexivity. Qed.

End Bridge.
