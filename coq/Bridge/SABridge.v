(* Bridge lemmas of C20 (tie B), array part: the programs re-extracted on every run from the CURRENT source of
     bldfm/utils.py::get_source_area,
     bldfm/plotting/_common.py::_maybe_slice_level,
     bldfm/plotting/footprint.py::extract_percentile_contour
   (Gen.GenSA, written by harness/py2coq_sa.py as terms of the array-program language of Model/SADesc.v) mean, under the
   interpreter of Model/SADesc.v, exactly what Model/SourceArea.v says - for ALL arrays (any dtype kind, shape, contents),
   any function `argsort` whose value on the array it is applied to is an ascending sorting permutation, and any contents of np.empty_like.
   The proofs evaluate the generated program symbolically (cbn) and discharge the interpreter's dynamic checks (index
   ranges, equal lengths of a store, reshape size) with the lemmas of Proofs/SABridgeLemmas.v; nothing refers to the
   names of local variables or to the order of independent statements. *)
From Coq Require Import String List Arith ZArith QArith Qabs Bool Permutation Lia.
From BL Require Import Model.SourceArea Model.SourceAreaExec Model.SADesc Proofs.SourceAreaProofs Proofs.SABridgeLemmas.
From Gen Require Import GenSA.
Import ListNotations.
Open Scope Q_scope.

Arguments set_slice_list : simpl never.
Arguments slice_list : simpl never.
Arguments cast_list : simpl never.
Arguments in_range : simpl never.
Arguments scatter_into : simpl never.
Arguments prod_shape : simpl never.
Arguments gather : simpl never.
Arguments cumsum : simpl never.
Arguments norm_index : simpl never.
Arguments index_int : simpl never.
Arguments searchsorted_left : simpl never.
Arguments Z.min : simpl never.
Arguments Z.sub : simpl never.
Arguments Z.add : simpl never.
Arguments Qmult : simpl never.
Arguments Qminus : simpl never.
Arguments Qplus : simpl never.
Arguments Qabs : simpl never.
Arguments inject_Z : simpl never.
Arguments run_leaf : simpl never.

(* lengths of intermediate arrays, normalised to the length of the argument of argsort *)
Ltac sa_len Hs :=
  repeat first
    [ rewrite rev_length | rewrite gather_length | rewrite cumsum_length | rewrite shift_length
    | rewrite repeat_length | rewrite map_length | rewrite scatter_into_length | rewrite cast_list_length
    | rewrite gsa_length | rewrite (sorts_asc_length _ _ Hs) ].

(* ------------------------------------------------------------------ signatures *)

Lemma bridge_sa_params :
  fd_params gen_get_source_area = params_get_source_area /\
  fd_params gen_maybe_slice_level = params_maybe_slice_level /\
  fd_params gen_extract_percentile_contour = params_extract_percentile_contour /\
  fd_name gen_maybe_slice_level = "_maybe_slice_level"%string.
Proof. repeat split; reflexivity. Qed.

(* ------------------------------------------------------------------ get_source_area *)

(* get_source_area(f, g) = the model's get_source_area on the raveled f under the order rev (argsort (ravel g)), in
   the dtype kind of f (= of the cumulative sums), reshaped to g's shape *)
Lemma bridge_get_source_area : forall argsort junk dtf dtg shf shg df dg,
  sorts_asc dg (argsort dg) -> length df = length dg -> prod_shape shg = length dg ->
  run_leaf argsort junk gen_get_source_area [VArr dtf shf df; VArr dtg shg dg]
  = Some (VArr dtf shg (get_source_area df (rev (argsort dg)))).
Proof.
  intros argsort junk dtf dtg shf shg df dg Hs Hlen Hshape.
  unfold run_leaf, run_fn, gen_get_source_area.
  repeat first
    [ progress cbn
    | rewrite cast_list_same
    | rewrite set_slice_shift
    | rewrite in_range_perm by (apply (sorts_asc_rev_perm _ _ _ Hs); sa_len Hs; rewrite ?Hlen; reflexivity)
    | rewrite gsa_of_scatter_into by (apply (sorts_asc_rev_perm _ _ _ Hs); sa_len Hs; rewrite ?Hlen; reflexivity)
    | rewrite Nat.eqb_refl
    | progress (sa_len Hs; rewrite ?Hlen, ?Hshape) ].
  reflexivity.
Qed.

(* the order it uses satisfies the hypothesis of the theorems of Properties/C20.v *)
Lemma bridge_get_source_area_order : forall argsort (dg : list Q),
  sorts_asc dg (argsort dg) -> sorts_desc dg (rev (argsort dg)).
Proof. intros argsort dg Hs. apply sorts_asc_rev_desc, Hs. Qed.

(* ------------------------------------------------------------------ _maybe_slice_level *)

(* _maybe_slice_level(field, (X, Y, Z), level) = the model's slice_level, on rectangular arrays in which the level exists
   (Z, of which the model says nothing, is cut exactly when X is) *)
Lemma bridge_maybe_slice_level : forall argsort junk dtf dtx dty (flx X Y : arr) (Zv : value) (level : nat) fld X' Y',
  rect flx -> rect X -> rect Y -> level_ok flx X Y Zv level ->
  slice_level flx X Y level = Some (fld, X', Y') ->
  exists Zv',
    run_leaf argsort junk gen_maybe_slice_level [enc dtf flx; VTuple [enc dtx X; enc dty Y; Zv]; VInt (Z.of_nat level)]
    = Some (VTuple [enc dtf fld; VTuple [enc dtx X'; enc dty Y'; Zv']]).
Proof.
  intros argsort junk dtf dtx dty flx X Y Zv level fld X' Y' Rf RX RY Hok Hs.
  unfold run_leaf, run_fn, gen_maybe_slice_level, enc.
  destruct flx as [l|rows|L].
  - injection Hs as <- <- <-. eexists. cbn. reflexivity.
  - injection Hs as <- <- <-. eexists. cbn. reflexivity.
  - destruct Hok as [HL Hok]. simpl in Hs.
    destruct X as [xl|xrows|XL].
    + injection Hs as <- <- <-. eexists.
      repeat first [ progress cbn | rewrite index_A3 by (assumption || lia) | rewrite Nat2Z.id ]. reflexivity.
    + injection Hs as <- <- <-. eexists.
      repeat first [ progress cbn | rewrite index_A3 by (assumption || lia) | rewrite Nat2Z.id ]. reflexivity.
    + destruct Y as [yl|yrows|YL]; try discriminate.
      destruct Hok as (HX & HY & HZ). injection Hs as <- <- <-.
      destruct (index_int Zv (Z.of_nat level)) as [Zv'|] eqn:EZ; [|congruence].
      exists Zv'.
      repeat first [ progress cbn | rewrite index_A3 by (assumption || lia) | rewrite Nat2Z.id | rewrite EZ ]. reflexivity.
Qed.

(* ------------------------------------------------------------------ extract_percentile_contour *)

(* extract_percentile_contour(flx, (X, Y, Z), pct, level) = the model's extract_percentile_contour under the order
   rev (argsort (ravel (sliced field))), as the pair (float(level), float(area)); an empty field has no value on either
   side (Python: IndexError at cumsum[-1]).  The callee _maybe_slice_level is the generated one. *)
Lemma bridge_extract_percentile_contour :
  forall argsort junk dtf dtx dty (flx X Y : arr) (Zv : value) (level : nat) (pct : Q) fld X' Y',
  sorts_asc (ravel fld) (argsort (ravel fld)) -> rect flx -> rect X -> rect Y -> level_ok flx X Y Zv level ->
  slice_level flx X Y level = Some (fld, X', Y') -> grid_ok_x X' -> grid_ok_y Y' ->
  run_with argsort junk [gen_maybe_slice_level] gen_extract_percentile_contour
    [enc dtf flx; VTuple [enc dtx X; enc dty Y; Zv]; VNum pct; VInt (Z.of_nat level)]
  = pct_result (extract_percentile_contour flx X Y pct level (rev (argsort (ravel fld)))).
Proof.
  intros argsort junk dtf dtx dty flx X Y Zv level pct fld X' Y' Hs Rf RX RY Hok Hsl HgX HgY.
  destruct (bridge_maybe_slice_level argsort junk dtf dtx dty flx X Y Zv level fld X' Y' Rf RX RY Hok Hsl) as [Zv' Hcall].
  destruct (slice_level_rect _ _ _ _ _ _ _ _ Rf RX RY Hok Hsl) as (Rfld & RX' & RY').
  unfold extract_percentile_contour. rewrite Hsl.
  unfold enc in Hcall.
  unfold run_with, run_fn, gen_extract_percentile_contour, enc, pct_result.
  cbn. rewrite Hcall. clear Hcall.
  remember (ravel fld) as flat eqn:Eflat. clear Eflat.
  assert (Hpf : forall n, n = length flat -> Permutation (rev (argsort flat)) (seq 0 n)).
  { intros n Hn. apply (sorts_asc_rev_perm _ _ _ Hs Hn). }
  assert (Hcases : flat = [] \/ (0 < length flat)%nat) by (destruct flat; [left; reflexivity|right; simpl; lia]).
  destruct X' as [xl|xrows|XL]; [| |contradiction]; destruct Y' as [yl|yrows|YL]; try contradiction;
    simpl in HgX, HgY; cbn [dx_of dy_of];
    (destruct Hcases as [-> | Hpos];
     [ | rewrite pf_unfold by (intros ->; simpl in Hpos; lia); cbv zeta ];
     repeat first
      [ progress cbn
      | rewrite index_A1 by lia
      | rewrite index2_A2 by (assumption || lia)
      | rewrite in_range_perm by (apply Hpf; sa_len Hs; reflexivity)
      | rewrite index_1d_none
      | rewrite index_1d_last by (first [ sa_len Hs; reflexivity | exact Hpos ])
      | rewrite index_1d_min by exact Hpos
      | rewrite inject_Z_plus1
      | progress (sa_len Hs) ]);
    reflexivity.
Qed.

(* defaults: extract_percentile_contour(flx, grid) is the call with pct = 4/5 and level = 0 *)
Lemma bridge_extract_percentile_contour_defaults : forall argsort junk flx grid,
  run_with argsort junk [gen_maybe_slice_level] gen_extract_percentile_contour [flx; grid]
  = run_with argsort junk [gen_maybe_slice_level] gen_extract_percentile_contour [flx; grid; VNum (4 # 5); VInt 0].
Proof. intros. reflexivity. Qed.

Lemma bridge_maybe_slice_level_default : forall argsort junk field grid,
  run_leaf argsort junk gen_maybe_slice_level [field; grid]
  = run_leaf argsort junk gen_maybe_slice_level [field; grid; VInt 0].
Proof. intros. reflexivity. Qed.

(* ------------------------------------------------------------------ non-vacuity: the hypotheses above are satisfiable
   and the generated programs compute a definite value (vm_compute of the interpreter on the generated terms) *)

Lemma bridge_example_get_source_area :
  let argsort := fun _ : list Q => [1; 2; 0]%nat in
  sorts_asc [3; 1; 2] (argsort [3; 1; 2]) /\
  run_leaf argsort (7 # 3) gen_get_source_area
    [VArr DFloat [3%nat] [1 # 2; 1 # 4; 1 # 4]; VArr DInt [1%nat; 3%nat] [3; 1; 2]]
  = Some (VArr DFloat [1%nat; 3%nat] [0; 6 # 8; 1 # 2]).
Proof.
  cbv zeta. split; [split|].
  - apply is_perm_b_sound. vm_compute. reflexivity.
  - intros i j Hij Hj. simpl in Hj.
    destruct i as [|[|[|i]]]; destruct j as [|[|[|j]]]; simpl; try lia; unfold Qle; simpl; lia.
  - vm_compute. reflexivity.
Qed.

Lemma bridge_example_extract_percentile_contour :
  let argsort := fun _ : list Q => [0; 3; 2; 1]%nat in
  let flx := A3 [[[1 # 8; 1 # 2]; [1 # 4; 1 # 8]]; [[0; 0]; [0; 0]]] in
  let X := A2 [[0; 2]; [0; 2]] in let Y := A2 [[0; 0]; [1; 1]] in
  sorts_asc [1 # 8; 1 # 2; 1 # 4; 1 # 8] (argsort [1 # 8; 1 # 2; 1 # 4; 1 # 8]) /\
  rect flx /\ level_ok flx X Y (VInt 0) 0 /\ grid_ok_x X /\ grid_ok_y Y /\
  exists l a,
    run_with argsort 0 [gen_maybe_slice_level] gen_extract_percentile_contour
      [enc DFloat flx; VTuple [enc DFloat X; enc DFloat Y; VInt 0]; VNum (3 # 4)]
    = Some (VTuple [VNum l; VNum a]) /\ l == 1 # 4 /\ a == 4.
Proof.
  cbv zeta. split; [split|].
  - apply is_perm_b_sound. vm_compute. reflexivity.
  - intros i j Hij Hj. simpl in Hj.
    destruct i as [|[|[|[|i]]]]; destruct j as [|[|[|[|j]]]]; simpl; try lia; unfold Qle; simpl; lia.
  - split; [repeat constructor|]. split; [simpl; lia|]. split; [simpl; lia|]. split; [simpl; lia|].
    eexists. eexists. split; [vm_compute; reflexivity|]. split; vm_compute; reflexivity.
Qed.
