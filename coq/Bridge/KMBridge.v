(* Bridge lemmas for property C19, part 2: the formula slices of estimateFootprint's chain, of the coordinates and
   of estimateZ0's raw z0 / outlier cut / early-exit test (Gen.GenKM, regenerated on every run; a Section over
   `Gamma : R -> R`) equal the hand-written model kernels of Model/KM.v for ALL real arguments.
   Part 1 (helpers, tactics): KMHelpBridge.v. *)
From Coq Require Import Reals Lra.
From BL Require Import Model.KM.
From Gen Require Import GenKMHelp KMHelpBridge GenKM.
Open Scope R_scope.

(* ---- estimateFootprint calls the helpers with (zm, mo_len) / (zm, ws, ustar, mo_len) *)
Lemma bridge_fp_phi_m zm L : gen_fp_phi_m zm L = phiM zm L.
Proof. unfold gen_fp_phi_m. apply bridge_phiM. Qed.
Lemma bridge_fp_phi_c zm L : gen_fp_phi_c zm L = phiC zm L.
Proof. unfold gen_fp_phi_c. apply bridge_phiC. Qed.
Lemma bridge_fp_psi_m zm L : gen_fp_psi_m zm L = psiM zm L.
Proof. unfold gen_fp_psi_m. apply bridge_psiM. Qed.
Lemma bridge_fp_m zm ws ustar L : gen_fp_m zm ws ustar L = mParam zm ws ustar L.
Proof. unfold gen_fp_m. apply bridge_mParam. Qed.
Lemma bridge_fp_n zm L : gen_fp_n zm L = nParam zm L.
Proof. unfold gen_fp_n. apply bridge_nParam. Qed.

(* ---- chain *)
Lemma bridge_kappa zm ustar phic n : gen_kappa zm ustar phic n = kappa zm ustar phic n.
Proof. unfold gen_kappa, kappa. rewrite bridge_von_karman. km_eq. Qed.

Lemma bridge_U ustar zm z0 psim m : gen_U ustar zm z0 psim m = Ucoef ustar zm z0 psim m.
Proof. unfold gen_U, Ucoef. rewrite bridge_von_karman. km_eq. Qed.

Lemma bridge_U_negative U : gen_U_negative U = if Rlt_dec U 0 then true else false.
Proof. reflexivity. Qed.

Lemma bridge_r m n : gen_r m n = rshape m n.
Proof. unfold gen_r, rshape. ring. Qed.

Lemma bridge_mu m r : gen_mu m r = muc m r.
Proof. unfold gen_mu, muc. km_eq. Qed.

Lemma bridge_Xi U zm r kap : gen_Xi U zm r kap = Xic U zm r kap.
Proof. unfold gen_Xi, Xic. km_eq. Qed.

Lemma bridge_gmm Gamma mu : gen_gmm Gamma mu = Gamma mu.
Proof. reflexivity. Qed.

Lemma bridge_mr m r : gen_mr m r = mrc m r.
Proof. unfold gen_mr, mrc. km_eq. Qed.

Lemma bridge_A Gamma U r sv kap mr : gen_A Gamma U r sv kap mr = Acoef Gamma U r sv kap mr.
Proof. unfold gen_A, Acoef, Acoef_g. km_eq. Qed.

Lemma bridge_num Xi mu : gen_num Xi mu = numc Xi mu.
Proof. unfold gen_num, numc. km_eq. Qed.

(* ---- coordinates *)
Lemma bridge_x_al gx mx : gen_x_al gx mx = al_x gx mx.
Proof. unfold gen_x_al, al_x. km_eq. Qed.
Lemma bridge_y_al gy my : gen_y_al gy my = al_y gy my.
Proof. unfold gen_y_al, al_y. km_eq. Qed.

Lemma bridge_x_rot gx gy mx my wd :
  gen_x_rot (gen_rho (gen_x_sh gx mx) (gen_y_sh gy my))
            (gen_new_theta (gen_theta (gen_x_sh gx mx) (gen_y_sh gy my)) wd) = rot_x gx gy mx my wd.
Proof. reflexivity. Qed.
Lemma bridge_y_rot gx gy mx my wd :
  gen_y_rot (gen_rho (gen_x_sh gx mx) (gen_y_sh gy my))
            (gen_new_theta (gen_theta (gen_x_sh gx mx) (gen_y_sh gy my)) wd) = rot_y gx gy mx my wd.
Proof. reflexivity. Qed.
(* the same through the translator's own SSA substitution (checks the plumbing rho <- x, y <- shift) *)
Lemma bridge_x_rot_full gx gy mx my wd : gen_x_rot_full gx gy mx my wd = rot_x gx gy mx my wd.
Proof. reflexivity. Qed.
Lemma bridge_y_rot_full gx gy mx my wd : gen_y_rot_full gx gy mx my wd = rot_y gx gy mx my wd.
Proof. reflexivity. Qed.

(* ---- the cell expression *)
Lemma bridge_cell res num A x y mr mu Xi gmm :
  gen_cell res num A x y mr mu Xi gmm = cell_expr res num A x y mr mu Xi gmm.
Proof. unfold gen_cell, cell_expr. dec. Qed.

(* the fully inlined slice is the composition of the step slices: both sides come from the same source
   text, so this is conversion, and it re-checks the plumbing of the whole chain *)
Lemma bridge_cell_plumbing Gamma res zm z0 ws ustar L sv x y :
  gen_cell_full Gamma res zm z0 ws ustar L sv x y =
  let phi_c := gen_fp_phi_c zm L in
  let psi_m := gen_fp_psi_m zm L in
  let m := gen_fp_m zm ws ustar L in
  let n := gen_fp_n zm L in
  let kap := gen_kappa zm ustar phi_c n in
  let U := gen_U ustar zm z0 psi_m m in
  let r := gen_r m n in
  let mu := gen_mu m r in
  let Xi := gen_Xi U zm r kap in
  let mr := gen_mr m r in
  gen_cell res (gen_num Xi mu) (gen_A Gamma U r sv kap mr) x y mr mu Xi (gen_gmm Gamma mu).
Proof. reflexivity. Qed.

(* the composed chain is the model's cell value (below the early exit U < 0) *)
Lemma bridge_cell_chain Gamma p res x y :
  (if gen_U_negative (U_of p) then 0
   else gen_cell_full Gamma res (p_zm p) (p_z0 p) (p_ws p) (p_ustar p) (p_L p) (p_sv p) x y)
  = cell Gamma p res x y.
Proof.
  rewrite bridge_cell_plumbing. cbv zeta.
  rewrite bridge_fp_phi_c, bridge_fp_psi_m, bridge_fp_m, bridge_fp_n.
  rewrite bridge_kappa, bridge_U, bridge_r, bridge_mu, bridge_Xi, bridge_mr, bridge_num, bridge_A, bridge_gmm, bridge_cell.
  unfold cell, cell_g, gen_U_negative.
  destruct (Rlt_dec (U_of p) 0); reflexivity.
Qed.

(* ---- estimateZ0 *)
Lemma bridge_z0raw zm L ws ustar : gen_z0raw zm L ws ustar = z0raw zm L ws ustar.
Proof. unfold gen_z0raw, z0raw. rewrite bridge_psiM, bridge_von_karman. km_eq. Qed.

Lemma bridge_z0_outlier z0 : z0clean z0 = if gen_z0_outlier z0 then None else Some z0.
Proof. unfold z0clean, gen_z0_outlier. destruct (Rlt_dec 1000 z0); reflexivity. Qed.

Lemma bridge_z0_nosmooth w : gen_z0_nosmooth w = if Rlt_dec w 1 then true else false.
Proof. reflexivity. Qed.
