(* Bridge lemmas for property C19, part 3: the by-name expression slices INSIDE the smoothing loop of estimateZ0
   (Gen.GenKMLoop).  They are implied by Bridge/KMFunBridge.v (whole-function tie); when the slices cannot be found
   by name (renamed locals, hoisted copies) and KMFunBridge.v is fully discharged, kmslices reports them as subsumed. *)
From Coq Require Import Reals Lra.
From BL Require Import Model.KM.
From Gen Require Import GenKMHelp KMHelpBridge GenKMLoop.
Open Scope R_scope.

Lemma bridge_idx1 wd kk : gen_idx1 wd kk = in_bin kk wd.
Proof. reflexivity. Qed.

(* the wrap + window test, on the domain of the window theorems (directions and bins in [0, 360), half
   window at most 89 degrees); stated on the domain so that rewrites of the wrap that only differ outside
   it (e.g. `wd >= 270`) still pass *)
Lemma bridge_idx2 wd kk w : 0 <= kk < 360 -> 0 <= wd < 360 -> 0 <= w <= 89 ->
  gen_idx2 (gen_wd_wrapped wd kk) kk w = in_window kk w wd.
Proof. intros Hk Hd Hw. unfold gen_idx2, gen_wd_wrapped, in_window, wrapped. decall. Qed.
