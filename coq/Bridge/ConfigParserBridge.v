(* Bridge lemmas of C13 (tie B), parser part: the descriptions re-extracted on every run from the CURRENT source of
   /repo/src/bldfm/config_parser.py (Gen.GenConfigParser, written by harness/py2coq_interface.py) - the _parse_*
   functions, parse_config_dict, load_config, the dataclass fields with their defaults, BLDFMConfig.__post_init__
   and TowerConfig.compute_local_xy - are the tables of Model/InterfaceDesc.v (which Proofs/InterfaceBridgeLemmas.v
   relates to Interface.parse_* for all dictionaries), and the tower placement equals Interface.place for ALL
   configurations and towers. *)
From Coq Require Import List Arith Bool String ZArith.
From BL Require Import Model.Met Model.Interface Model.InterfaceDesc.
From Gen Require Import GenConfigParser.
Import ListNotations.
Open Scope string_scope.
Open Scope list_scope.

(* BLDFMConfig.__post_init__ / TowerConfig.compute_local_xy: a tower is re-placed exactly when BOTH reference
   coordinates are not None (not: truthy), with latlon_to_xy(lat, lon, ref_lat, ref_lon) *)
Lemma bridge_post_init : forall (A T : Type) (geo_x geo_y : A -> A -> A -> A -> A) (cfg : config A T) (t : tower A),
  place_desc geo_x geo_y gen_post_init gen_local_xy cfg t = Some (place geo_x geo_y (c_domain cfg) t).
Proof.
  intros A T geo_x geo_y [dom tws m sol out par] t.
  destruct dom as [nx ny xmax ymax nz modes halo rlat rlon ol fo].
  destruct t as [tname tlat tlon tzm tx ty].
  destruct rlat as [rlat|]; destruct rlon as [rlon|]; reflexivity.
Qed.

(* ... over self.towers, and the met section is validated afterwards *)
Lemma bridge_post_init_shape : pi_over gen_post_init = model_over /\ pi_validated gen_post_init = model_validated.
Proof. split; reflexivity. Qed.

(* the parser functions: field <- key, d[k] | d.get(k) | d.get(k, default), conversion, in evaluation order,
   and `if d is None: return Cls()` exactly for the optional sections *)
Lemma bridge_parse_tower : gen_tower = tbl_tower. Proof. reflexivity. Qed.
Lemma bridge_parse_domain : gen_domain = tbl_domain. Proof. reflexivity. Qed.
Lemma bridge_parse_met : gen_met = tbl_met. Proof. reflexivity. Qed.
Lemma bridge_parse_solver : gen_solver = tbl_solver. Proof. reflexivity. Qed.
Lemma bridge_parse_output : gen_output = tbl_output. Proof. reflexivity. Qed.
Lemma bridge_parse_parallel : gen_parallel = tbl_parallel. Proof. reflexivity. Qed.

(* parse_config_dict: the three mandatory sections are checked, each part goes through its parser
   (raw[k] / raw.get(k) / every element of raw[k]);  load_config = parse_config_dict o yaml.safe_load *)
Lemma bridge_parse_top : gen_top = tbl_top. Proof. reflexivity. Qed.
Lemma bridge_load : gen_load = tbl_load. Proof. reflexivity. Qed.

(* one default per key: every d.get literal equals the default of the dataclass field (what an omitted optional
   section yields), d.get(k) fields default to None, TowerConfig.x/.y share one scalar default, the flags are
   booleans, the optional parts of BLDFMConfig default to their own class *)
Lemma bridge_defaults_consistent : defaults_consistent gen_lits gen_classes = true.
Proof. vm_compute. reflexivity. Qed.
