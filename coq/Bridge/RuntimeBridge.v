(* Tie (B) of C12: the description of the process-global state handling, re-extracted from the CURRENT source of
   fft_manager.py / config.py / utils.parallelize / solver.steady_state_transport_solver on every run
   (GenRuntime.v, harness/py2coq_runtime.py), interpreted by Model/RuntimeDesc.v, equals Model/Runtime.v
   for ALL worlds (every thread setting, every manager, every content of `_compiled` that satisfies the dict
   invariant, every creation count) and ALL ops / histories: state effect AND the sequence of transform / kernel
   invocations with their thread / variant arguments.  Compiled per run against the generated file. *)
From Coq Require Import List Arith Bool String Lia.
From BL Require Import Model.Runtime Model.RuntimeDesc Proofs.RuntimeProofs Proofs.RuntimeBridgeLemmas.
From Gen Require Import GenRuntime.
Import ListNotations.
Open Scope string_scope.

(* symbolic execution.  `ev`: comparisons of symbolic thread counts stay folded (atoms, split afterwards);
   `evn`: thread counts are first destructed into 0 / 1 / S (S _), so that almost every comparison computes. *)
Ltac ev := cbv -[Nat.eqb existsb app dict_okb].
Ltac evn := cbv -[existsb app dict_okb].

Ltac atoms :=
  repeat (match goal with
          | |- context [Nat.eqb ?a ?a] => rewrite (Nat.eqb_refl a)
          | |- context [Nat.eqb ?a ?b] =>
              let E := fresh "E" in destruct (Nat.eqb_spec a b) as [E|E]; [try subst|]
          end; ev).

Ltac split_ifs :=
  repeat (match goal with
          | |- context [if ?b then _ else _] =>
              lazymatch b with true => fail | false => fail | _ => idtac end;
              let E := fresh "E" in destruct b eqn:E
          end; cbv beta iota).

(* a slot of the dict taken apart; P : forall ki, slot = Some ki -> k_par ki = flag *)
Ltac open_slot s P :=
  let Q := fresh "Q" in
  destruct s as [[? ? ? ? ?]|];
  [ pose proof (P _ eq_refl) as Q; cbn [k_par] in Q; subst | ];
  clear P.

Ltac rewrite_order Hf Ht :=
  repeat match goal with
  | |- context [existsb _ (?l ++ [false])] => first [rewrite (existsb_snoc_false l) | rewrite (existsb_snoc_other_tf l)]
  | |- context [existsb _ (?l ++ [true])] => first [rewrite (existsb_snoc_true l) | rewrite (existsb_snoc_other_ft l)]
  end;
  rewrite ?Hf, ?Ht; cbv beta iota delta [is_some].

Ltac close1 :=
  first [ reflexivity
        | assumption
        | apply dict_okb_intro; cbn [w_order w_false w_true slot_par k_par Bool.eqb];
          repeat match goal with
          | |- context [existsb _ (?l ++ [false])] =>
              first [rewrite (existsb_snoc_false l) | rewrite (existsb_snoc_other_tf l)]
          | |- context [existsb _ (?l ++ [true])] =>
              first [rewrite (existsb_snoc_true l) | rewrite (existsb_snoc_other_ft l)]
          end;
          first [reflexivity | assumption | (cbn [is_some]; assumption)]
        | exfalso; congruence ].

Ltac finish :=
  try match goal with E : false = true |- _ => discriminate E | E : true = false |- _ => discriminate E end;
  repeat match goal with |- exists _, _ => eexists end;
  lazymatch goal with
  | |- _ /\ _ => split; [ reflexivity | repeat split; cbv beta iota; intros; close1 ]
  | |- _ => close1
  end.

(* ------------------------------------------------------------------ a fresh interpreter *)

Lemma bridge_init : forall numba0 pyfftw0 : nat,
  exists w0, init_world gen_config_globals gen_fft_globals gen_compiled_init numba0 pyfftw0 = Some w0
             /\ abs w0 = Runtime.init numba0 pyfftw0
             /\ dict_okb w0 = true.
Proof. intros. eexists. split; [reflexivity | split; reflexivity]. Qed.

(* ------------------------------------------------------------------ fft_manager.py *)

(* get_fft_manager(n), get_fft_manager(num_threads=n), get_fft_manager() *)
Lemma bridge_get_fft_manager : forall (n : nat) (w : world) (args : list (option string * val)),
  args = [(None, VNat n)] \/ args = [(Some "num_threads", VNat n)] \/ (args = [] /\ n = 1) ->
  exists w', call_fn gen_program None "get_fft_manager" args w = Some (w', [], CReturn (VMgr n))
             /\ abs w' = Runtime.get_fft_manager n (abs w)
             /\ (dict_okb w = true -> dict_okb w' = true).
Proof.
  intros n [c nb m p sf st o oth k] args [-> | [-> | [-> ->]]]; destruct m as [t|]; ev; atoms; finish.
Qed.

Lemma bridge_reset_fft_manager : forall w : world,
  exists w' r, call_fn gen_program None "reset_fft_manager" [] w = Some (w', [], r)
               /\ abs w' = Runtime.reset_fft_manager (abs w)
               /\ (dict_okb w = true -> dict_okb w' = true).
Proof. intros [c nb m p sf st o oth k]. ev. finish. Qed.

(* module-level fft2 / ifft2: the manager they fetch and the thread count the transform runs with *)
Lemma bridge_fft2 : forall (w : world) (inverse : bool),
  exists w', call_fn gen_program None (if inverse then "ifft2" else "fft2") [(None, VOpaque)] w
             = Some (w', [EvT inverse (snd (call_fft (abs w)))], CReturn VOpaque)
             /\ abs w' = fst (call_fft (abs w))
             /\ (dict_okb w = true -> dict_okb w' = true).
Proof.
  intros [c nb m p sf st o oth k] [|]; destruct m as [t|]; ev; atoms; finish.
Qed.

(* ------------------------------------------------------------------ utils.parallelize *)

(* the wrapper: flag from config.NUM_THREADS, one dispatcher per flag, the dispatcher compiled WITH that flag is the
   one that is called, under the numba thread count in force *)
Lemma bridge_parallelize : forall w : world, dict_okb w = true ->
  exists w', call_fn gen_program None "ivp_solver" [] w
             = Some (w', [EvK (fst (snd (call_parallelized (abs w)))) (snd (snd (call_parallelized (abs w))))], CReturn VOpaque)
             /\ abs w' = fst (call_parallelized (abs w))
             /\ dict_okb w' = true.
Proof.
  intros w H. destruct (dict_okb_facts w H) as [Hf [Ht [Pf [Pt [Sf St]]]]].
  destruct w as [c nb m p sf st o oth k]. cbn [w_false w_true w_order] in Hf, Ht, Pf, Pt, Sf, St.
  destruct c as [|[|c]]; [open_slot sf Pf | open_slot sf Pf | open_slot st Pt];
    cbn [is_some] in Hf, Ht; evn; rewrite_order Hf Ht; finish.
Qed.

(* kernel cache naming: each flag gets a dispatcher compiled with nopython, that flag, the on-disk cache, under a
   name of its own (equal names <-> equal flags) *)
Lemma bridge_kernel_names : forall b1 b2 : bool,
  exists k1 k2, compiled_for gen_program "ivp_solver" b1 = Some k1
                /\ compiled_for gen_program "ivp_solver" b2 = Some k2
                /\ k_par k1 = b1 /\ k_nopython k1 = true /\ k_cache k1 = true
                /\ (k_name k1 = k_name k2 <-> b1 = b2)
                /\ (k_qualname k1 = k_qualname k2 <-> b1 = b2).
Proof.
  intros [|] [|]; do 2 eexists; (split; [vm_compute; reflexivity|]); (split; [vm_compute; reflexivity|]);
    cbv; repeat split; intros; congruence.
Qed.

(* ------------------------------------------------------------------ the solver *)

Definition gen_ib := first_raise_with gen_program gen_n_raise_points 0.
Definition gen_ia := first_raise_with gen_program gen_n_raise_points 1.

Ltac fix_points :=
  let a := eval vm_compute in gen_ib in
  let b := eval vm_compute in gen_ia in
  change gen_ib with a; change gen_ia with b.

(* a returning solve (cache=None): state effect and the state-reading calls, all four branches *)
Lemma bridge_solve_returns : forall (fp an : bool) (w : world), dict_okb w = true ->
  exists w' r, run_solver gen_program None fp an w
               = Some (w', usage_events fp (snd (run_solve fp an (abs w))), CReturn r)
               /\ abs w' = fst (run_solve fp an (abs w))
               /\ dict_okb w' = true.
Proof.
  intros fp an w H.
  (* Proofs/RuntimeProofs.v: run_solve = (after_solve, usage_of), with a single membership test of `compiled` *)
  rewrite (run_solve_eq fp an (abs w)).
  destruct (dict_okb_facts w H) as [Hf [Ht [Pf [Pt [Sf St]]]]].
  destruct w as [c nb m p sf st o oth k]. cbn [w_false w_true w_order] in Hf, Ht, Pf, Pt, Sf, St.
  destruct an.
  - (* analytic branch: numpy only, no thread set-up, no kernel *)
    destruct fp; destruct m as [[|[|t]]|]; evn; finish.
  - destruct c as [|[|c]]; [open_slot sf Pf | open_slot sf Pf | open_slot st Pt];
      cbn [is_some] in Hf, Ht;
      destruct fp; destruct m as [[|[|t]]|];
      evn; rewrite_order Hf Ht; evn;
      first [solve [finish] | split_ifs; first [solve [exfalso; congruence] | finish]].
Qed.

(* a call that raises in front of every state access *)
Lemma bridge_solve_raises_before : forall (fp an : bool) (w : world),
  run_solver gen_program (Some gen_ib) fp an w = Some (w, [], CRaise gen_ib).
Proof. intros fp an [c nb m p sf st o oth k]. fix_points. destruct fp, an; evn; reflexivity. Qed.

(* a call that raises after the source transform and before the thread set-up *)
Lemma bridge_solve_raises_after_source : forall (fp an : bool) (w : world),
  exists w', run_solver gen_program (Some gen_ia) fp an w
             = Some (w', call_events fp an RaisesAfterSource (abs w), CRaise gen_ia)
             /\ abs w' = fst (run_call fp an RaisesAfterSource (abs w))
             /\ (dict_okb w = true -> dict_okb w' = true).
Proof.
  intros fp an [c nb m p sf st o oth k]. fix_points. destruct fp, an; destruct m as [[|[|t]]|]; evn; finish.
Qed.

(* ------------------------------------------------------------------ ops and histories *)

Section Numerics.
Variable A : Type.
Variables src kout mid fld : Type.
Variable flat : A -> src.
Variable fft_src : nat -> A -> src.
Variable closed : A -> src -> mid.
Variable kernel : bool -> nat -> A -> src -> bool -> kout.
Variable combine : A -> src -> kout -> kout -> mid.
Variable fft_out : nat -> A -> mid -> bool -> fld.

(* every op of Model/Runtime.v, executed on the generated description, from every world: the model's next state, and
   the model's result computed from the thread / variant arguments carried by the description's events *)
Lemma bridge_step :
  step_agrees A src kout mid fld flat fft_src closed kernel combine fft_out gen_program gen_ib gen_ia.
Proof.
  intros o w H. destruct o as [n | | a].
  - destruct w as [c nb m p sf st o oth k]. do 2 eexists. split; [reflexivity | split; [reflexivity | exact H]].
  - destruct (bridge_reset_fft_manager w) as [w' [r [E [Ab D]]]].
    exists w', []. unfold desc_step. rewrite E. split; [reflexivity | split; [exact Ab | exact (D H)]].
  - destruct a as [x an fp oc]. unfold desc_step, step, run_call, stop_of. cbn [s_outcome s_footprint s_analytic].
    destruct oc.
    + destruct (bridge_solve_returns fp an w H) as [w' [r [E [Ab D]]]].
      rewrite E. rewrite (usage_of_usage_events fp _ (run_solve_kernels fp an (abs w))).
      destruct (run_solve fp an (abs w)) as [s' u] eqn:Er. simpl in *.
      do 2 eexists. split; [reflexivity | split; assumption].
    + rewrite (bridge_solve_raises_before fp an w).
      do 2 eexists. split; [reflexivity | split; [reflexivity | exact H]].
    + destruct (bridge_solve_raises_after_source fp an w) as [w' [E [Ab D]]].
      rewrite E. do 2 eexists. split; [reflexivity | split; [exact Ab | exact (D H)]].
    + destruct (bridge_solve_returns fp an w H) as [w' [r [E [Ab D]]]].
      rewrite E. destruct (run_solve fp an (abs w)) as [s' u] eqn:Er. simpl in *.
      do 2 eexists. split; [reflexivity | split; assumption].
Qed.

(* every history, from a fresh interpreter (any environment thread counts): results and final state *)
Lemma bridge_run : forall (numba0 pyfftw0 : nat) (ops : list (op A)),
  exists w0 w',
    init_world gen_config_globals gen_fft_globals gen_compiled_init numba0 pyfftw0 = Some w0
    /\ desc_run A src kout mid fld flat fft_src closed kernel combine fft_out gen_program gen_ib gen_ia ops w0
       = Some (w', snd (Runtime.run A src kout mid fld flat fft_src closed kernel combine fft_out ops (Runtime.init numba0 pyfftw0)))
    /\ abs w' = fst (Runtime.run A src kout mid fld flat fft_src closed kernel combine fft_out ops (Runtime.init numba0 pyfftw0)).
Proof.
  intros numba0 pyfftw0 ops.
  destruct (bridge_init numba0 pyfftw0) as [w0 [E0 [A0 D0]]].
  destruct (run_agrees_of_step A src kout mid fld flat fft_src closed kernel combine fft_out gen_program gen_ib gen_ia
              bridge_step ops w0 D0) as [w' [E [Ab _]]].
  exists w0, w'. rewrite A0 in E, Ab. repeat split; assumption.
Qed.

End Numerics.
