#!/bin/bash
# usage: fast.sh <patch.diff>   — translator + KMFunBridge/KMFpFunBridge only, on a patched copy of the module
P=$(realpath "$1"); D=$(mktemp -d /tmp/kmfast.XXXXXX)
mkdir -p $D/repo/src/bldfm $D/b
cp /repo/src/bldfm/ffm_kormann_meixner.py $D/repo/src/bldfm/
(cd $D/repo && patch -s -p1 < "$P") || { echo "PATCH DOES NOT APPLY"; exit 2; }
cd /tmp/vw/kmtie/harness
BLDFM_REPO=$D/repo /venv/bin/python -c "
import kmslices, py2coq_km, sys
open('$D/b/GenKMHelp.v','w').write(kmslices.generate_help())
try:
    t,acc=py2coq_km.translate()
    open('$D/b/GenKMFun.v','w').write(t)
except Exception as e:
    print('GEN-FAIL', type(e).__name__, e); sys.exit(3)
" 2>&1 | grep -v conda
[ -f $D/b/GenKMFun.v ] || { rm -rf $D; exit 3; }
cd $D/b; cp /tmp/vw/kmtie/coq/Bridge/KMHelpBridge.v /tmp/vw/kmtie/coq/Bridge/KMFunBridge.v /tmp/vw/kmtie/coq/Bridge/KMFpFunBridge.v .
C="coqc -w -notation-overridden -Q /tmp/vw/kmtie/coq BL -Q . Gen"
timeout 120 $C GenKMHelp.v 2>&1 | grep -v conda; timeout 120 $C KMHelpBridge.v 2>&1 | grep -v conda | tr '\n' ' ' | cut -c1-150
timeout 120 $C GenKMFun.v 2>&1 | grep -v conda | head -5
for B in KMFunBridge KMFpFunBridge; do
OUT=$(timeout 300 $C $B.v 2>&1 | grep -v conda)
if [ -z "$OUT" ]; then echo "$B OK;"; else LN=$(echo "$OUT" | grep -o 'line [0-9]*' | head -1 | cut -d' ' -f2); echo "$B BROKEN at: $(head -n $LN $B.v | grep -E '^(Lemma|Theorem|Example)' | tail -1 | cut -d' ' -f2);"; fi
done
rm -rf $D
