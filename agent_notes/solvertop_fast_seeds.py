import os, sys, json, subprocess, shutil, glob
W="/tmp/vw/solvertop"
seed=sys.argv[1]
name=os.path.basename(seed)
d="/tmp/vw/solvertop_mut/seeds/"+name
shutil.rmtree(d, ignore_errors=True)
os.makedirs(d+"/repo")
subprocess.run("cd /repo && git archive HEAD src/bldfm | tar -x -C %s/repo" % d, shell=True, check=True)
p=subprocess.run(["patch","-p1","-s","-i",os.path.abspath(seed+"/patch.diff")],cwd=d+"/repo",capture_output=True,text=True)
if p.returncode: print(name,"PATCH FAILS",p.stdout[:200]); sys.exit()
touched=[l[6:] for l in open(seed+"/patch.diff") if l.startswith("+++ b/")]
os.environ["BLDFM_REPO"]=d+"/repo"
sys.path.insert(0,W+"/harness")
import core, solverslices, skeleton, py2coq_plumbing, py2coq_kernel, py2coq_solvertop
res=[]
# old skeleton: kernel elision only
def old_elide(tree):
    try: return py2coq_kernel.elide(tree)
    except Exception: return {}
try:
    old=skeleton.module_skeleton(solverslices.SOLVER(), [solverslices.SST, solverslices.IVP], solverslices.SLICES+solverslices.ZSLICES, old_elide)
    res.append("oldskel:"+("same" if not skeleton.compare(old, json.load(open("/tmp/vw/solvertop_mut/seeds/old_skeleton.json"))) else "DIFF"))
except Exception as e: res.append("oldskel:ERR")
try:
    res.append("newskel:"+("same" if not skeleton.compare(solverslices.current_skeleton(), json.load(open(solverslices.SKELETON))) else "DIFF"))
except Exception as e: res.append("newskel:ERR")
for nm,f in (("slices",solverslices.generate),("step",solverslices.generate_step),("zslices",solverslices.generate_z),("plumbing",lambda: py2coq_plumbing.translate(core.SRC)),("kernel",lambda: py2coq_kernel.generate(solverslices.SOLVER()))):
    try: f(); res.append(nm+":ok")
    except Exception as e: res.append(nm+":FAIL")
try:
    text,top=py2coq_solvertop.translate(solverslices.SOLVER())
    open(d+"/GenSolverTop.v","w").write(text)
    shutil.copy(W+"/coq/Bridge/SolverTopBridge.v", d)
    ok="bridged"
    for f in ("GenSolverTop.v","SolverTopBridge.v"):
        q=subprocess.run(["coqc","-Q",W+"/coq","BL","-Q",d,"Gen",d+"/"+f],capture_output=True,text=True,timeout=200)
        if q.returncode: ok="BRIDGE-BROKEN"; break
    res.append("top:"+ok)
except Exception as e: res.append("top:FAILS-CLOSED(%s)"%str(e)[:70])
print(name, "files:", ",".join(os.path.basename(t.strip()) for t in touched), "|", " ".join(res)); sys.stdout.flush()
