import subprocess, os, re
R='/tmp/vw/kernel_mrepo'
F=R+'/src/bldfm/solver.py'
orig=open(F).read()
def mk(name, subs):
    s=orig
    for a,b in subs:
        assert a in s, (name, a)
        s=s.replace(a,b,1)
    open(F,'w').write(s)
    d=subprocess.run(['git','-C',R,'diff'],capture_output=True,text=True).stdout
    open('/tmp/vw/kernel_mut/%s.diff'%name,'w').write(d)
    open(F,'w').write(orig)

IVP_REC='''        for lvl in range(nlvls):
            if levels[lvl] == i:
                fftp[lvl, ...] = fftpi
                fftq[lvl, ...] = fftqi

'''
IVP_FIN='''    for lvl in range(nlvls):
        if levels[lvl] == nz - 1:
            fftp[lvl, ...] = fftpi
            fftq[lvl, ...] = fftqi
'''
mk('m1_pointer', [('''    for i in range(nz - 1):

'''+IVP_REC, '''    lvl = 0
    for i in range(nz - 1):

        if lvl < nlvls and levels[lvl] == i:
            fftp[lvl, ...] = fftpi
            fftq[lvl, ...] = fftqi
            lvl += 1

'''), (IVP_FIN, '''    if lvl < nlvls and levels[lvl] == nz - 1:
        fftp[lvl, ...] = fftpi
        fftq[lvl, ...] = fftqi
''')])
mk('m2_record_after', [(IVP_REC, ''), ('''        fftpi = dum
''', '''        fftpi = dum

        for lvl in range(nlvls):
            if levels[lvl] == i:
                fftp[lvl, ...] = fftpi
                fftq[lvl, ...] = fftqi
''')])
mk('m3a_range_nz', [('''    for i in range(nz - 1):

        for lvl in range(nlvls):
            if levels[lvl] == i:
                fftp[lvl, ...] = fftpi''','''    for i in range(nz):

        for lvl in range(nlvls):
            if levels[lvl] == i:
                fftp[lvl, ...] = fftpi''')])
mk('m3b_range_nz2', [('''    for i in range(nz - 1):

        for lvl in range(nlvls):
            if levels[lvl] == i:
                fftp[lvl, ...] = fftpi''','''    for i in range(nz - 2):

        for lvl in range(nlvls):
            if levels[lvl] == i:
                fftp[lvl, ...] = fftpi''')])
mk('m4_final_nz', [('''        if levels[lvl] == nz - 1:
            fftp[lvl, ...] = fftpi''','''        if levels[lvl] == nz:
            fftp[lvl, ...] = fftpi''')])
mk('m5_trap_kz', [('(0.5 / Kz[i] + 0.5 / Kz[i + 1])','(0.5 / Kz[i] + 0.5 / Kz[i])')])
mk('m6_mean_after', [('''            for lvl in range(nlvls):
                if levels[lvl] == i:
                    tfftp[lvl, 0, 0] = tfftp00

            tfftp00 = tfftp00 - tfftq0[0, 0] * dz[i] * (0.5 / Kz[i] + 0.5 / Kz[i + 1])
''','''            tfftp00 = tfftp00 - tfftq0[0, 0] * dz[i] * (0.5 / Kz[i] + 0.5 / Kz[i + 1])

            for lvl in range(nlvls):
                if levels[lvl] == i:
                    tfftp[lvl, 0, 0] = tfftp00
''')])
mk('m7_break', [('''            if levels[lvl] == i:
                fftp[lvl, ...] = fftpi
                fftq[lvl, ...] = fftqi
''','''            if levels[lvl] == i:
                fftp[lvl, ...] = fftpi
                fftq[lvl, ...] = fftqi
                break
''')])
mk('m8_mean_final_nz2', [('''            if levels[lvl] == nz - 1:
                tfftp[lvl, 0, 0] = tfftp00''','''            if levels[lvl] == nz - 2:
                tfftp[lvl, 0, 0] = tfftp00''')])
# harmless
mk('h2_enumerate', [(IVP_REC, '''        for lvl, L in enumerate(levels):
            if L == i:
                fftp[lvl, ...] = fftpi
                fftq[lvl, ...] = fftqi

''')])
mk('h3_tuple', [('''        dum = a * fftpi + b * fftqi
        fftqi = c * fftpi + d * fftqi
        fftpi = dum
''','''        fftpi, fftqi = a * fftpi + b * fftqi, c * fftpi + d * fftqi
''')])
mk('h4_reorder', [('''                fftp[lvl, ...] = fftpi
                fftq[lvl, ...] = fftqi

        Ti''','''                fftq[lvl, ...] = fftqi
                fftp[lvl, ...] = fftpi

        Ti'''), ('''    nlvls = len(levels)
    nz = len(z)
    dz = np.diff(z)
''','''    nz = len(z)
    dz = np.diff(z)
    nlvls = len(levels)
'''), ('''    fftp = np.zeros((nlvls, nxy), dtype=np.complex128)
    fftq = np.zeros((nlvls, nxy), dtype=np.complex128)
''','''    fftq = np.zeros((nlvls, nxy), dtype=np.complex128)
    fftp = np.zeros((nlvls, nxy), dtype=np.complex128)
''')])
mk('h5_comprehension', [(IVP_REC, '''        for lvl in [k for k in range(nlvls) if levels[k] == i]:
            fftp[lvl, ...] = fftpi
            fftq[lvl, ...] = fftqi

''')])
mk('h6_two_loops', [(IVP_REC, '''        for lvl in range(nlvls):
            if levels[lvl] == i:
                fftp[lvl, ...] = fftpi
        for lvl in range(nlvls):
            if i == levels[lvl]:
                fftq[lvl, ...] = fftqi

''')])
mk('h7_mean_enumerate', [('''            for lvl in range(nlvls):
                if levels[lvl] == i:
                    tfftp[lvl, 0, 0] = tfftp00
''','''            for k, L in enumerate(levels):
                if L == i:
                    tfftp[k, 0, 0] = tfftp00
''')])
# renaming of locals inside ivp_solver
s=orig
a=s.index('def ivp_solver'); body=s[a:]
for old,new in [('lvl','slot'),('dum','p_new'),('fftpi','p_cur'),('fftqi','q_cur'),('nlvls','nslots')]:
    body=re.sub(r'\b%s\b'%old,new,body)
open(F,'w').write(s[:a]+body)
d=subprocess.run(['git','-C',R,'diff'],capture_output=True,text=True).stdout
open('/tmp/vw/kernel_mut/h1_rename.diff','w').write(d)
# renaming incl. the loop index and the coefficient names
for old,new in [(r'\bi\b','n'),('Ti','Tn'),('Kzinv','rKz'),('dzi','h')]:
    body=re.sub(old if old.startswith('\\') else r'\b%s\b'%old,new,body)
open(F,'w').write(s[:a]+body)
d=subprocess.run(['git','-C',R,'diff'],capture_output=True,text=True).stdout
open('/tmp/vw/kernel_mut/h8_rename_all.diff','w').write(d)
open(F,'w').write(orig)
mk('h9_dz_inline', [('''        dzi = dz[i]
''','''        dzi = z[i + 1] - z[i]
'''), ('tfftq0[0, 0] * dz[i] * (0.5 / Kz[i]', 'tfftq0[0, 0] * (z[i + 1] - z[i]) * (0.5 / Kz[i]')])
mk('h10_alg', [('''        a = 1.0 - 0.5 * Kzinv * Ti * dzi**2
''','''        a = 1.0 - Kzinv * Ti * dzi * dzi / 2
'''), ('''        b = -Kzinv * dzi + 1.0 / 6.0 * Kzinv**2 * Ti * dzi**3''','''        b = Kzinv * dzi * (Kzinv * Ti * dzi**2 / 6.0 - 1)''')])
