#!/bin/bash
# fast loop: translator + bridge only
R=/tmp/vw/kernel_mrepo
for p in "$@"; do
  git -C $R checkout -q -- . ; git -C $R apply $p || { echo "$p: PATCH FAILS"; continue; }
  D=/tmp/vw/kernel_scratch/f_$(basename $p .diff); rm -rf $D; mkdir -p $D
  if /venv/bin/python /tmp/vw/kernel/harness/py2coq_kernel.py $R/src/bldfm/solver.py > $D/GenKernel.v 2> $D/err.txt; then
    cp /tmp/vw/kernel/coq/Bridge/KernelBridge.v $D/
    ( cd $D && timeout 300 coqc -w -notation-overridden -Q /tmp/vw/kernel/coq BL -Q . Gen GenKernel.v > gen.log 2>&1 && timeout 300 coqc -w -notation-overridden -Q /tmp/vw/kernel/coq BL -Q . Gen KernelBridge.v > br.log 2>&1 && echo "$(basename $p): BRIDGED" || echo "$(basename $p): BRIDGE FAILS $(grep -m1 -o 'line [0-9]*' br.log gen.log | head -1)" )
  else
    echo "$(basename $p): GEN FAILS: $(grep -v conda $D/err.txt | tail -1 | cut -c1-200)"
  fi
done
git -C $R checkout -q -- .
