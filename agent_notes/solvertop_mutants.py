"""translator + bridge only, on mutated copies of /repo/src/bldfm/solver.py; writes <name>.diff patches (git diff format, -p1 from /repo)"""
import os, subprocess, sys, difflib
W = "/tmp/vw/solvertop"
sys.path.insert(0, W + "/harness")
import py2coq_solvertop as T
SRC = open("/repo/src/bldfm/solver.py").read()

def rep(a, b, n=1):
    def f(s):
        assert s.count(a) >= 1, a
        return s.replace(a, b, n)
    return f

MUT = {
 "m1_clamp_axiswise": rep("        nlx, nly = nxe, nye\n", "        nlx, nly = min(nlx, nxe), min(nly, nye)\n"),
 "m1b_clamp_two_ifs": lambda s: rep("    if (nlx > nxe) or (nly > nye):", "    if nlx > nxe:")(rep("        nlx, nly = nxe, nye\n", "        nlx = nxe\n    if nly > nye:\n        nly = nye\n")(s)),
 "m2_px_round": rep("px = int(halo / dx)", "px = round(halo / dx)"),
 "m3_halo_min": rep("halo = max(domain)", "halo = min(domain)"),
 "m4_endpoint": rep("x = np.linspace(0, xmx, nx, endpoint=False)", "x = np.linspace(0, xmx, nx, endpoint=True)"),
 "m5_indexing_xy": rep('indexing="ij"', 'indexing="xy"'),
 "m6_even_nlx_only": rep("if (nlx % 2 > 0) or (nly % 2 > 0):", "if nlx % 2 > 0:"),
 "m7_prec_else_double": rep('        raise ValueError("precision must be single (default) or double.")', "        tfftp = np.zeros((nlvls, nly, nlx), dtype=np.complex128)\n        tfftq = np.zeros((nlvls, nly, nlx), dtype=np.complex128)"),
 "m8_recentre_guard": rep("elif xm**2 + ym**2 > 0.0:", "elif xm > 0 and ym > 0:"),
 "m9_meanq_dropped": rep("    tfftq[:, 0, 0] = tfftq0[0, 0]  # conservation by design\n", ""),
 "m10_analytic_none": rep("    if analytic:\n", "    if analytic is None or analytic:\n"),
 "m11_nxe_px_once": rep("nxe = nx + 2 * px", "nxe = nx + px"),
 "m12_precheck_after_pad": lambda s: rep("    # number of grid cells\n", '    # number of grid cells\n')(s),
 "m13_preset_after_meanmode": lambda s: rep("    tfftp[0, 0, 0] = p000\n", "")(s).replace("    # shift green function in Fourier space to measurement point\n", "    tfftp[0, 0, 0] = p000\n    # shift green function in Fourier space to measurement point\n", 1),
 "m14_dy_uses_nx": rep("dx, dy = xmx / nx, ymx / ny", "dx, dy = xmx / nx, ymx / nx"),
 "m15_grid_order": rep("grid = (np.squeeze(X), np.squeeze(Y), np.squeeze(Z))", "grid = (np.squeeze(Y), np.squeeze(X), np.squeeze(Z))"),
 "h1_renamed_locals": lambda s: s.replace("    x = np.linspace(0, xmx", "    xs = np.linspace(0, xmx").replace("    y = np.linspace(0, ymx", "    ys = np.linspace(0, ymx").replace("Z, Y, X = np.meshgrid(z[levels], y, x,", "ZZ, YY, XX = np.meshgrid(z[levels], ys, xs,").replace("grid = (np.squeeze(X), np.squeeze(Y), np.squeeze(Z))", "g3 = (np.squeeze(XX), np.squeeze(YY), np.squeeze(ZZ))").replace("result = (grid,", "result = (g3,"),
 "h2_dx_dy_two_lines": rep("    dx, dy = xmx / nx, ymx / ny\n", "    dx = xmx / nx\n    dy = ymx / ny\n"),
 "h3_truthy_mod": rep("if (nlx % 2 > 0) or (nly % 2 > 0):", "if nlx % 2 or nly % 2:"),
 "h4_nxe_before_pad": lambda s: rep("    # extent domain\n    nxe = nx + 2 * px\n    nye = ny + 2 * py\n", "")(s).replace("    # construct zero-flux halo by padding\n", "    nxe = nx + 2 * px\n    nye = ny + 2 * py\n    # construct zero-flux halo by padding\n", 1),
 "h5_shape_reversed": rep("ny, nx = q0.shape", "nx, ny = q0.shape[::-1]"),
 "h6_clamp_max": rep("    dlx, dly = nxe // 2 - nlx // 2, nye // 2 - nly // 2", "    dlx = (nxe // 2) - (nlx // 2)\n    dly = nye // 2 - nly // 2"),
}
del MUT["m12_precheck_after_pad"]

def main(names):
    for name in names or sorted(MUT):
        d = "/tmp/vw/solvertop_mut/" + name
        os.makedirs(d, exist_ok=True)
        new = MUT[name](SRC)
        assert new != SRC, name
        open(d + "/solver.py", "w").write(new)
        diff = "".join(difflib.unified_diff(SRC.splitlines(True), new.splitlines(True), "a/src/bldfm/solver.py", "b/src/bldfm/solver.py"))
        open("/tmp/vw/solvertop_mut/%s.diff" % name, "w").write("diff --git a/src/bldfm/solver.py b/src/bldfm/solver.py\n" + diff)
        try:
            text, top = T.translate(d + "/solver.py")
        except Exception as e:
            print("%-28s gen:GenSolverTop.v FAILS CLOSED: %s" % (name, str(e)[:150]))
            continue
        open(d + "/GenSolverTop.v", "w").write(text)
        for f in ("SolverTopBridge.v", "EndToEnd.v"):
            open(d + "/" + f, "w").write(open(W + "/coq/Bridge/" + f).read())
        res = "bridged (SolverTopBridge + EndToEnd)"
        for f in ("GenSolverTop.v", "SolverTopBridge.v", "EndToEnd.v"):
            try:
                p = subprocess.run(["coqc", "-Q", W + "/coq", "BL", "-Q", d, "Gen", d + "/" + f], capture_output=True, text=True, timeout=180)
            except subprocess.TimeoutExpired:
                res = "%s: TIMEOUT" % f
                break
            if p.returncode:
                import re
                m = re.search(r"line (\d+)", p.stderr)
                lem = "?"
                if m:
                    lines = open(d + "/" + f).read().splitlines()
                    for i in range(int(m.group(1)) - 1, -1, -1):
                        mm = re.match(r"\s*(?:Lemma|Theorem)\s+(\w+)", lines[i])
                        if mm:
                            lem = mm.group(1); break
                res = "%s BROKEN at %s" % (f, lem)
                break
        print("%-28s %s" % (name, res))
        sys.stdout.flush()

main(sys.argv[1:])
