"""The command-line driver `bldfm run` (cli.cmd_run / cli._save_plots) observed on the real code - used by
harness/props/c16.py for (A) the differential correspondence with Model/Cli.v (model evaluated by vm_compute on the
world of Model/CliExec.v that mirrors the observed configuration) and for the property's oracle (the statement itself:
one single run per tower and step, tower-major and time-minor, each under the configured runtime settings; a dry run
performs none; one figure per result) checked independently of the Coq model.

An invocation is observed through the public entry point `cmd_run(argparse.Namespace(...))` on a real YAML file, with
  * `cli.run_bldfm_single` replaced by a recorder (which tower object, which met_index, which values of
    bldfm.config.NUM_THREADS / MAX_WORKERS / USE_CACHE are in force AT THE CALL) returning a result dict of tokens,
  * `bldfm.plotting.plot_footprint_field` and `matplotlib.figure.Figure.savefig` replaced by recorders (which field /
    grid token on which axes; file name; the marker read back from the axes' artists) - real figures, nothing rendered,
  * the three runtime settings primed with sentinels, so that "not stored" is told apart from "stored the default"."""
import argparse
import os
import sys
import tempfile

import core

DOMAIN = {"nx": 4, "ny": 4, "xmax": 10.0, "ymax": 10.0, "nz": 2}
TOWER_SETS = [[], ["A"], ["A", "B"], ["T1", "T2", "T3"], ["A", "B", "A"]]
SETTINGS = [(1, 1, False), (3, 2, True), (2, 5, False), (4, 1, True)]
STAMP_KINDS = ["index", "iso", "int"]


class Tok:
    """an opaque item of a result: which key of which run"""

    def __init__(self, key, k, i):
        self.key, self.k, self.i = key, k, i

    def __repr__(self):
        return "Tok(%r,%d,%d)" % (self.key, self.k, self.i)


class ResultDict(dict):
    def __init__(self, k, i, *a, **kw):
        dict.__init__(self, *a, **kw)
        self._k, self._i = k, i

    def __missing__(self, key):
        return Tok(str(key), self._k, self._i)


def _impl():
    if core.SRC not in sys.path:
        sys.path.insert(0, core.SRC)
    import bldfm.cli as cli
    import bldfm.config as rc
    import bldfm.config_parser as cp
    import bldfm.plotting as plotting

    return cli, rc, cp, plotting


def cases(ctx):
    """(towers, n, stamp kind, settings, dry, plot, valid)"""
    out = []
    j = 0
    ns = [1, 2, 3] if not ctx.thorough else [0, 1, 2, 3, 4]
    for towers in TOWER_SETS + ([["A", "A"], ["P_t1", "P"], ["X", "Y", "Z", "W"]] if ctx.thorough else []):
        for n in ns:
            for sk in STAMP_KINDS[: 2 if not ctx.thorough else 3]:
                for dry, plot in ((False, False), (False, True), (True, False), (True, True)):
                    out.append({"towers": towers, "n": n, "stamps": sk, "settings": SETTINGS[j % len(SETTINGS)], "dry": dry, "plot": plot, "valid": True})
                    j += 1
    # configurations that load_config rejects: nothing at all may happen
    for dry, plot in ((False, True), (True, False)):
        out.append({"towers": ["A", "B"], "n": 2, "stamps": "index", "settings": SETTINGS[1], "dry": dry, "plot": plot, "valid": False})
    return out


def raw_config(case):
    n = case["n"]
    met = {"ustar": 0.3, "mol": [10.0 + i for i in range(n)] if n != 1 else 10.0, "wind_speed": 3.0, "wind_dir": 270.0}
    if n == 1 and case["stamps"] != "index":
        met["mol"] = [10.0]
    if case["stamps"] == "iso":
        met["timestamps"] = ["2020-01-%02dT00:30" % (i + 1) for i in range(n)]
    elif case["stamps"] == "int":
        met["timestamps"] = [900 + i for i in range(n)]
    if not case["valid"]:
        met["wind_speed"] = [3.0] * (n + 1)
    nt, mw, uc = case["settings"]
    return {"domain": dict(DOMAIN), "towers": [{"name": nm, "lat": 0.0, "lon": 0.0, "z_m": 2.0} for nm in case["towers"]], "met": met,
            "parallel": {"num_threads": nt, "max_workers": mw, "use_cache": uc}}


def describe(case):
    """what the configuration IS, read through config_parser only (not through the cli): loads?, tower names, step labels"""
    import yaml

    cli, rc, cp, plotting = _impl()
    d = tempfile.mkdtemp(prefix="clicfg_", dir=os.getcwd())
    path = os.path.join(d, "config.yaml")
    with open(path, "w") as f:
        yaml.safe_dump(raw_config(case), f)
    try:
        cfg = cp.load_config(path)
    except Exception:
        return path, None
    n = cfg.met.n_timesteps
    return path, {"names": [str(t.name) for t in cfg.towers], "n": n, "stamps": [str(cfg.met.get_step(i)["timestamp"]) for i in range(n)],
                  "settings": (int(cfg.parallel.num_threads), int(cfg.parallel.max_workers), int(bool(cfg.parallel.use_cache)))}


def observe(path, dry, plot, fail_at=None, via_main=False):
    """via_main: through the real entry point cli.main() with sys.argv = bldfm run <path> [--dry-run] [--plot].
    fail_at=j: the j-th single run (counted from 0) raises RuntimeError instead of returning.
    -> {"raised": None | repr, "final": (nt, mw, uc) with None = not stored, "calls": [((nt, mw, uc), k, i)],
           "plots": [(file name, field token, grid token, (marker x token, marker y token))]}"""
    cli, rc, cp, plotting = _impl()
    import matplotlib

    matplotlib.use("Agg")
    import matplotlib.figure
    import matplotlib.pyplot as plt

    sent = [object(), object(), object()]

    def settings_now():
        vals = (rc.NUM_THREADS, rc.MAX_WORKERS, rc.USE_CACHE)
        return tuple(None if v is s else (int(v) if isinstance(v, (bool, int)) else -1) for v, s in zip(vals, sent))

    calls = []
    drawn = []
    plots = []

    def single(config, tower, met_index=0, **kw):
        ks = [j for j, t in enumerate(config.towers) if t is tower]
        k = ks[0] if ks else -1
        st = config.met.get_step(met_index)  # IndexError for a step outside the series, as the real single run
        if fail_at is not None and len(calls) == fail_at:
            raise RuntimeError("the single run failed (injected by the harness)")
        calls.append((settings_now(), k, met_index))
        base = 1000.0 * k + 10.0 * met_index
        return ResultDict(k, met_index, {"timestamp": st["timestamp"], "tower_name": tower.name, "flx": Tok("flx", k, met_index),
                                         "grid": Tok("grid", k, met_index), "conc": Tok("conc", k, met_index),
                                         "tower_xy": (base + 0.25, base + 0.75), "params": st})

    def field(flx, grid, ax=None, **kw):
        drawn.append((ax, flx, grid))
        return ax

    def decode(v):
        try:
            v = float(v)
        except Exception:
            return ("?", 0, 0)
        fr = v - int(v)
        comp = {0.25: "tower_xy.0", 0.75: "tower_xy.1"}.get(fr, "?")
        return (comp, int(v) // 1000, (int(v) % 1000) // 10)

    def tok(x):
        return (x.key, x.k, x.i) if isinstance(x, Tok) else ("?", 0, 0)

    def savefig(self, fname, *a, **kw):
        mine = [d for d in drawn if d[0] in self.axes]
        pts = []
        for ax in self.axes:
            for ln in ax.lines:
                pts += list(zip(list(ln.get_xdata()), list(ln.get_ydata())))
            for col in ax.collections:
                pts += [tuple(p) for p in col.get_offsets()]
        fld = tok(mine[0][1]) if len(mine) == 1 else ("?", 0, len(mine))
        grd = tok(mine[0][2]) if len(mine) == 1 else ("?", 0, len(mine))
        mrk = (decode(pts[0][0]), decode(pts[0][1])) if len(pts) == 1 else (("?", 0, len(pts)), ("?", 0, len(pts)))
        plots.append((str(fname), fld, grd, mrk))

    saved = (cli.run_bldfm_single, cli.initialize, rc.NUM_THREADS, rc.MAX_WORKERS, rc.USE_CACHE, plotting.plot_footprint_field,
             matplotlib.figure.Figure.savefig)
    cli.run_bldfm_single = single
    cli.initialize = lambda *a, **k: None
    rc.NUM_THREADS, rc.MAX_WORKERS, rc.USE_CACHE = sent
    plotting.plot_footprint_field = field
    matplotlib.figure.Figure.savefig = savefig
    raised = None
    final = None
    try:
        if via_main:
            argv = sys.argv
            sys.argv = ["bldfm", "run", path] + (["--dry-run"] if dry else []) + (["--plot"] if plot else [])
            try:
                cli.main()
            finally:
                sys.argv = argv
        else:
            cli.cmd_run(argparse.Namespace(config=path, dry_run=dry, plot=plot))
    except BaseException as e:  # SystemExit included
        raised = "%s: %s" % (type(e).__name__, str(e)[:200])
    finally:
        final = settings_now()
        (cli.run_bldfm_single, cli.initialize, rc.NUM_THREADS, rc.MAX_WORKERS, rc.USE_CACHE, plotting.plot_footprint_field,
         matplotlib.figure.Figure.savefig) = saved
        plt.close("all")
    return {"raised": raised, "final": final, "calls": calls, "plots": plots}


def spec(desc, dry, plot):
    """the property's statement, computed independently of model and code"""
    if desc is None:
        return {"raised": True, "final": (None, None, None), "calls": [], "plots": []}
    if dry:
        return {"raised": False, "final": (None, None, None), "calls": [], "plots": []}
    s = tuple(desc["settings"])
    calls = [(s, k, i) for k in range(len(desc["names"])) for i in range(desc["n"])]
    plots = []
    if plot:
        for (_, k, i) in calls:
            plots.append(("plots/footprint_%s_t%s.png" % (desc["names"][k], desc["stamps"][i]), ("flx", k, i), ("grid", k, i),
                          (("tower_xy.0", k, i), ("tower_xy.1", k, i))))
    return {"raised": False, "final": s, "calls": calls, "plots": plots}


def norm(obs):
    return {"raised": bool(obs["raised"]), "final": tuple(obs["final"]), "calls": [(tuple(s), k, i) for s, k, i in obs["calls"]],
            "plots": [(f, tuple(a), tuple(b), (tuple(m[0]), tuple(m[1]))) for f, a, b, m in obs["plots"]]}


def classify(desc, dry, plot, got, want):
    """a stable class of the discrepancy"""
    if desc is None:
        if not got["raised"]:
            return "cli:rejected-configuration-is-run"
        return "cli:something-happens-before-a-rejected-configuration-is-noticed"
    if got["raised"] and not want["raised"]:
        return "cli:raises"
    if dry:
        if got["calls"]:
            return "cli:dry-run-performs-runs"
        if got["final"] != want["final"]:
            return "cli:dry-run-stores-settings"
        return "cli:dry-run-saves-figures"
    gp = [(k, i) for _, k, i in got["calls"]]
    wp = [(k, i) for _, k, i in want["calls"]]
    if gp != wp:
        if sorted(gp) == sorted(wp):
            return "cli:run-order"
        if len(gp) == len(wp) and [k for k, _ in gp] == [k for k, _ in wp]:
            return "cli:wrong-step"
        if set(gp) < set(wp) and len(set(gp)) == len(gp):
            return "cli:runs-missing"
        return "cli:runs-other"
    if got["calls"] != want["calls"]:
        return "cli:run-under-other-settings"
    if got["final"] != want["final"]:
        return "cli:settings"
    if len(got["plots"]) != len(want["plots"]):
        return "cli:number-of-figures"
    if [p[0] for p in got["plots"]] != [p[0] for p in want["plots"]]:
        return "cli:figure-file-names"
    return "cli:figure-content"


# ------------------------------------------------------------------------------------------------ Coq side
def cstr(s):
    s = str(s)
    if any(not (32 <= ord(ch) < 127) for ch in s):
        s = "".join(ch if 32 <= ord(ch) < 127 else "?" for ch in s)
    return '"%s"%%string' % s.replace('"', '""')


def cnat(v):
    return str(v) if isinstance(v, int) and 0 <= v < 100000 else "99999"


def crt(s):
    return "(mkRt %s %s %s)" % tuple("None" if v is None else "(Some %s)" % cnat(v) for v in s)


def cdatum(t):
    return "(%s, (%s, %s))" % (cstr(t[0]), cnat(t[1]), cnat(t[2]))


def cobs(obs):
    calls = "; ".join("(%s, (%s, %s))" % (crt(s), cnat(k), cnat(i)) for s, k, i in obs["calls"])
    plots = "; ".join("(%s, %s, %s, (%s, %s))" % (cstr(f), cdatum(a), cdatum(b), cdatum(m[0]), cdatum(m[1])) for f, a, b, m in obs["plots"])
    return "(%s, %s, [%s], [%s])" % ("false" if obs["raised"] else "true", crt(obs["final"]), calls, plots)


def cterm(desc, dry, plot, obs):
    if desc is None:
        head = "false 0 0 [] [] 0 0 0"
    else:
        head = "true %d %d [%s] [%s] %d %d %d" % (len(desc["names"]), desc["n"], "; ".join(cstr(x) for x in desc["names"]),
                                                "; ".join(cstr(x) for x in desc["stamps"]), desc["settings"][0], desc["settings"][1], desc["settings"][2])
    return "obs_agree %s %s %s %s" % (head, "true" if dry else "false", "true" if plot else "false", cobs(obs))


HEADER = ("From Coq Require Import String Ascii List Arith Bool.\nFrom BL Require Import Model.Cli Model.CliExec.\nImport ListNotations.\n")


def check_cli(ctx):
    """(A): every generated invocation is observed on the real code and compared, inside Coq, with Model/Cli.v"""
    cs = cases(ctx)
    items = []
    n_main = 0
    for j, c in enumerate(cs):
        path, desc = describe(c)
        obs = norm(observe(path, c["dry"], c["plot"]))
        if obs["raised"] and desc is not None:
            ctx.fail("correspondence", "C16:cli-case-%d" % j, "cmd_run raises on %r" % (c,), hint={"cli": c})
            continue
        items.append((j, c, desc, obs))
        if j % 5 == 0:
            # the same invocation through the real entry point (argparse): `bldfm run <path> [--dry-run] [--plot]`
            om = norm(observe(path, c["dry"], c["plot"], via_main=True))
            n_main += 1
            if om != obs:
                ctx.fail("correspondence", "C16:cli-main-case-%d" % j, "cli.main() with the command line of %r does not do what cmd_run does: %r vs %r" % (c, om, obs),
                         hint={"cli": dict(c, via_main=True)})
    terms = []
    B = 24
    for b in range(0, len(items), B):
        body = "; ".join("(%d, %s)" % (j, cterm(desc, c["dry"], c["plot"], obs)) for j, c, desc, obs in items[b:b + B])
        terms.append(("cli%d" % b, "map fst (filter (fun p => negb (snd p)) [%s])" % body))
    res = core.coq_eval_sharded(ctx, "c16cli", HEADER, terms, shard=2, timeout=600)
    if "__error__" in res:
        ctx.fail("correspondence", "C16:cli-coq-eval", res["__error__"])
    bad = []
    for b in range(0, len(items), B):
        r = res.get("cli%d" % b)
        if r is None:
            ctx.fail("correspondence", "C16:cli-missing-batch-%d" % b, "no output")
            continue
        bad += [int(x) for x in r.strip("[]() ").split(";") if x.strip()] if r.strip("[] ") else []
    byj = {j: (c, desc, obs) for j, c, desc, obs in items}
    for j in bad[:12]:
        c, desc, obs = byj[j]
        ctx.fail("correspondence", "C16:cli-case-%d" % j, "Model/Cli.v and cli.cmd_run disagree on %r: observed %r" % (c, obs), hint={"cli": c})
    ctx.cov["cli"] = {
        "evaluations": len(cs),
        "distinct_nontrivial": sum(1 for j, c, desc, obs in items if desc is not None and len(desc["names"]) >= 2 and desc["n"] >= 2 and not c["dry"]),
        "rule": "towers lists %r (thorough: more) x steps x timestamp kinds x (dry, plot) in {F,T}^2, the three runtime settings cycling through %r, plus "
                "configurations load_config rejects; each invocation of cli.cmd_run is observed (calls of the single run with the settings in force at "
                "the call, final settings, figures saved with file name / field / grid / marker) and compared inside Coq (obs_agree, vm_compute) with "
                "Model/Cli.v run on the world of Model/CliExec.v that mirrors the configuration; every 5th invocation is repeated through cli.main() with the "
                "corresponding command line (argparse) and must be observed identically; non-trivial = at least two towers and two steps, not a dry run"
                % (TOWER_SETS, SETTINGS),
        "mismatches": len(bad),
        "through_cli_main": n_main,
        "samples": [{"case": c, "observed": obs} for j, c, desc, obs in items[7::max(1, len(items) // 4)]][:4],
    }
    return not bad


def oracle_cli(ctx, hints):
    """the statement itself on the real code; one candidate per class of discrepancy, the smallest configuration first"""
    pool = [h["cli"] for h in hints if h and "cli" in h] + cases(ctx)
    found = {}
    for c in pool:
        path, desc = describe(c)
        got = norm(observe(path, c["dry"], c["plot"], via_main=bool(c.get("via_main"))))
        want = spec(desc, c["dry"], c["plot"])
        if got != want:
            sig = classify(desc, c["dry"], c["plot"], got, want) + (":through-main" if c.get("via_main") else "")
            size = len(c["towers"]) * 10 + c["n"] + (5 if c["plot"] else 0)
            if sig not in found or size < found[sig][0]:
                found[sig] = (size, c, got, want)
        elif len(c["towers"]) == 2 and c["n"] == 2 and not c.get("via_main"):
            gm = norm(observe(path, c["dry"], c["plot"], via_main=True))
            if gm != want:
                sig = classify(desc, c["dry"], c["plot"], gm, want) + ":through-main"
                if sig not in found:
                    found[sig] = (0, dict(c, via_main=True), gm, want)
    # a single run that FAILS must not be swallowed: the error reaches the caller, no later run is made, no figure is saved
    for c in pool:
        if c["dry"] or not c["valid"] or len(c["towers"]) * c["n"] < 3 or "cli:failing-run-swallowed" in found:
            continue
        path, desc = describe(c)
        if desc is None:
            continue
        want = spec(desc, False, c["plot"])
        if norm(observe(path, False, c["plot"])) != want:
            continue  # already reported above under its own class
        want = {"raised": True, "final": want["final"], "calls": want["calls"][:1], "plots": []}
        got = norm(observe(path, False, c["plot"], fail_at=1))
        if got != want:
            sig = "cli:failing-run-swallowed" if not got["raised"] or len(got["calls"]) > 1 else "cli:failing-run-other"
            if sig not in found:
                found[sig] = (0, dict(c, fail_at=1), got, want)
    return [{"signature": sig,
             "what": "bldfm run (cli.cmd_run) %s: towers=%r steps=%d dry_run=%r plot=%r settings=%r: observed %s, the property demands %s"
                     % (sig, c["towers"], c["n"], c["dry"], c["plot"], c["settings"], brief(got), brief(want)),
             "replay": {"cli": c, "impl": got, "spec": want,
                        "how": "cli.cmd_run(Namespace(config=<yaml of raw_config(case)>, dry_run, plot)) with run_bldfm_single / plot_footprint_field / "
                               "Figure.savefig replaced by recorders; calls = ((NUM_THREADS, MAX_WORKERS, USE_CACHE) at the call, tower number, met_index)"}}
            for sig, (size, c, got, want) in found.items()]


def brief(o):
    return "{raised=%r, settings=%r, runs=%r, figures=%r}" % (o["raised"], o["final"], [(k, i) for _, k, i in o["calls"]], [p[0] for p in o["plots"]])


def replay_cli(body):
    c = body["cli"]
    path, desc = describe(c)
    if c.get("fail_at") is not None:
        got = norm(observe(path, c["dry"], c["plot"], fail_at=c["fail_at"]))
        want = spec(desc, c["dry"], c["plot"])
        want = {"raised": True, "final": want["final"], "calls": want["calls"][:c["fail_at"]], "plots": []}
        print("case     =", c, "\nimpl     =", got, "\nproperty =", want, "\n" + ("FAILS (a failing single run is swallowed or mishandled)" if got != want else "holds"))
        return 1 if got != want else 0
    got = norm(observe(path, c["dry"], c["plot"], via_main=bool(c.get("via_main"))))
    want = spec(desc, c["dry"], c["plot"])
    print("case     =", c)
    print("impl     =", got)
    print("property =", want)
    print("FAILS (%s)" % classify(desc, c["dry"], c["plot"], got, want) if got != want else "holds")
    return 1 if got != want else 0
