"""Fail-closed translator for the DRIVER functions of bldfm/interface.py (tie B of property C14).

Reads the CURRENT source of

    run_bldfm_timeseries, run_bldfm_multitower, _worker_single, _worker_timeseries, run_bldfm_parallel

with `ast` and emits Gallina (`GenDrivers.v`, regenerated on every run) over an abstract world

    w_towers : Cfg -> list Tw        config.towers
    w_nsteps : Cfg -> nat            config.met.n_timesteps
    w_maxworkers : Cfg -> nat        config.parallel.max_workers
    w_name : Tw -> N  (+ w_eqdec)    tower.name, equality of dict keys
    w_single : Cfg -> Tw -> nat -> R run_bldfm_single(config, tower, met_index=i[, surface_flux=<the caller's>, cache=_make_cache(config)])

`coq/Bridge/DriversBridge.v` then re-proves, for ALL worlds / configurations / towers lists (duplicate names
included) / step counts (0 included) / worker counts, that every generated function equals the hand-written
model of Model/Drivers.v.

The translation is statement by statement and keeps the shape of the source:
    x = e                         let x := e in
    xs.append(e)                  let xs := xs ++ [e] in
    d[k] = v   (d built from {})  let d := Drivers.dict_set eq d k v in          (Python dict semantics = the model's)
    i += e                        let i := i + e in
    for p in it: body             let st := List.fold_left (fun st p => body; st) it st in     st = the variables the
                                  body re-binds that exist before the loop (a tuple when there are several)
    [e for p in it (for q in it2)]    List.map / List.flat_map
    {k: v for p in it}            Drivers.dict_of_pairs eq (List.map (fun p => (k, v)) it)
    range(n), len(x), enumerate(x), x[a:b], a + b, a * b, tuples, list(x)
    with ProcessPoolExecutor(max_workers=w) as pool: body      body (the pool carries w)
    pool.map(worker, tasks)       pmap w gen_worker tasks := List.map gen_worker tasks
                                  (Executor.map yields in SUBMISSION order: the documented semantics, the modelling
                                   assumption that Model/Drivers.v's pool_map / C14_pool_map_any_order is about)
    if parallel_over == "towers" / "time" / "both" / else raise     one definition gen_parallel_<s> per branch
Ignored for the VALUE (and nothing else is): docstrings; `logger.*(...)` calls with side-effect-free arguments; an
`if` without else whose body is only logging; `cache = _make_cache(config)` (the cache object may only be handed to
run_bldfm_single as `cache=`; transparency of the cache is C15); in the workers exactly the four statements that reset
the inherited thread / FFT state (their presence and order are required).
ANYTHING else - another statement kind, a new `if`, `continue`, a memo dict (a dict indexed by something that is not
a tower name, `in` tests), `submit`, `as_completed`, `sorted`, `.sort`, a lambda, a keyword argument that is not
listed, a decorator, a module-level re-binding of one of the functions, a generator consumed twice, a loop variable
used after its loop - raises TranslateError: the obligation gen:GenDrivers.v fails and the check goes on to search
for a failing input."""
import ast
import os

from py2coq import TranslateError

FUNCS = ["run_bldfm_timeseries", "run_bldfm_multitower", "_worker_single", "_worker_timeseries", "run_bldfm_parallel"]
PINNED_DEFS = FUNCS + ["run_bldfm_single", "_make_cache"]
STRATEGIES = ["towers", "time", "both"]

# statements of the workers that do not enter the value (reset of state inherited through fork)
WORKER_RESETS = [
    "from bldfm import config as cfg",
    "cfg.NUM_THREADS = 1",
    "from .fft_manager import reset_fft_manager",
    "reset_fft_manager()",
]

RESERVED = {
    "fun", "let", "in", "match", "with", "end", "fix", "cofix", "forall", "exists", "exists2", "Type", "Prop", "Set", "SProp",
    "struct", "at", "using", "where", "then", "else", "if", "as", "return", "for", "IF", "mod", "W", "pmap", "pyslice",
    "pyenumerate", "world", "Build_world", "Some", "None", "nil", "cons", "pair", "nat", "list", "option", "S", "O", "tt",
    "Cfg", "Tw", "N", "R", "true", "false", "_",
}

# ---- kinds (static types of the Python values the fragment handles)
CFG, TOWER, NAT, RES, STR, FLUX, CACHE, WOPT, WORKERS, STRAT = ("cfg",), ("tower",), ("nat",), ("res",), ("str",), ("flux",), ("cache",), ("wopt",), ("workers",), ("strategy",)


def LIST(k):
    return ("list", k)


def DICT(k):
    return ("dict", k)


def GEN(k):
    return ("gen", k)


def TUP(*ks):
    return ("tuple",) + tuple(ks)


SIGS = {
    "run_bldfm_timeseries": dict(gen="gen_timeseries", params=[("config", CFG), ("tower", TOWER), ("surface_flux", FLUX)], ret=LIST(RES)),
    "run_bldfm_multitower": dict(gen="gen_multitower", params=[("config", CFG), ("surface_flux", FLUX)], ret=DICT(LIST(RES))),
    "_worker_single": dict(gen="gen_worker_single", params=[("args", TUP(CFG, TOWER, NAT))], ret=RES),
    "_worker_timeseries": dict(gen="gen_worker_timeseries", params=[("args", TUP(CFG, TOWER))], ret=TUP(STR, LIST(RES))),
    "run_bldfm_parallel": dict(gen="gen_parallel", params=[("config", CFG), ("max_workers", WOPT), ("parallel_over", STRAT), ("surface_flux", FLUX)],
                               ret=DICT(LIST(RES))),
}
WORKERS_FUNCS = ("_worker_single", "_worker_timeseries")


def tystr(k):
    tag = k[0]
    if tag == "cfg":
        return "Cfg"
    if tag == "tower":
        return "Tw"
    if tag in ("nat", "workers"):
        return "nat"
    if tag == "res":
        return "R"
    if tag == "str":
        return "N"
    if tag == "wopt":
        return "option nat"
    if tag in ("list", "gen"):
        if k[1] is None:
            raise TranslateError("a list whose element type is never determined")
        return "list (%s)" % tystr(k[1])
    if tag == "dict":
        if k[1] is None:
            raise TranslateError("a dict whose value type is never determined")
        return "list (N * (%s))" % tystr(k[1])
    if tag == "tuple":
        return "(" + " * ".join(tystr(x) for x in k[1:]) + ")"
    raise TranslateError("a value of kind %r has no Gallina type" % (k,))


def unify(a, b, what):
    """kinds must agree; an empty list/dict literal takes the element kind of its first use"""
    if a is None:
        return b
    if b is None:
        return a
    if a == b:
        return a
    if a[0] == b[0] and a[0] in ("list", "dict", "gen"):
        return (a[0], unify(a[1], b[1], what))
    if a[0] == b[0] == "tuple" and len(a) == len(b):
        return ("tuple",) + tuple(unify(x, y, what) for x, y in zip(a[1:], b[1:]))
    raise TranslateError("%s: kinds %r and %r do not agree" % (what, a, b))


def err(node, msg):
    where = "line %s: " % getattr(node, "lineno", "?")
    try:
        txt = ast.unparse(node)
    except Exception:
        txt = type(node).__name__
    raise TranslateError("%s%s: `%s`" % (where, msg, txt.splitlines()[0][:160] if txt else ""))


class Env:
    def __init__(self, kinds=None, pools=None, consumed=None):
        self.kinds = dict(kinds or {})
        self.pools = dict(pools or {})  # pool variable -> Gallina term of its worker count
        self.consumed = set(consumed or ())  # generators (pool.map results) that have been iterated once

    def copy(self):
        return Env(self.kinds, self.pools, self.consumed)

    def bind(self, node, name, kind):
        if name in RESERVED or name.startswith(("gen_", "w_")):
            err(node, "the variable name %r collides with the generated code" % name)
        self.kinds[name] = kind
        self.consumed.discard(name)
        self.pools.pop(name, None)


def _is_doc(st):
    return isinstance(st, ast.Expr) and isinstance(st.value, ast.Constant) and isinstance(st.value.value, str)


def _pure(node):
    """side-effect-free expression (argument of a logging call / test of a logging-only if)"""
    if isinstance(node, (ast.Constant, ast.Name)):
        return True
    if isinstance(node, ast.Attribute):
        return _pure(node.value)
    if isinstance(node, ast.BinOp):
        return _pure(node.left) and _pure(node.right)
    if isinstance(node, ast.UnaryOp):
        return _pure(node.operand)
    if isinstance(node, ast.Compare):
        return _pure(node.left) and all(_pure(c) for c in node.comparators)
    if isinstance(node, ast.BoolOp):
        return all(_pure(v) for v in node.values)
    if isinstance(node, ast.JoinedStr):
        return all(_pure(v) for v in node.values)
    if isinstance(node, ast.FormattedValue):
        return _pure(node.value) and (node.format_spec is None or _pure(node.format_spec))
    if isinstance(node, ast.Call) and isinstance(node.func, ast.Name) and node.func.id == "len" and len(node.args) == 1 and not node.keywords:
        return _pure(node.args[0])
    if isinstance(node, ast.Tuple):
        return all(_pure(e) for e in node.elts)
    return False


def _is_logging(st):
    if isinstance(st, ast.Expr) and isinstance(st.value, ast.Call):
        f = st.value.func
        if isinstance(f, ast.Attribute) and isinstance(f.value, ast.Name) and f.value.id == "logger" and f.attr in ("debug", "info", "warning", "error"):
            if all(_pure(a) for a in st.value.args) and not st.value.keywords:
                return True
            err(st, "logging call whose arguments are not side-effect free")
    return False


class Translator:
    def __init__(self, fname):
        self.fname = fname
        self.in_worker = fname in WORKERS_FUNCS
        self.resets = []  # the state-reset statements of a worker, in source order

    # ------------------------------------------------------------------ expressions
    def name(self, node, env, iterate=False):
        nm = node.id
        if nm not in env.kinds:
            err(node, "name %r is not bound by the translated fragment (or is a loop variable used outside its loop)" % nm)
        k = env.kinds[nm]
        if k[0] in ("flux", "cache", "wopt", "strategy", "pool"):
            err(node, "%r (kind %s) may not be used as a value here" % (nm, k[0]))
        if k[0] == "gen":
            if not iterate:
                err(node, "the lazy result of pool.map %r may only be iterated (once)" % nm)
            if nm in env.consumed:
                err(node, "the iterator %r returned by pool.map is consumed a second time" % nm)
            env.consumed.add(nm)
        return nm, k

    def expr(self, node, env):
        """-> (Gallina term, kind)"""
        if isinstance(node, ast.Name):
            return self.name(node, env)
        if isinstance(node, ast.Constant):
            if type(node.value) is int and 0 <= node.value < 1000:
                return str(node.value), NAT
            err(node, "unsupported constant")
        if isinstance(node, ast.Attribute):
            return self.attribute(node, env)
        if isinstance(node, ast.Tuple):
            if len(node.elts) < 2:
                err(node, "unsupported tuple")
            parts = [self.expr(e, env) for e in node.elts]
            return "(" + ", ".join(p[0] for p in parts) + ")", TUP(*[p[1] for p in parts])
        if isinstance(node, ast.List):
            if node.elts:
                err(node, "only the empty list literal is supported")
            return "[]", LIST(None)
        if isinstance(node, ast.Dict):
            if node.keys:
                err(node, "only the empty dict literal is supported")
            return "[]", DICT(None)
        if isinstance(node, ast.BinOp):
            if isinstance(node.op, (ast.Add, ast.Mult)):
                a, ka = self.expr(node.left, env)
                b, kb = self.expr(node.right, env)
                if ka != NAT or kb != NAT:
                    err(node, "arithmetic on something that is not a non-negative integer")
                return "(%s %s %s)" % (a, "+" if isinstance(node.op, ast.Add) else "*", b), NAT
            err(node, "unsupported operator")
        if isinstance(node, ast.Subscript):
            return self.subscript(node, env)
        if isinstance(node, ast.ListComp):
            return self.listcomp(node, env)
        if isinstance(node, ast.DictComp):
            return self.dictcomp(node, env)
        if isinstance(node, ast.Call):
            return self.call(node, env)
        err(node, "expression outside the supported fragment (%s)" % type(node).__name__)

    def attribute(self, node, env):
        chain = []
        base = node
        while isinstance(base, ast.Attribute):
            chain.append(base.attr)
            base = base.value
        chain.reverse()
        if not isinstance(base, ast.Name):
            err(node, "attribute of something that is not a variable")
        b, k = self.name(base, env)
        if k == CFG and chain == ["towers"]:
            return "(w_towers W %s)" % b, LIST(TOWER)
        if k == CFG and chain == ["met", "n_timesteps"]:
            return "(w_nsteps W %s)" % b, NAT
        if k == CFG and chain == ["parallel", "max_workers"]:
            return "(w_maxworkers W %s)" % b, WORKERS
        if k == TOWER and chain == ["name"]:
            return "(w_name W %s)" % b, STR
        err(node, "attribute outside the supported fragment")

    def subscript(self, node, env):
        v, kv = self.expr(node.value, env)
        if kv[0] != "list":
            err(node, "subscript of something that is not a list")
        sl = node.slice
        if not isinstance(sl, ast.Slice) or sl.step is not None or sl.upper is None:
            err(node, "only slices x[a:b] are supported")
        lo, klo = ("0", NAT) if sl.lower is None else self.expr(sl.lower, env)
        hi, khi = self.expr(sl.upper, env)
        if klo != NAT or khi != NAT:
            err(node, "slice bound that is not a non-negative integer")
        return "(pyslice %s %s %s)" % (v, lo, hi), kv

    def iterable(self, node, env):
        """-> (term, element kind)"""
        if isinstance(node, ast.Name):
            t, k = self.name(node, env, iterate=True)
        else:
            t, k = self.expr(node, env)
        if k[0] not in ("list", "gen"):
            err(node, "iteration over something that is not a list")
        if k[1] is None:
            err(node, "iteration over a list of unknown element type")
        return t, k[1]

    def pattern(self, target, ek, env):
        """binds the loop / comprehension target in env -> Gallina pattern"""
        if isinstance(target, ast.Name):
            if target.id in env.kinds:
                err(target, "loop variable %r re-binds an existing variable" % target.id)
            env.bind(target, target.id, ek)
            return target.id, [target.id]
        if isinstance(target, ast.Tuple) and all(isinstance(e, ast.Name) for e in target.elts):
            if ek[0] != "tuple" or len(ek) - 1 != len(target.elts):
                err(target, "unpacking does not match the shape of the elements")
            names = [e.id for e in target.elts]
            if len(set(names)) != len(names):
                err(target, "repeated name in an unpacking")
            for e, k in zip(target.elts, ek[1:]):
                if e.id in env.kinds:
                    err(target, "loop variable %r re-binds an existing variable" % e.id)
                env.bind(e, e.id, k)
            return "'(" + ", ".join(names) + ")", names
        err(target, "unsupported loop target")

    def generators(self, node, env):
        """the first iterable is evaluated once, in the enclosing scope; everything else once per element, in the
        comprehension's own scope (returned), where a pool.map iterator of the enclosing scope may not be consumed"""
        gens = []
        inner = None
        for j, g in enumerate(node.generators):
            if g.ifs or g.is_async:
                err(node, "comprehension with a condition")
            if j == 0:
                it, ek = self.iterable(g.iter, env)
                inner = env.copy()
            else:
                it, ek = self.iterable(g.iter, inner)
            pat, names = self.pattern(g.target, ek, inner)
            gens.append((pat, it))
        return gens, inner

    def no_inner_consumption(self, node, env, inner):
        if {n for n in inner.consumed - env.consumed if n in env.kinds}:
            err(node, "a pool.map iterator is consumed once per element")

    def listcomp(self, node, env):
        gens, inner = self.generators(node, env)
        e, ke = self.expr(node.elt, inner)
        self.no_inner_consumption(node, env, inner)
        pat, it = gens[-1]
        term = "(List.map (fun %s => %s) %s)" % (pat, e, it)
        for pat, it in reversed(gens[:-1]):
            term = "(List.flat_map (fun %s => %s) %s)" % (pat, term, it)
        return term, LIST(ke)

    def dictcomp(self, node, env):
        if len(node.generators) != 1:
            err(node, "dict comprehension with more than one generator")
        gens, inner = self.generators(node, env)
        (pat, it), = gens
        k, kk = self.expr(node.key, inner)
        v, kv = self.expr(node.value, inner)
        self.no_inner_consumption(node, env, inner)
        if kk != STR:
            err(node, "dict key that is not a tower name")
        return "(Drivers.dict_of_pairs (w_eqdec W) (List.map (fun %s => (%s, %s)) %s))" % (pat, k, v, it), DICT(kv)

    def kw(self, node, allowed):
        out = {}
        for k in node.keywords:
            if k.arg is None or k.arg not in allowed or k.arg in out:
                err(node, "keyword argument %r outside the supported fragment" % k.arg)
            out[k.arg] = k.value
        return out

    def flux_cache_kw(self, node, kws, env):
        for key, kind in (("surface_flux", FLUX), ("cache", CACHE)):
            if key in kws:
                v = kws[key]
                if not (isinstance(v, ast.Name) and env.kinds.get(v.id) == kind):
                    err(node, "%s= must be handed on unchanged (%s)" % (key, "the caller's surface_flux" if key == "surface_flux" else "the object made by _make_cache(config)"))

    def call(self, node, env):
        f = node.func
        if isinstance(f, ast.Name):
            fn = f.id
            if fn in env.kinds:
                err(node, "call of a local variable")
            if fn in ("len", "range", "list", "enumerate"):
                if len(node.args) != 1 or node.keywords:
                    err(node, "%s with other than one argument" % fn)
                a = node.args[0]
                if fn == "list":
                    t, ek = self.iterable(a, env)
                    return t, LIST(ek)
                t, k = self.expr(a, env)
                if fn == "len":
                    if k[0] != "list":
                        err(node, "len of something that is not a list")
                    return "(List.length %s)" % t, NAT
                if fn == "range":
                    if k != NAT:
                        err(node, "range of something that is not a non-negative integer")
                    return "(List.seq 0 %s)" % t, LIST(NAT)
                if k[0] != "list" or k[1] is None:
                    err(node, "enumerate of something that is not a list")
                return "(pyenumerate %s)" % t, LIST(TUP(NAT, k[1]))
            if fn == "run_bldfm_single":
                kws = self.kw(node, ("met_index", "surface_flux", "cache"))
                if len(node.args) != 2 or "met_index" not in kws:
                    err(node, "run_bldfm_single must be called as (config, tower, met_index=...)")
                c, kc = self.expr(node.args[0], env)
                t, kt = self.expr(node.args[1], env)
                i, ki = self.expr(kws["met_index"], env)
                if (kc, kt, ki) != (CFG, TOWER, NAT):
                    err(node, "run_bldfm_single called with arguments of the wrong kind")
                self.flux_cache_kw(node, kws, env)
                return "(w_single W %s %s %s)" % (c, t, i), RES
            if fn == "run_bldfm_timeseries":
                kws = self.kw(node, ("surface_flux",))
                if len(node.args) != 2:
                    err(node, "run_bldfm_timeseries must be called as (config, tower)")
                c, kc = self.expr(node.args[0], env)
                t, kt = self.expr(node.args[1], env)
                if (kc, kt) != (CFG, TOWER):
                    err(node, "run_bldfm_timeseries called with arguments of the wrong kind")
                self.flux_cache_kw(node, kws, env)
                return "(gen_timeseries W %s %s)" % (c, t), LIST(RES)
            err(node, "call of %r is outside the supported fragment" % fn)
        if isinstance(f, ast.Attribute) and isinstance(f.value, ast.Name) and env.kinds.get(f.value.id, ("",))[0] == "pool":
            if f.attr != "map":
                err(node, "only pool.map is supported (not pool.%s)" % f.attr)
            if len(node.args) != 2 or node.keywords:
                err(node, "pool.map must be called as pool.map(worker, tasks)")
            w = node.args[0]
            if not (isinstance(w, ast.Name) and w.id in WORKERS_FUNCS and w.id not in env.kinds):
                err(node, "pool.map of something that is not one of the worker functions")
            sig = SIGS[w.id]
            tasks, kt = self.expr(node.args[1], env)
            if kt != LIST(sig["params"][0][1]):
                err(node, "the task list does not have the shape the worker unpacks")
            return "(pmap %s (%s W) %s)" % (env.pools[f.value.id], sig["gen"], tasks), GEN(sig["ret"])
        err(node, "call outside the supported fragment")

    # ------------------------------------------------------------------ statements
    def mutated(self, stmts):
        """names a block (re-)binds"""
        out = []

        def add(n):
            if n not in out:
                out.append(n)

        def tgt(t):
            if isinstance(t, ast.Name):
                add(t.id)
            elif isinstance(t, (ast.Tuple, ast.List)):
                for e in t.elts:
                    tgt(e)
            elif isinstance(t, (ast.Subscript, ast.Attribute)):
                tgt(t.value)
            elif isinstance(t, ast.Starred):
                tgt(t.value)

        for st in stmts:
            for n in ast.walk(st):
                if isinstance(n, ast.Assign):
                    for t in n.targets:
                        tgt(t)
                elif isinstance(n, (ast.AugAssign, ast.AnnAssign)):
                    tgt(n.target)
                elif isinstance(n, (ast.For, ast.comprehension)):
                    pass  # loop targets are local (checked not to re-bind)
                elif isinstance(n, ast.NamedExpr):
                    tgt(n.target)
                elif isinstance(n, ast.withitem) and n.optional_vars is not None:
                    tgt(n.optional_vars)
                elif isinstance(n, ast.Call) and isinstance(n.func, ast.Attribute) and isinstance(n.func.value, ast.Name):
                    if n.func.attr in ("append", "extend", "insert", "pop", "remove", "clear", "sort", "reverse", "update", "setdefault", "popitem"):
                        add(n.func.value.id)
        return out

    def block(self, stmts, env, ind):
        """-> list of `let ... in` lines; env is updated in place"""
        lines = []
        pad = "  " * ind
        for st in stmts:
            if _is_doc(st) or _is_logging(st):
                continue
            if self.in_worker and ind == 1 and ast.unparse(st) in WORKER_RESETS:
                self.resets.append(ast.unparse(st))
                continue
            if isinstance(st, ast.Assign):
                if len(st.targets) != 1:
                    err(st, "chained assignment")
                t = st.targets[0]
                if isinstance(t, ast.Name):
                    v = st.value
                    if isinstance(v, ast.Call) and isinstance(v.func, ast.Name) and v.func.id == "_make_cache":
                        if len(v.args) != 1 or v.keywords or self.expr(v.args[0], env)[1] != CFG:
                            err(st, "_make_cache must be called as _make_cache(config)")
                        env.bind(st, t.id, CACHE)
                        continue
                    if t.id in env.kinds and env.kinds[t.id][0] in ("flux", "cache", "strategy", "cfg", "tower"):
                        err(st, "re-binding of %r" % t.id)
                    term, k = self.expr(v, env)
                    env.bind(st, t.id, k)
                    lines.append("%slet %s := %s in" % (pad, t.id, term))
                elif isinstance(t, ast.Tuple):
                    # config, tower, met_index = args
                    if not isinstance(st.value, ast.Name):
                        err(st, "unpacking of something that is not a variable")
                    v, kv = self.name(st.value, env)
                    if kv[0] != "tuple" or len(kv) - 1 != len(t.elts) or not all(isinstance(e, ast.Name) for e in t.elts):
                        err(st, "unpacking does not match the shape of the value")
                    names = [e.id for e in t.elts]
                    if len(set(names)) != len(names):
                        err(st, "repeated name in an unpacking")
                    for e, k in zip(t.elts, kv[1:]):
                        env.bind(st, e.id, k)
                    lines.append("%slet '(%s) := %s in" % (pad, ", ".join(names), v))
                elif isinstance(t, ast.Subscript) and isinstance(t.value, ast.Name):
                    d = t.value.id
                    kd = env.kinds.get(d)
                    if kd is None or kd[0] != "dict":
                        err(st, "item assignment to something that is not a dict built by this function")
                    key, kk = self.expr(t.slice, env)
                    if kk != STR:
                        err(st, "dict key that is not a tower name")
                    val, kv = self.expr(st.value, env) if not isinstance(st.value, ast.Name) else self.name(st.value, env)
                    env.bind(st, d, unify(kd, DICT(kv), "dict item assignment"))
                    lines.append("%slet %s := Drivers.dict_set (w_eqdec W) %s %s %s in" % (pad, d, d, key, val))
                else:
                    err(st, "assignment target outside the supported fragment")
            elif isinstance(st, ast.AugAssign):
                if not (isinstance(st.target, ast.Name) and isinstance(st.op, ast.Add) and env.kinds.get(st.target.id) == NAT):
                    err(st, "augmented assignment outside the supported fragment")
                term, k = self.expr(st.value, env)
                if k != NAT:
                    err(st, "augmented assignment with something that is not a non-negative integer")
                lines.append("%slet %s := (%s + %s) in" % (pad, st.target.id, st.target.id, term))
            elif isinstance(st, ast.Expr) and isinstance(st.value, ast.Call):
                c = st.value
                f = c.func
                if (isinstance(f, ast.Attribute) and f.attr == "append" and isinstance(f.value, ast.Name)
                        and env.kinds.get(f.value.id, ("",))[0] == "list" and len(c.args) == 1 and not c.keywords):
                    x = f.value.id
                    term, k = self.expr(c.args[0], env)
                    env.bind(st, x, unify(env.kinds[x], LIST(k), "append"))
                    lines.append("%slet %s := %s ++ [%s] in" % (pad, x, x, term))
                else:
                    err(st, "call statement outside the supported fragment")
            elif isinstance(st, ast.For):
                lines += self.loop(st, env, ind)
            elif isinstance(st, ast.With):
                lines += self.with_pool(st, env, ind)
            elif isinstance(st, ast.If):
                lines += self.if_stmt(st, env, ind)
            else:
                err(st, "statement outside the supported fragment (%s)" % type(st).__name__)
        return lines

    def loop(self, st, env, ind):
        pad = "  " * ind
        if st.orelse or getattr(st, "type_comment", None):
            err(st, "for ... else")
        it, ek = self.iterable(st.iter, env)
        carried = [n for n in self.mutated(st.body) if n in env.kinds]
        if not carried:
            err(st, "loop that updates no variable of the enclosing function")
        for n in carried:
            if env.kinds[n][0] not in ("list", "dict", "nat"):
                err(st, "loop re-binds %r (kind %s)" % (n, env.kinds[n][0]))
        before = {n: env.kinds[n] for n in carried}
        inner = env.copy()  # after the iterable has been evaluated (once)
        pat, pnames = self.pattern(st.target, ek, inner)
        body = self.block(st.body, inner, ind + 2)
        after = {}
        for n in carried:
            after[n] = unify(before[n], inner.kinds[n], "loop-carried variable %r" % n)
        # a variable whose kind was completed inside the body (empty list -> list of results) keeps that kind
        state = carried[0] if len(carried) == 1 else "(" + ", ".join(carried) + ")"
        spat = carried[0] if len(carried) == 1 else "'(" + ", ".join(carried) + ")"
        lines = ["%slet %s :=" % (pad, spat)]
        if len(carried) == 1:
            lines.append("%s  List.fold_left (fun %s %s =>" % (pad, spat, pat))
        else:
            lines.append("%s  List.fold_left (fun w_state %s =>" % (pad, pat))
            lines.append("%s    let %s := w_state in" % (pad, spat))
        lines += body
        lines.append("%s    %s)" % (pad, state))
        lines.append("%s  %s %s in" % (pad, it, state))
        # loop-local names are dropped; an iterator of the enclosing scope may not be consumed once per iteration
        self.no_inner_consumption(st, env, inner)
        for n in carried:
            env.kinds[n] = after[n]
        return lines

    def with_pool(self, st, env, ind):
        if len(st.items) != 1:
            err(st, "with statement outside the supported fragment")
        item = st.items[0]
        c = item.context_expr
        if not (isinstance(c, ast.Call) and isinstance(c.func, ast.Name) and c.func.id == "ProcessPoolExecutor" and "ProcessPoolExecutor" not in env.kinds
                and not c.args and len(c.keywords) == 1 and c.keywords[0].arg == "max_workers" and isinstance(item.optional_vars, ast.Name)):
            err(st, "only `with ProcessPoolExecutor(max_workers=...) as pool:` is supported")
        wv = c.keywords[0].value
        if not (isinstance(wv, ast.Name) and env.kinds.get(wv.id) == WORKERS):
            err(st, "max_workers= must be the resolved worker count")
        p = item.optional_vars.id
        if p in env.kinds:
            err(st, "the pool variable re-binds %r" % p)
        env.bind(st, p, ("pool",))
        env.pools[p] = wv.id
        lines = self.block(st.body, env, ind)
        # after the with block the pool is shut down: it may not be used any more
        env.kinds.pop(p, None)
        env.pools.pop(p, None)
        return lines

    def if_stmt(self, st, env, ind):
        pad = "  " * ind
        # (a) `if <pure test>: logging only`, no else: no effect on the value
        if not st.orelse and st.body and all(_is_doc(b) or _is_logging(b) for b in st.body) and _pure(st.test):
            return []
        # (b) `if max_workers is None: max_workers = config.parallel.max_workers`
        t = st.test
        if (not st.orelse and isinstance(t, ast.Compare) and isinstance(t.left, ast.Name) and env.kinds.get(t.left.id) == WOPT
                and len(t.ops) == 1 and isinstance(t.ops[0], ast.Is) and isinstance(t.comparators[0], ast.Constant) and t.comparators[0].value is None
                and len(st.body) == 1 and isinstance(st.body[0], ast.Assign) and len(st.body[0].targets) == 1
                and isinstance(st.body[0].targets[0], ast.Name) and st.body[0].targets[0].id == t.left.id):
            term, k = self.expr(st.body[0].value, env)
            if k != WORKERS:
                err(st, "the default of the worker count is not config.parallel.max_workers")
            v = t.left.id
            env.kinds[v] = WORKERS
            return ["%slet %s := match %s with Some w_given => w_given | None => %s end in" % (pad, v, v, term)]
        err(st, "`if` outside the supported fragment")

    # ------------------------------------------------------------------ functions
    def check_signature(self, fn):
        sig = SIGS[fn.name]
        a = fn.args
        if a.vararg or a.kwarg or a.kwonlyargs or a.posonlyargs or fn.decorator_list or isinstance(fn, ast.AsyncFunctionDef):
            err(fn, "signature / decorators of %s outside the supported fragment" % fn.name)
        names = [x.arg for x in a.args]
        if names != [p[0] for p in sig["params"]]:
            raise TranslateError("parameters of %s are %r, expected %r" % (fn.name, names, [p[0] for p in sig["params"]]))
        for d in a.defaults:
            if not (isinstance(d, ast.Constant) and (d.value is None or d.value in STRATEGIES)):
                err(fn, "default value of a parameter of %s" % fn.name)
        env = Env()
        for nm, k in sig["params"]:
            env.bind(fn, nm, k)
        return env

    def binders(self, fn):
        out = []
        for nm, k in SIGS[fn.name]["params"]:
            if k[0] in ("flux", "strategy"):
                continue
            out.append("(%s : %s)" % (nm, tystr(k)))
        return " ".join(out)

    def finish(self, fn, gen, lines, ret_node, env):
        sig = SIGS[fn.name]
        if ret_node is None or ret_node.value is None:
            err(fn, "%s does not end with `return <value>`" % fn.name)
        term, k = self.expr(ret_node.value, env) if not isinstance(ret_node.value, ast.Name) else self.name(ret_node.value, env)
        k = unify(k, sig["ret"], "result of %s" % fn.name)
        head = "Definition %s {Cfg Tw N R : Type} (W : world Cfg Tw N R) %s : %s :=" % (gen, self.binders(fn), tystr(k))
        return "\n".join([head] + lines + ["  %s." % term])

    def function(self, fn):
        env = self.check_signature(fn)
        body = [s for s in fn.body]
        if not body or not isinstance(body[-1], ast.Return):
            err(fn, "%s does not end with a return statement" % fn.name)
        if fn.name != "run_bldfm_parallel":
            lines = self.block(body[:-1], env, 1)
            if self.in_worker and self.resets != WORKER_RESETS:
                # not part of the value, but what Model/KernelCache.v (worker resets NUM_THREADS to 1) is about
                raise TranslateError("%s: the statements that reset the state inherited from the parent are %r, expected %r"
                                     % (fn.name, self.resets, WORKER_RESETS))
            return [self.finish(fn, SIGS[fn.name]["gen"], lines, body[-1], env)]
        # run_bldfm_parallel: <prefix>; if parallel_over == "towers": ... elif ... else: raise; return results
        disp = [i for i, s in enumerate(body[:-1]) if isinstance(s, ast.If) and self.is_dispatch(s, env)]
        if len(disp) != 1 or disp[0] != len(body) - 2:
            err(fn, "run_bldfm_parallel must be <prefix>; if parallel_over == ...: ... else: raise ...; return results")
        prefix = self.block(body[:disp[0]], env, 1)
        out = []
        seen = []
        node = body[disp[0]]
        while True:
            s = self.dispatch_key(node, env)
            if s in seen or s not in STRATEGIES:
                err(node, "strategy %r is unknown to the model (or repeated)" % s)
            seen.append(s)
            benv = env.copy()
            lines = prefix + self.block(node.body, benv, 1)
            out.append(self.finish(fn, "gen_parallel_" + s, lines, body[-1], benv))
            if len(node.orelse) == 1 and isinstance(node.orelse[0], ast.If):
                node = node.orelse[0]
                if not self.is_dispatch(node, env):
                    err(node, "branch of the strategy dispatch outside the supported fragment")
                continue
            tail = [x for x in node.orelse if not _is_doc(x) and not _is_logging(x)]
            if not (len(tail) == 1 and isinstance(tail[0], ast.Raise) and tail[0].cause is None and isinstance(tail[0].exc, ast.Call)
                    and isinstance(tail[0].exc.func, ast.Name) and tail[0].exc.func.id == "ValueError"):
                err(node, "the strategy dispatch must end with `else: raise ValueError(...)`")
            break
        if sorted(seen) != sorted(STRATEGIES):
            raise TranslateError("run_bldfm_parallel implements the strategies %r, the model describes %r" % (seen, STRATEGIES))
        return out

    def is_dispatch(self, st, env):
        t = st.test
        return (isinstance(t, ast.Compare) and isinstance(t.left, ast.Name) and env.kinds.get(t.left.id) == STRAT and len(t.ops) == 1
                and isinstance(t.ops[0], ast.Eq) and isinstance(t.comparators[0], ast.Constant) and isinstance(t.comparators[0].value, str))

    def dispatch_key(self, st, env):
        return st.test.comparators[0].value


PRELUDE = """(* GENERATED by harness/py2coq_drivers.py from %(path)s - do not edit.
   Statement-by-statement translation of run_bldfm_timeseries, run_bldfm_multitower, _worker_single,
   _worker_timeseries and the three branches of run_bldfm_parallel.  Coq/Bridge/DriversBridge.v proves each of
   these equal to the hand-written model of Model/Drivers.v for all arguments. *)
From Coq Require Import List Arith.
From BL Require Import Model.Drivers.
Import ListNotations.

(* what the drivers read from their arguments, and the single run *)
Record world (Cfg Tw N R : Type) := {
  w_towers : Cfg -> list Tw;            (* config.towers *)
  w_nsteps : Cfg -> nat;                (* config.met.n_timesteps *)
  w_maxworkers : Cfg -> nat;            (* config.parallel.max_workers *)
  w_name : Tw -> N;                     (* tower.name *)
  w_eqdec : forall a b : N, {a = b} + {a <> b};
  w_single : Cfg -> Tw -> nat -> R      (* run_bldfm_single(config, tower, met_index=i, ...) *)
}.
Arguments w_towers {Cfg Tw N R}. Arguments w_nsteps {Cfg Tw N R}. Arguments w_maxworkers {Cfg Tw N R}.
Arguments w_name {Cfg Tw N R}. Arguments w_eqdec {Cfg Tw N R}. Arguments w_single {Cfg Tw N R}.

(* list(pool.map(f, tasks)) of a pool with `workers` processes: the results in SUBMISSION order (documented
   semantics of concurrent.futures.Executor.map; Model/Drivers.v: pool_map, C14_pool_map_any_order) *)
Definition pmap {X Y : Type} (workers : nat) (f : X -> Y) (tasks : list X) : list Y := List.map f tasks.
(* x[a:b] for non-negative a, b (slices clip, they never raise) *)
Definition pyslice {X : Type} (x : list X) (a b : nat) : list X := List.firstn (b - a) (List.skipn a x).
(* enumerate(x) *)
Definition pyenumerate {X : Type} (x : list X) : list (nat * X) := List.combine (List.seq 0 (List.length x)) x.

"""


def check_module(tree):
    """module level: nothing but imports, definitions and the logger; the translated functions (and the two they
    call) are defined exactly once, undecorated, and not re-bound"""
    defs = {}
    bound_otherwise = set()
    ppe = False
    for st in tree.body:
        if _is_doc(st):
            continue
        if isinstance(st, (ast.FunctionDef, ast.AsyncFunctionDef, ast.ClassDef)):
            defs.setdefault(st.name, []).append(st)
        elif isinstance(st, ast.Import):
            for a in st.names:
                bound_otherwise.add((a.asname or a.name).split(".")[0])
        elif isinstance(st, ast.ImportFrom):
            for a in st.names:
                nm = a.asname or a.name
                if st.module == "concurrent.futures" and st.level == 0 and a.name == "ProcessPoolExecutor" and a.asname is None:
                    ppe = True
                else:
                    bound_otherwise.add(nm)
        elif isinstance(st, ast.Assign) and ast.unparse(st) == "logger = get_logger('interface')":
            bound_otherwise.add("logger_")
        else:
            err(st, "module-level statement of interface.py outside the supported fragment")
    if not ppe or "ProcessPoolExecutor" in bound_otherwise or "ProcessPoolExecutor" in defs:
        raise TranslateError("ProcessPoolExecutor is not (only) concurrent.futures.ProcessPoolExecutor")
    for nm in PINNED_DEFS:
        if len(defs.get(nm, [])) != 1 or not isinstance(defs[nm][0], ast.FunctionDef) or defs[nm][0].decorator_list:
            raise TranslateError("%s must be defined exactly once at module level by a plain undecorated def" % nm)
        if nm in bound_otherwise:
            raise TranslateError("%s is re-bound at module level" % nm)
    for nm in ("len", "range", "list", "enumerate", "logger", "ValueError"):
        if nm in defs or nm in bound_otherwise:
            raise TranslateError("builtin %s is re-bound at module level" % nm)
    return {nm: defs[nm][0] for nm in FUNCS}


def translate(path=None, src=None):
    """-> text of GenDrivers.v; raises TranslateError on anything outside the supported fragment"""
    if src is None:
        try:
            src = open(path).read()
        except OSError as e:
            raise TranslateError("cannot read %s: %s" % (path, e))
    try:
        tree = ast.parse(src)
    except SyntaxError as e:
        raise TranslateError("syntax error: %s" % e)
    fns = check_module(tree)
    parts = [PRELUDE % {"path": path or "<string>"}]
    for nm in FUNCS:
        for d in Translator(nm).function(fns[nm]):
            parts.append(d + "\n")
    return "\n".join(parts)


def interface_path():
    import core

    return os.path.join(core.SRC, "bldfm", "interface.py")


GEN_NAMES = ["gen_timeseries", "gen_multitower", "gen_worker_single", "gen_worker_timeseries",
             "gen_parallel_towers", "gen_parallel_time", "gen_parallel_both"]


def run(ctx):
    """translate + compile + bridge; registers the obligations gen:GenDrivers.v / bridge:<lemma> on ctx"""
    import core

    try:
        text = translate(interface_path())
    except TranslateError as e:
        ctx.obligation("gen:GenDrivers.v", False, "driver translator failed closed: %s" % e)
        return False
    ctx.cov["driver_functions_translated"] = GEN_NAMES
    if not core.run_bridge(ctx, {"GenDrivers.v": text}, ["DriversBridge.v"]):
        return False
    # every bridge lemma is closed under the global context (no axiom, no section hypothesis left)
    import re

    src = core.strip_coq_comments(open(os.path.join(core.COQ, "Bridge", "DriversBridge.v")).read())
    names = re.findall(r"^\s*(?:Lemma|Theorem)\s+([\w']+)", src, re.M)
    body = "From Gen Require Import GenDrivers DriversBridge.\n" + "".join(
        'Goal True. idtac "THEOREM %s". Abort. Print Assumptions %s.\n' % (n, n) for n in names)
    rc, out, err, dt = ctx.coqc(ctx.write("DriversBridgeClosed.v", body), timeout=300)
    got = core.parse_assumptions(out) if rc == 0 else {}
    open_ = [n for n in names if got.get(n) != set()]
    ctx.obligation("bridge-closed:DriversBridge.v", rc == 0 and not open_,
                   "" if rc == 0 and not open_ else "not closed under the global context: %s %s" % (open_, (out + err)[-800:]))
    return rc == 0 and not open_


if __name__ == "__main__":
    import sys

    sys.stdout.write(translate(sys.argv[1] if len(sys.argv) > 1 else "/repo/src/bldfm/interface.py"))
