"""Regenerates MANIFEST.json from the table below (run: /venv/bin/python harness/manifest.py)."""
import json
import os

VERIF = os.path.dirname(os.path.dirname(os.path.abspath(__file__)))
ALL = ["C%02d" % i for i in range(1, 21)]

CHECKS = {
    "C16": dict(
        text="Machine-checked Coq theorems (all field patterns, all lengths, any value types) about Model/Met.v: step count = common list length, step i selects entry i / the scalar / i-th timestamp or index, exact characterisation of rejection; the model is tied to config_parser.MetConfig by exhaustive exact differential execution over the property's whole space (through parse_config_dict and through the drivers' step range).",
        note="Hand-written model; tie is exhaustive differential execution (lengths 0..4 in thorough), not a proof about Python. Theorems closed under the global context (no axioms).",
        technique="Coq proof (induction-free case analysis over list/scalar fields) + exhaustive model/implementation correspondence evaluated by vm_compute",
        design="6/C16",
    ),
    "C18": dict(
        text="Machine-checked Coq theorems (any numbers of towers/steps, any value types) about Model/NetcdfAsm.v, the repaired save_footprints_to_netcdf: every (time,tower) block of both arrays is the corresponding result's field, coordinates/labels/met in order, each tower name carries its own lat/lon/height for every results-key order (sub-lists, permutations), saving succeeds for them, selection by name/label/both returns exactly that block; the original positional labelling is refuted (vm_compute witnesses). Model tied to bldfm.io on every run by real save/load round trips compared bit for bit and row for row with the model.",
        note="Partial: xarray/netCDF4/zlib are not modelled - read (write d) = d is a theorem hypothesis, validated (not proved) by bit-level real round trips over towers 1..4 x steps 1..4 x 2-D/3-D x key orders x timestamp kinds x forcings. Hand-written model; tie is differential execution. Theorems closed under the global context.",
        technique="Coq proof (structural induction on association lists / nth_error) + exact model/implementation correspondence of real NetCDF round trips evaluated by vm_compute; property oracle with bit-pattern comparison",
        design="6/C18",
    ),
    "C04": dict(
        text="Machine-checked Coq theorems about Model/Solver.v for every Ops satisfying the field laws: both fields are linear in (source, background) at every level, numerical and analytic (dispersion, double-precision storage); the background adds a uniform offset to the concentration and leaves the flux unchanged (both modes); in footprint mode the whole result is a function of the source's shape only. Model tied to bldfm.solver on every run by whole-solve float correspondence (FloatOps under vm_compute, 1e-8 relative) and by 23 bridge lemmas re-proved against kernels re-extracted from the current source.",
        note="Theorems hold in exact complex arithmetic (hypothesis Laws O, non-vacuous: Base/ROps.v); IEEE rounding, pyFFTW and numba code generation are not covered by the theorems - they are exercised by the correspondence and the superposition oracle (thorough tier). Linearity is for double-precision storage. Closed under the global context.",
        technique="Coq proof (finite-sum algebra over the frequency-set representation, induction over layers) + slice translator with bridge lemmas + float model/implementation correspondence",
        design="6/C04",
    ),
    "C10": dict(
        text="Machine-checked Coq theorems about Model/Solver.v: for ANY list of valid levels (order, repetitions, length) slot k of concentration, flux and height is exactly the single-level solve for node levels[k], in both modes, numerical and analytic branch, both storage precisions; the recording loop of the numerical sweep is characterised for every level list. Model tied to bldfm.solver by whole-solve float correspondence over all kinds of level arguments (scalar, list, ndarray, unsorted, duplicates) and by the bridge lemmas.",
        note="Exact-arithmetic theorems (Laws O); the tie is differential execution + re-proved bridge lemmas; numba's compiled loop is modelled by its Python source. Closed under the global context.",
        technique="Coq proof (induction over layers with a recording invariant) + float model/implementation correspondence + slice translator/bridge",
        design="6/C10",
    ),
    "C02": dict(
        text="Machine-checked Coq theorem about Model/Solver.v for every Ops satisfying the field laws: for EVERY real source field, on-grid measurement point, halo (any px, py), mode truncation, profile set, level list, numerical or analytic branch, sum(q*footprint) equals the forward flux at the tower and sum(q*concentration Green's function) the forward concentration above background; plus the identity 'footprint shift = forward phase at the padded tower index' that the raw-halo shift violated. Tie: whole-solve float correspondence over all halo kinds x dx != dy x precisions, and bridge lemmas on both shift arguments.",
        note="Exact-arithmetic theorem for double-precision storage (Laws O, non-vacuous by Base/ROps.v); the single-precision clause is carried by the oracle with the property's storage tolerance. pyFFTW = DFT definition, numba = Python source are modelling assumptions validated by the correspondence.",
        technique="Coq proof (exchange of finite sums, multiplicativity of cis) + slice translator/bridge + float model/implementation correspondence",
        design="6/C02",
    ),
    "C03": dict(
        text="Machine-checked Coq theorems about Model/Solver.v: on the full periodic domain the horizontal sum of the flux at every level is nx*ny*Re(q00) with q00 the source mean (dispersion) or 1/(nx*ny) (footprint, hence unit mass), and that of the concentration nx*ny*Re(background - q00*resistance) with the resistance the trapezoid the code accumulates; proved from orthogonality of the roots of unity. A halo of any width equals zero-padding the source by int(halo/dx), int(halo/dy) cells, enlarging the domain, solving with halo=0 and cropping (cell by cell, every level, both fields).",
        note="Trapezoid-vs-integral is outside the statement; the halo theorem is for footprint mode and for dispersion mode with meas_pt at the origin. Exact arithmetic (Laws O incl. primitivity of roots of unity, proved for the complex instance ROps).",
        technique="Coq proof (geometric sums / orthogonality over the frequency-set representation) + float correspondence + slice translator/bridge",
        design="6/C03",
    ),
    "C20": dict(
        text="Machine-checked Coq theorems over exact rationals, for fields of any size and ANY permutation that sorts the base field non-increasingly (numpy's argsort enters as a hypothesis, not as an algorithm): the rescaled value at a cell equals the sum of f over the cells with strictly larger g plus the sum over some of the cells tied with it (hence the two-sided bound of the property), lies in [0, total - f_c] (so < total wherever f_c > 0; the text's '[0,total)' is attained as = total at a zero cell that is last in the order, shown by a proved example), drops by at least f_b from b to a when g_a < g_b, is unchanged by strictly increasing transformations of g and follows a common permutation of the cells (any two sorting orders agree exactly at untied cells); the percentile result is the least count of top cells whose sum reaches p*total - least also among ALL sets of cells -, level is their minimum and every other cell is <= level, area = (k+1)*cell, area/level monotone in p, scaling f scales level and keeps area. The model is tied to utils.get_source_area, the base functions and extract_percentile_contour by exact differential execution on dyadic inputs (vm_compute over Q), 2-D/3-D fields, 1-D/2-D/3-D coordinate arrays.",
        note="All 13 theorems closed under the global context (no axioms), none is partial. Hand-written model; the tie is differential execution (about 925 evaluations quick, 15000 thorough), not a proof about Python; IEEE rounding is not covered by the theorems; source_area_sector and oblique-wind upwind/crosswind are covered only through the order their values induce. get_source_area is modelled as repaired by fix_C20.diff (result allocated in the dtype of the cumulative sums); on the unrepaired tree an integer-typed base field g truncates the result to integers and the check reports VIOLATION (signature get_source_area:integer-g-dtype-truncation).",
        technique="Coq proof (list induction, Permutation/NoDup reasoning, lra over Q; numpy's binary search proved equal to the linear specification) + exact model/implementation correspondence on dyadic inputs evaluated by vm_compute, the concrete np.argsort order passed as data and re-checked in Coq to be a sorting permutation + independent O(n^2) exact-integer brute-force oracle on the real code",
        design="6/C20",
    ),
    "C15": dict(
        text="Machine-checked Coq theorems about Model/Cache.v (the repaired cache.py plus the get/solve/put flow of solver.py): key completeness; transparency for every history of requests including calls killed at any write operation and any initial store with genuine readable entries; same-key repeat is a hit without a solver run after any intermediate history (default halo = explicit max(xmax,ymax)); every prefix of the write sequence leaves the final path unchanged or complete, an unreadable entry is a miss and is replaced. Refutation witnesses for the original key/write logic. Model tied to the source by exact differential execution of hit/miss traces, solver-run counts and stored key sets.",
        note="Hand-written model; tie is differential execution, not a proof about Python. SHA-256 injectivity, os.replace atomicity, np.load rejecting incomplete files, C04 footprint_shape_only and halo-only-through-resolved-halo are hypotheses; the last three are exercised on every run. Theorems closed under the global context.",
        technique="Coq proof (finite-map lemmas, induction over histories and write-op prefixes, vm_compute witnesses) + exact model/implementation correspondence over one-argument-variation histories, cross-process reuse, killed runs and every byte-truncation point",
        design="6/C15",
    ),
    "C01": dict(
        text="Machine-checked Coq theorems about the per-mode scheme of Model/Solver.v (every Ops with the field laws, every grid, every profile set): T is the symbol of the horizontal operator with all coefficients at one node; every layer update is I + dz*M + dz^2*R (first-order consistent with p' = -q/Kz, q' = T p); the returned mode is a trajectory of the layer recurrence with the prescribed surface flux and the radiation condition q = Kz*eig*p at the top, and the ONLY such trajectory (exact discrete BVP); eig^2 = -T/Kz with (1, Kz*eig) the eigenvector for -eig (decaying continuation, Re eig >= 0 for the principal root). The asymptotic clause (convergence to the continuous BVP, error ratio >= 2.5 per quartering) is decided by an oracle against an independent Riccati integration.",
        note="PARTIAL: convergence to the ODE solution is not a theorem (no ODE theory for complex systems installed); it is carried by the thorough-tier oracle sweep (and on any broken obligation). Exact arithmetic (Laws O). Tie: bridge lemmas on Ti, a, b, c, d, update, radicand, alpha + float correspondence.",
        technique="Coq proof (ring/field identities, linearity of the sweep, uniqueness of the shooting coefficient) + slice translator/bridge + float correspondence; reference-solution oracle (scipy DOP853)",
        design="6/C01",
    ),
    "C05": dict(
        text="Machine-checked Coq theorems about Model/Solver.v: the analytic branch returns, per retained mode and level, exactly Q = qh*exp(-lam*h), P = Q/(Kz*lam) and the linear mean profile, through the same pad/truncate/shift/crop as the numerical branch; the layer step equals the cubic Taylor polynomial of exp(dz*M) entry by entry; on the eigenvectors it multiplies by E3(-+lam*dz); hence for height-independent coefficients on ANY grid the numerical mode solution is exactly qh*prod E3(-lam dz_j) (alpha = qh/(Kz lam)); over the reals 0 <= exp(-x)-E3(-x) <= x^4/24 and |prod E3 - exp(-lam H)| <= lam^4/24 * H * dzmax^3 (third order; the bound drops exactly 8-fold per halving). Tie: bridge lemmas on a,b,c,d (a sign slip breaks bridge_b for all inputs) + float correspondence analytic/numeric.",
        note="PARTIAL: the O(dz^3) remainder bound is proved for real decay rates only (C05_third_order_real_partial, stdlib real axioms); for complex vertical wavenumbers it is carried by the order oracle (error ratio per halving >= 6 at n, 2n, 4n). Other theorems closed under the global context, exact arithmetic.",
        technique="Coq proof (field identities, induction over layers, shooting uniqueness; Coquelicot MVT chain for the remainder) + slice translator/bridge + float correspondence; convergence-order oracle",
        design="6/C05",
    ),
    "C11": dict(
        text="Machine-checked Coq theorems: every call of Model/Solver.v returns an error or fields with one slice per level of exactly the source's (ny, nx) shape with x=i*dx, y=j*dy (all parities, halos, mode counts); only odd mode requests are rejected; the code's fftshift/slice/pad index arithmetic (as repaired) reads and writes retained index t at padded index fftfreq(L)[t] mod n and zero elsewhere, without collisions, for every parity of n and L; a component retained under two mode counts has identical amplitude, shift and frequency (low-pass); a request exceeding the padded size retains exactly the padded size and equals that request. Tie: exhaustive (thorough) / sampled (quick) correspondence of outcome class, shape, coordinates and values over nx in 2..9, even/odd/oversized mode requests, halos {0, None, incommensurate}, both modes.",
        note="numpy's fftshift/ifftshift/pad/slice are modelled as functions of an integer index (Proofs/Plumbing.v) - modelling assumption validated by the correspondence on every parity class; exact arithmetic. Closed under the global context.",
        technique="Coq proof (integer index arithmetic with lia, structural facts of the model) + exhaustive small-grid model/implementation correspondence + slice translator/bridge",
        design="6/C11",
    ),
    "C06": dict(
        text="Machine-checked Coq theorems about Model/Solver.v on the periodic domain: rolling the source by any integer cell offsets (wrap-around included) rolls concentration and flux (dispersion, every level, numerical and analytic); moving an on-grid measurement point by whole cells rolls the footprint; a non-zero on-grid measurement point in dispersion mode with even sizes rolls the output so that the centre cell carries the field value at that point. Proved from cyclic re-indexing of finite sums, periodicity and multiplicativity of the roots of unity. The point-reflection clause follows from C02 + the source-shift theorem and is checked directly by the oracle.",
        note="Theorems are for px = py = 0 (halo observed through explicit padding) and double-precision storage; exact arithmetic (Laws O). Tie: bridge lemmas on lx, ly and both shift arguments + float correspondence with dx != dy, odd sizes, wrap-around towers.",
        technique="Coq proof (cyclic re-indexing, roots of unity) + slice translator/bridge + float correspondence; roll/reflection oracle on the real code",
        design="6/C06",
    ),
    "C07": dict(
        text="Machine-checked Coq theorems, per horizontal mode (any layer list, initial state, node): the mode solution and eigenvalue of the x-/y-mirrored problem (wind component negated) at the mirrored wavenumber, and of the axis-swapped problem at the swapped wavenumbers, equal the original ones; multiplying lengths and diffusivities by s leaves (p,q) unchanged with wavenumbers/s and the top condition Kz*eig invariant; multiplying winds and diffusivities by s leaves q unchanged and divides p and the shooting coefficient by s. Array-level mirror/transpose (symmetric up to the Nyquist row/column) are carried by the float correspondence and the symmetry oracle.",
        note="PARTIAL: array-level mirror/transpose statements are not theorems (named ..._partial); sqrt(r/s^2)=sqrt(r)/s enters the length-scaling top condition as a hypothesis. Exact arithmetic (Laws O).",
        technique="Coq proof (ring/field identities lifted over layer lists by induction) + slice translator/bridge + float correspondence; symmetry oracle with Nyquist filtering",
        design="6/C07",
    ),
    "C12": dict(
        text="Machine-checked Coq theorems about Model/Runtime.v, an executable state machine of the process-global state a solve touches (config.NUM_THREADS, numba's thread count, the FFTManager singleton, pyfftw's thread count, parallelize's per-flag compiled kernels, manager creations) mirroring solver.py / fft_manager.py / utils.parallelize statement by statement: for EVERY sequence of thread changes, manager resets, solves and raising calls, from every state, each solve returns exactly what the same call returns in a fresh one-thread process, under two named oracle equalities (both numba variants of ivp_solver compute the same function for every thread count; a pyfftw transform does not depend on its thread count); from every REACHABLE state the transform oracle is not needed because the machine itself proves every transform runs on a one-thread manager; bookkeeping invariants after any history (live manager's threads = pyfftw's, _compiled only grows without duplicates in insertion order, closed form of the state after a solve incl. the number of FFTManager re-creations: two per numerical solve when NUM_THREADS > 1, numba's thread count is set but never restored); and, about Model/Solver.v, precision is consumed by the storage rounding only (identity rounding => both precisions give the same result, every Ops, every request). Tied to the source on every run by exact differential execution of states and of every state-reading call over random histories in fresh subprocesses, by bit-level comparison of results, and by an AST census of all global-state accesses.",
        note="Partial: the history theorem is conditional on the oracle equalities kernel(par, n) = kernel(serial, 1) and fft(t) = fft(1). Thread schedules inside numba and FFTW, numba code generation (incl. the on-disk cache serving one variant's machine code for both flags) and FFTW planner/wisdom effects are runtime behaviour the model cannot exhibit; they are EXERCISED, not proved: results are compared bit for bit within a process and against fresh one-thread processes (serial-first, parallel-first and cold numba caches, NUM_THREADS 1..8, manager resets, planted FFTW_MEASURE wisdom at 1e-12), single vs double at 1e-5 of the field maximum. IEEE rounding is not covered by any theorem. The check is stricter than the property in one place: a rounding-level (<= 1e-12) difference between thread settings refutes the oracle hypothesis and is reported as 'no longer checks' without a failing input. Hand-written model; theorems closed under the global context.",
        technique="Coq proof (induction over op lists with a state invariant; closed form of one solve by rewriting; inspection proof that rho is the only consumer of a_single) + exact model/implementation correspondence of state traces and state-reading calls evaluated by vm_compute + bit-level differential execution across histories, thread settings, processes, numba-cache and FFTW-wisdom regimes + fail-closed AST census of global-state accesses + model-independent history oracle with shrinking",
        design="6/C12",
    ),    "C17": dict(
        text="Machine-checked Coq theorems over the reals about Model/Geo.v (latlon_to_xy, xy_to_latlon and the configuration step), for ALL points and references: the two transforms are mutual inverses whenever cos(ref_lat) != 0 (every |ref_lat| < 90 deg); the reference maps to (0,0) and back; x is strictly increasing in longitude and independent of latitude, y strictly increasing in latitude and independent of longitude, east/north of the reference <=> x/y > 0; BLDFMConfig.__post_init__ sets every tower's (x,y) to latlon_to_xy(lat,lon,ref) and leaves a freshly parsed tower at (0,0) when a reference coordinate is missing. The accuracy clause is proved in full, analytically: for every |ref_lat| <= 60 deg, any longitude and every offset with |x|,|y| <= 5 km (no minimum range) the local distance is within 0.1 % of the great-circle (haversine) distance and the local bearing within 0.1 deg of the initial great-circle bearing (cross/dot criterion, shown equivalent to the angle bound). Model tied to the source on every run by four bridge lemmas against formulas re-extracted from config_parser.py and plotting/_geo.py (incl. the module constant _EARTH_RADIUS and the order of the returned tuples) and by interval-certified evaluation of the real model at the exact rational value of every float input (scalars and numpy arrays, each goal closed by Qed) plus bit-exact observation of the configuration step.",
        note="Theorems are in exact real arithmetic on a sphere of the code's radius (stdlib real axioms only: sig_forall_dec, sig_not_dec, functional_extensionality_dep, classic); IEEE rounding is bounded only per evaluated case (1e-6 m / 1e-11 deg); math/numpy trigonometric functions are identified with Coq's; great-circle yardsticks are the haversine formula in atan2 form (proved to solve sin^2(sigma/2)=a) and the standard initial-bearing vector. Nothing is partial. The thorough tier additionally sweeps the property's own statement on the real code (round trips, origin, orientation, haversine/bearing: measured worst 2.6e-4 and 0.042 deg).",
        technique="Coq proof (field/ring identities; Taylor bounds of sin from the standard library, Lipschitz bound of cos, AM-GM style homogeneous estimates - no numerical tactic in any theorem) + slice translator with bridge lemmas + interval-certified model/implementation correspondence (Coq `interval`, 80-bit, exact rational inputs) + bit-pattern observation of parse_config_dict/BLDFMConfig + haversine oracle on the real code",
        design="6/C17",
    ),    "C08": dict(
        text="Machine-checked Coq theorems over the reals about Model/Wind.v (compute_wind_fields) for EVERY speed and direction: u^2+v^2 = U^2; 0/90/180/270 deg map exactly to (0,-U), (-U,0), (0,U), (U,0) (blowing toward south/west/north/east); -(u,v)/U = (sin wd, cos wd), the unit vector of compass bearing wd in an x-east/y-north frame; wd and wd+360 give the same wind; wd is the one and only compass bearing in [0,360) of the upwind direction. Tied to the source on every run by two bridge lemmas against the re-extracted formulas, by interval-certified evaluation of (u,v) on a 7.5/2.5-degree lattice incl. cardinals, scalars and arrays, and by bit-exact observation that run_bldfm_single passes exactly compute_wind_fields(step wind_speed, step wind_dir) to vertical_profiles and the tower's latlon_to_xy coordinates as meas_pt. The end-to-end clause (bearing tower -> footprint centre of mass = wind_dir within 5 deg on a resolved domain) is NOT a theorem: it is exercised through parse_config_dict + run_bldfm_single by an 8-direction smoke run in every check and by the oracle sweep (5-degree direction lattice x closures MOST/MOSTM/CONSTANT x stabilities x speeds x square/oblong grids x references; measured worst 3.1 deg) in the thorough tier and whenever an obligation breaks.",
        note="Partial: the centroid-bearing clause concerns the discrete PDE solution on a finite periodic grid and has no algebraic form; it is tested, not proved. 'Resolved' is made precise in the evidence (tower at the centre, peak distance between 2 cells and 1/20 of the domain, all modes of the padded grid, halo 2x; default halo only for MOST/MOSTM - the CONSTANT closure's heavy tail makes the centroid depend on the periodic images with the default halo). Theorems in exact real arithmetic (stdlib real axioms only); numpy's deg2rad/sin/cos identified with Coq's; rounding bounded per evaluated case (1e-12*max(1,U)).",
        technique="Coq proof (trigonometric identities, uniqueness of the angle in [0,2pi) from sin/cos) + slice translator (SSA expansion of the re-assigned parameter) with bridge lemmas + interval-certified correspondence + bit-pattern observation of the interface plumbing + end-to-end footprint-centroid oracle on the real code",
        design="6/C08",
    ),}

NOT_YET = "check not built yet in this round of work (planned in DESIGN.md section 6); no claim is made"


def main():
    m = {
        "version": 1,
        "setup_cmd": "bin/setup",
        "hooks": {
            "guard": "BLDFM_VERIF",
            "enable": "no source hooks are installed; checks observe the public API (wrappers are installed from the harness process)",
            "baseline_off_cmd": "cd /repo && /venv/bin/python -m pytest -ra -q -p no:cacheprovider --timeout=900 --continue-on-collection-errors",
            "source_commits": [],
            "add_only": True,
        },
        "engines": [
            {"name": "coq-model", "path": "coq/", "serves_properties": sorted(CHECKS), "kind_free_text": "Coq 8.16.1 development: executable Gallina models, theorems, bridge lemmas"},
            {"name": "harness", "path": "harness/", "serves_properties": sorted(CHECKS), "kind_free_text": "Python driver: slice translator, correspondence generators, oracles, evidence"},
        ],
        "checks": [],
        "not_applicable": [],
        "notes": "Every check: bin/check <id> quick|thorough. VERIF_SEED seeds all random choices. Known findings: known_findings.json.",
    }
    for pid in ALL:
        if pid in CHECKS:
            c = CHECKS[pid]
            m["checks"].append({
                "property_id": pid,
                "quick_cmd": "bin/check %s quick" % pid,
                "thorough_cmd": "bin/check %s thorough" % pid,
                "evidence_file": "/verif/evidence/%s.json" % pid,
                "replay_cmd_template": "bin/replay {path}",
                "engine": "coq-model",
                "level_claimed": {"category": "proof", "text": c["text"], "design_ref": c["design"]},
                "level_note": c["note"],
                "technique": c["technique"],
            })
        else:
            m["not_applicable"].append({"property_id": pid, "reason": NOT_YET})
    with open(os.path.join(VERIF, "MANIFEST.json"), "w") as f:
        json.dump(m, f, indent=1)


if __name__ == "__main__":
    main()
