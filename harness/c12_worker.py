"""Subprocess body of the C12 history correspondence (harness/props/c12.py).

usage: python c12_worker.py <job.json>      (cwd = a scratch directory; env from core.pyenv)

job = {"cases": {cid: solvercorr.full(case)},            the alphabet of solves used by this history
       "ops": [["threads", n] | ["reset"] | ["solve", cid]],
       "out": path of the pickle to write}

Executes the ops in THIS ONE process against the real bldfm and records, after every op,
  (a) for a solve: the raw bytes, dtype and shape of grid (X, Y, Z), conc and flx (or the exception),
  (b) the observable process-global bookkeeping:
      [bldfm.config.NUM_THREADS, numba.get_num_threads(), _fft_manager.num_threads or -1,
       pyfftw.config.NUM_THREADS, keys of parallelize's _compiled dict in insertion order,
       number of FFTManager.__init__ calls so far]
  (c) for a solve: the state-reading calls in execution order:
      [0, pyfftw.config.NUM_THREADS] for every FFTManager.fft2/ifft2, [1, variant flag, numba.get_num_threads()]
      for every fetch of a compiled ivp_solver variant from _compiled.
No bldfm source is modified; FFTManager.__init__/fft2/ifft2 are wrapped and the _compiled dict is replaced by a
recording dict subclass from here, only to observe."""
import json
import logging
import pickle
import sys


def main(argv):
    job = json.load(open(argv[1]))
    logging.disable(logging.CRITICAL)
    import numpy as np
    import numba
    import pyfftw

    init_numba = int(numba.get_num_threads())
    init_pyfftw = int(pyfftw.config.NUM_THREADS)

    import bldfm.config as cfg
    import bldfm.fft_manager as F
    import bldfm.solver as S
    import solvercorr as sc

    creations = [0]
    orig_init = F.FFTManager.__init__

    def counted(self, *a, **k):
        creations[0] += 1
        return orig_init(self, *a, **k)

    F.FFTManager.__init__ = counted

    events = []

    def wrap_transform(name):
        orig = getattr(F.FFTManager, name)

        def method(self, *a, **k):
            events.append([0, int(pyfftw.config.NUM_THREADS)])  # a transform, with the thread count pyfftw will use
            return orig(self, *a, **k)

        setattr(F.FFTManager, name, method)

    wrap_transform("fft2")
    wrap_transform("ifft2")

    class Watched(dict):
        """parallelize's _compiled, recording which variant is fetched for a call and numba's thread count then"""

        def __getitem__(self, key):
            events.append([1, int(bool(key)), int(numba.get_num_threads())])
            return dict.__getitem__(self, key)

    compiled = None
    for cell in S.ivp_solver.__closure__ or ():
        if isinstance(cell.cell_contents, dict):
            compiled = Watched(cell.cell_contents)
            cell.cell_contents = compiled
    if compiled is None:
        raise RuntimeError("cannot reach parallelize's _compiled dict through ivp_solver.__closure__")

    def obs():
        m = F._fft_manager
        return [int(cfg.NUM_THREADS), int(numba.get_num_threads()), -1 if m is None else int(m.num_threads),
                int(pyfftw.config.NUM_THREADS), [bool(k) for k in compiled.keys()], int(creations[0])]

    cases = {cid: sc.from_full(c) for cid, c in job["cases"].items()}
    rec = {"init": obs(), "init_numba": init_numba, "init_pyfftw": init_pyfftw,
           "numba_max": int(numba.config.NUMBA_NUM_THREADS), "ops": []}
    for op in job["ops"]:
        r = None
        del events[:]
        if op[0] == "threads":
            cfg.NUM_THREADS = int(op[1])
        elif op[0] == "reset":
            F.reset_fft_manager()
        elif op[0] == "solve":
            try:
                with np.errstate(all="ignore"):
                    (X, Y, Z), conc, flx = sc.call(S, cases[op[1]])
                r = {}
                for name, arr in (("X", X), ("Y", Y), ("Z", Z), ("conc", conc), ("flx", flx)):
                    arr = np.ascontiguousarray(arr)
                    r[name] = (arr.tobytes(), str(arr.dtype), tuple(arr.shape))
            except Exception as e:  # recorded, compared like a result
                r = {"err": type(e).__name__ + ": " + str(e)}
        else:
            raise ValueError("unknown op %r" % (op,))
        rec["ops"].append({"obs": obs(), "res": r, "events": [list(e) for e in events]})
    with open(job["out"], "wb") as f:
        pickle.dump(rec, f)
    return 0


if __name__ == "__main__":
    rc = main(sys.argv)
    sys.stdout.flush()
    sys.exit(rc)
