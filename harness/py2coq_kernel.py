"""Fail-closed whole-function translator for the numerical KERNEL of bldfm/solver.py (tie B of C10, C01, C05 ...).

Reads the CURRENT source with `ast` and emits Gallina over the abstract `Ops` (`GenKernel.v`, regenerated on every run):

    gen_ivp_solver    the WHOLE body of `ivp_solver`
    gen_mean_mode     the mean-mode block of `steady_state_transport_solver` (the statements of the `else` branch of
                      `if analytic:` that follow the last store through the mode mask `[..., msk]`:
                      `tfftp00 = p000; for i in range(nz - 1): ...; for lvl in range(nlvls): ...`)

`coq/Bridge/KernelBridge.v` then re-proves, for ALL inputs (any column with nz >= 1 nodes, any list of levels - repeats
and out-of-range entries included -, any initial state / initial contents of the output column), that the generated
functions are the hand-written model's `ivp` (= `ivp_loop` + `record`) and `mean_loop` of Model/Solver.v.

Reading of the arrays (TRUSTED, stated in the evidence): the arrays over horizontal modes (`fftp0`, `fftpi`, `Lx`, `Ti`,
`a` ... of shape (nxy,)) are combined elementwise only, so the body is translated for ONE mode (a value of `C O`);
`fftp`/`fftq` of shape (nlvls, nxy) become the list of their nlvls slots for that mode and `a[lvl, ...] = x` the update
of slot lvl (`pyset`); profile arrays (`u, v, Kx, Ky, Kz, z, dz`) are lists indexed by node (`pyget`); `np.diff` is the
model's `diffs`; `np.copy` is the identity on values (the fragment has no in-place operation that could alias).

The translation is statement by statement and keeps the shape of the source:

    x = e                               let v_x := e in
    x, y = e1, e2                       let '(v_x, v_y) := (e1, e2) in            (simultaneous, as in Python)
    a, b = <tuple parameter>            let '(v_a, v_b) := v_p in
    s[k, ...] = e   s[k] = e            let v_s := pyset v_s v_k e in
    for k in range(e): body             let '(carried) := fold_left (fun st v_k => let '(carried) := st in body (carried))
                                                                    (pyrange e) (carried) in
    for k, L in enumerate(levels): ..   ... (fun st kx => let '(v_k, v_L) := kx in ...) (pyenumerate v_levels) ...
    for k in [j for j in range(e) if t] ... (filter (fun v_j => t) (pyrange e)) ...
    if levels[k] == e: body             let '(carried) := if pylevel_eq (nth v_k v_levels 0) e then (body (carried))
                                                          else (carried) in
    return a, b, c, d                   (v_a, v_b, v_c, v_d)

carried = the variables a loop / branch re-binds that exist before it, ordered by their position in the `return`
statement, then by first binding (so renaming locals and reordering independent statements keep the order).
Python ints (`nz`, `nlvls`, `nz - 1`) are Coq `Z`; loop indices are `nat` and only enter index expressions of the forms
`k` and `k + <non-negative literal>` (never negative: Python's wrap-around cannot occur).

ANYTHING else raises TranslateError - `while`, `break`/`continue`, `else` branches, augmented assignment (a running
pointer `lvl += 1`), a lookup table / dict / list built in the function, `prange`, a store whose index is not a loop
index, a store into a profile or mode array (in-place update that could alias), slices, a call that is not listed, a
loop-local or loop variable used after its loop, a changed signature or decorator, another dtype than complex128, a
comparison other than `<level entry> == <int>` - and becomes the broken obligation `gen:GenKernel.v`."""
import ast
import os

import py2coq
from py2coq import TranslateError

IVP = "ivp_solver"
SST = "steady_state_transport_solver"

# kinds
C, INT, NAT, LVL, PROF, SLOTS, LEVELS, AXIS = "C", "INT", "NAT", "LVL", "PROF", "SLOTS", "LEVELS", "AXIS"
LIT = "LIT"  # a numeric literal: fits a complex value; an int literal also fits a Python int


def TUP(*ks):
    return ("tuple",) + tuple(ks)


TY = {C: "C O", INT: "Z", NAT: "nat", LVL: "nat", PROF: "list (C O)", SLOTS: "list (C O)", LEVELS: "list nat"}


def tystr(k):
    if isinstance(k, tuple):
        return "(" + " * ".join(tystr(x) for x in k[1:]) + ")"
    if k not in TY:
        raise TranslateError("a value of kind %r has no Gallina type" % (k,))
    return TY[k]


def err(node, msg):
    where = "line %s: " % getattr(node, "lineno", "?")
    try:
        txt = ast.unparse(node)
    except Exception:
        txt = type(node).__name__
    raise TranslateError("%s%s: `%s`" % (where, msg, txt.splitlines()[0][:160] if txt else ""))


def cq(name):
    """Coq identifier of a Python local"""
    if not name.isidentifier() or not all(ch.isalnum() or ch == "_" for ch in name) or not name.isascii():
        raise TranslateError("variable name %r cannot be carried over" % name)
    return "v_" + name


def _is_doc(st):
    return isinstance(st, ast.Expr) and isinstance(st.value, ast.Constant) and isinstance(st.value.value, str)


def _bound_names(stmts):
    """names (re)bound by the statements, in order of first binding; stores count as re-binding the array"""
    out = []

    def add(n):
        if n not in out:
            out.append(n)

    def tgt(t):
        if isinstance(t, ast.Name):
            add(t.id)
        elif isinstance(t, (ast.Tuple, ast.List)):
            for e in t.elts:
                tgt(e)
        elif isinstance(t, ast.Subscript):
            b = t.value
            while isinstance(b, (ast.Subscript, ast.Attribute)):
                b = b.value
            if isinstance(b, ast.Name):
                add(b.id)
        elif isinstance(t, ast.Starred):
            tgt(t.value)

    def visit(ss):
        for st in ss:
            if isinstance(st, ast.Assign):
                for t in st.targets:
                    tgt(t)
            elif isinstance(st, (ast.AugAssign, ast.AnnAssign)):
                tgt(st.target)
            elif isinstance(st, ast.For):
                tgt(st.target)
                visit(st.body)
                visit(st.orelse)
            elif isinstance(st, (ast.If, ast.While)):
                visit(st.body)
                visit(st.orelse)
            elif isinstance(st, ast.With):
                for it in st.items:
                    if it.optional_vars is not None:
                        tgt(it.optional_vars)
                visit(st.body)
            elif isinstance(st, ast.Try):
                visit(st.body)
                for h in st.handlers:
                    visit(h.body)
                visit(st.orelse)
                visit(st.finalbody)

    visit(stmts)
    return out


class Body:
    """translates a statement list; env: python name -> kind"""

    def __init__(self, order, outer=None):
        self.order = list(order)  # canonical order of state variables
        self.outer = outer  # callback(name node, env) -> kind for names bound outside the translated block
        self.lit = py2coq.Emitter("ops", {}, [])

    # ------------------------------------------------------------------ names
    def kind(self, node, env):
        nm = node.id
        if nm not in env:
            if self.outer is not None:
                self.outer(node, env)
            if nm not in env:
                err(node, "name %r is not bound by the translated fragment (or is a loop-local / loop variable used after its loop)" % nm)
        return env[nm]

    def rank(self, nm):
        if nm not in self.order:
            self.order.append(nm)
        return self.order.index(nm)

    def tup(self, names):
        if not names:
            raise TranslateError("empty state")
        if len(names) == 1:
            return cq(names[0])
        return "(" + ", ".join(cq(n) for n in names) + ")"

    def pat(self, names):
        if len(names) == 1:
            return cq(names[0])
        return "'(" + ", ".join(cq(n) for n in names) + ")"

    # ------------------------------------------------------------------ expressions
    def natidx(self, node, env):
        """index expression that is provably a non-negative int: k | k + n | n + k | n"""
        if isinstance(node, ast.Name):
            if self.kind(node, env) != NAT:
                err(node, "index that is not a loop index")
            return cq(node.id)
        if isinstance(node, ast.Constant) and type(node.value) is int and 0 <= node.value < 1000:
            return "%d%%nat" % node.value
        if isinstance(node, ast.BinOp) and isinstance(node.op, ast.Add):
            return "(Nat.add %s %s)" % (self.natidx(node.left, env), self.natidx(node.right, env))
        err(node, "index expression outside the supported fragment (loop index, loop index + non-negative literal)")

    def intexpr(self, node, env):
        """Python int -> Z"""
        if isinstance(node, ast.Name):
            k = self.kind(node, env)
            if k == INT:
                return cq(node.id)
            if k == NAT:
                return "(Z.of_nat %s)" % cq(node.id)
            err(node, "%r is not an int" % node.id)
        if isinstance(node, ast.Constant) and type(node.value) is int and abs(node.value) < 10 ** 6:
            return "(%d)%%Z" % node.value
        if isinstance(node, ast.UnaryOp) and isinstance(node.op, ast.USub):
            return "(Z.opp %s)" % self.intexpr(node.operand, env)
        if isinstance(node, ast.BinOp) and isinstance(node.op, (ast.Add, ast.Sub, ast.Mult)):
            f = {ast.Add: "Z.add", ast.Sub: "Z.sub", ast.Mult: "Z.mul"}[type(node.op)]
            return "(%s %s %s)" % (f, self.intexpr(node.left, env), self.intexpr(node.right, env))
        if isinstance(node, ast.Call) and isinstance(node.func, ast.Name) and node.func.id == "len" and len(node.args) == 1 \
                and not node.keywords and isinstance(node.args[0], ast.Name):
            k = self.kind(node.args[0], env)
            if k in (PROF, LEVELS, SLOTS):
                return "(Z.of_nat (length %s))" % cq(node.args[0].id)
            err(node, "len of something that is not an array over nodes / levels")
        err(node, "int expression outside the supported fragment")

    def is_int(self, node, env):
        if isinstance(node, ast.Name):
            return self._outer_kind(node, env) in (INT, NAT)
        if isinstance(node, ast.Constant):
            return type(node.value) is int
        if isinstance(node, ast.UnaryOp):
            return self.is_int(node.operand, env)
        if isinstance(node, ast.BinOp):
            return isinstance(node.op, (ast.Add, ast.Sub, ast.Mult)) and self.is_int(node.left, env) and self.is_int(node.right, env)
        if isinstance(node, ast.Call) and isinstance(node.func, ast.Name) and node.func.id == "len":
            return True
        return False

    def _outer_kind(self, node, env):
        try:
            return self.kind(node, env)
        except TranslateError:
            return None

    def lvlexpr(self, node, env):
        """an entry of the level list -> nat"""
        if isinstance(node, ast.Name) and self.kind(node, env) == LVL:
            return cq(node.id)
        if isinstance(node, ast.Subscript) and isinstance(node.value, ast.Name) and self.kind(node.value, env) == LEVELS:
            return "(nth %s %s 0%%nat)" % (self.natidx(node.slice, env), cq(node.value.id))
        return None

    def test(self, node, env):
        """<level entry> == <int>  (either order)"""
        if isinstance(node, ast.Compare) and len(node.ops) == 1 and isinstance(node.ops[0], ast.Eq):
            a, b = node.left, node.comparators[0]
            for x, y in ((a, b), (b, a)):
                lv = self.lvlexpr(x, env)
                if lv is not None:
                    return "(pylevel_eq %s %s)" % (lv, self.intexpr(y, env))
        err(node, "condition outside the supported fragment (<entry of levels> == <int>)")

    def cexpr(self, node, env):
        """complex value of one mode / one node"""
        if isinstance(node, ast.Constant):
            if isinstance(node.value, (bool, str, bytes)) or node.value is None:
                err(node, "constant outside the supported fragment")
            text = getattr(node, "_src", None) if isinstance(node.value, float) else None
            return self.lit.lit(node.value, text)
        if isinstance(node, ast.Name):
            k = self.kind(node, env)
            if k != C:
                err(node, "%r (kind %s) is not a value of one mode / node" % (node.id, k))
            return cq(node.id)
        if isinstance(node, ast.UnaryOp):
            if isinstance(node.op, ast.USub):
                return "(- %s)" % self.cexpr(node.operand, env)
            if isinstance(node.op, ast.UAdd):
                return self.cexpr(node.operand, env)
            err(node, "unary operator outside the supported fragment")
        if isinstance(node, ast.BinOp):
            if isinstance(node.op, ast.Pow):
                e = node.right
                if isinstance(e, ast.Constant) and type(e.value) is int and 1 <= e.value <= 8:
                    base = self.cexpr(node.left, env)
                    return "(" + " * ".join([base] * e.value) + ")"
                err(node, "power with an exponent that is not a small positive integer literal")
            ops = {ast.Add: "+", ast.Sub: "-", ast.Mult: "*", ast.Div: "/"}
            if type(node.op) in ops:
                return "(%s %s %s)" % (self.cexpr(node.left, env), ops[type(node.op)], self.cexpr(node.right, env))
            err(node, "operator outside the supported fragment")
        if isinstance(node, ast.Subscript):
            if isinstance(node.value, ast.Name):
                kv = self.kind(node.value, env)
                if kv == PROF:
                    return "(pyget O %s %s)" % (cq(node.value.id), self.natidx(node.slice, env))
                if isinstance(kv, tuple) and kv[0] == "modearray":
                    return self.mean_component(node, env)
            err(node, "subscript outside the supported fragment (profile[index])")
        if isinstance(node, ast.Call):
            f = ast.unparse(node.func)
            if f == "np.copy" and len(node.args) == 1 and not node.keywords:
                return self.cexpr(node.args[0], env)  # a copy has the value of its argument
            if isinstance(node.func, ast.Attribute) and node.func.attr == "copy" and not node.args and not node.keywords:
                return self.cexpr(node.func.value, env)
            err(node, "call outside the supported fragment")
        err(node, "expression outside the supported fragment (%s)" % type(node).__name__)

    def mean_component(self, node, env):
        err(node, "component of an array over modes")

    def value(self, node, env):
        """right-hand side of `name = ...` -> (term, kind)"""
        if isinstance(node, ast.Call):
            f = ast.unparse(node.func)
            if f == "len":
                return self.intexpr(node, env), INT
            if f == "np.diff" and len(node.args) == 1 and not node.keywords and isinstance(node.args[0], ast.Name) \
                    and self.kind(node.args[0], env) == PROF:
                return "(pydiff O %s)" % cq(node.args[0].id), PROF
            if f == "np.zeros":
                kws = {k.arg: ast.unparse(k.value) for k in node.keywords}
                if kws not in ({"dtype": "np.complex128"}, {"dtype": "complex"}, {"dtype": "np.complex_"}):
                    err(node, "np.zeros with a dtype other than complex128")
                if len(node.args) != 1 or not isinstance(node.args[0], ast.Tuple) or len(node.args[0].elts) != 2:
                    err(node, "np.zeros with a shape other than (<levels>, <modes>)")
                n, ax = node.args[0].elts
                if not (isinstance(ax, ast.Name) and self.kind(ax, env) == AXIS):
                    err(node, "np.zeros whose second extent is not the mode axis")
                return "(pyzeros O %s)" % self.intexpr(n, env), SLOTS
        if isinstance(node, ast.Subscript) and isinstance(node.value, ast.Attribute) and node.value.attr == "shape" \
                and isinstance(node.value.value, ast.Name) and self.kind(node.value.value, env) == C \
                and isinstance(node.slice, ast.Constant) and node.slice.value == 0:
            return None, AXIS  # extent of the mode axis: no value in the per-mode reading
        if isinstance(node, ast.Name) and self.kind(node, env) in (PROF, LEVELS, INT):
            return cq(node.id), self.kind(node, env)
        if self.is_int(node, env) and not isinstance(node, ast.Constant):
            return self.intexpr(node, env), INT
        return self.cexpr(node, env), C

    # ------------------------------------------------------------------ statements
    def store_index(self, sl, env, depth):
        """s[k], s[k, ...], s[k, :]  ->  k      (depth = number of trailing mode axes that may be spelled out)"""
        if isinstance(sl, ast.Tuple):
            first, rest = sl.elts[0], sl.elts[1:]
            ok = all((isinstance(r, ast.Constant) and r.value is Ellipsis) or
                     (isinstance(r, ast.Slice) and r.lower is None and r.upper is None and r.step is None) for r in rest)
            if not ok or len(rest) > depth:
                err(sl, "store index outside the supported fragment")
            sl = first
        if not (isinstance(sl, ast.Name) and self.kind(sl, env) == NAT):
            err(sl, "store whose slot index is not a loop index")
        return cq(sl.id)

    def store(self, st, t, env):
        if not isinstance(t.value, ast.Name) or self.kind(t.value, env) != SLOTS:
            err(st, "store into something that is not an array over the requested levels (in-place update of an array over modes / nodes)")
        k = self.store_index(t.slice, env, 1)
        v = self.cexpr(st.value, env)
        return "let %s := pyset %s %s %s in" % (cq(t.value.id), cq(t.value.id), k, v)

    def bind(self, node, env, nm, kind):
        if nm in env and env[nm] != kind:
            err(node, "%r changes its kind from %s to %s" % (nm, env[nm], kind))
        cq(nm)
        env[nm] = kind
        self.rank(nm)

    def stmts(self, ss, env, ind):
        """-> list of `let ... in` lines; env is updated in place"""
        out = []
        pad = "  " * ind
        for st in ss:
            if _is_doc(st) or isinstance(st, ast.Pass):
                continue
            if isinstance(st, ast.Assign):
                if len(st.targets) != 1:
                    err(st, "chained assignment")
                t = st.targets[0]
                if isinstance(t, ast.Subscript):
                    out.append(pad + self.store(st, t, env))
                    continue
                if isinstance(t, ast.Name):
                    term, k = self.value(st.value, env)
                    self.bind(st, env, t.id, k)
                    if term is not None:
                        out.append(pad + "let %s := %s in" % (cq(t.id), term))
                    continue
                if isinstance(t, ast.Tuple) and all(isinstance(e, ast.Name) for e in t.elts):
                    names = [e.id for e in t.elts]
                    if len(set(names)) != len(names):
                        err(st, "repeated name in an unpacking")
                    if isinstance(st.value, ast.Name):
                        k = self.kind(st.value, env)
                        if not (isinstance(k, tuple) and k[0] == "tuple" and len(k) - 1 == len(names)):
                            err(st, "unpacking of something that is not a tuple parameter of that length")
                        for n, kk in zip(names, k[1:]):
                            self.bind(st, env, n, kk)
                        out.append(pad + "let %s := %s in" % (self.pat(names), cq(st.value.id)))
                        continue
                    if isinstance(st.value, ast.Tuple) and len(st.value.elts) == len(names):
                        parts = [self.value(e, env) for e in st.value.elts]  # all right-hand sides in the OLD environment
                        if any(p[0] is None for p in parts):
                            err(st, "unpacking with a component that has no value")
                        for n, p in zip(names, parts):
                            self.bind(st, env, n, p[1])
                        out.append(pad + "let %s := (%s) in" % (self.pat(names), ", ".join(p[0] for p in parts)))
                        continue
                err(st, "assignment outside the supported fragment")
            if isinstance(st, ast.For):
                out += self.loop(st, env, ind)
                continue
            if isinstance(st, ast.If):
                out += self.branch(st, env, ind)
                continue
            err(st, "statement outside the supported fragment (%s)" % type(st).__name__)
        return out

    def carried(self, node, body, env, exclude=()):
        names = [n for n in _bound_names(body) if n not in exclude]
        car = [n for n in names if n in env]
        if not car:
            err(node, "a loop / branch that re-binds nothing that exists before it")
        for n in car:
            self.rank(n)
        return sorted(car, key=self.rank), [n for n in names if n not in env]

    def iterable(self, node, target, env):
        """-> (Gallina list, binder of the fold's function, destructuring line or None, {name: kind} of the loop variables)"""
        if isinstance(node, ast.Call) and isinstance(node.func, ast.Name) and not node.keywords:
            if node.func.id == "range" and len(node.args) == 1 and isinstance(target, ast.Name):
                return "(pyrange %s)" % self.intexpr(node.args[0], env), cq(target.id), None, {target.id: NAT}
            if node.func.id == "enumerate" and len(node.args) == 1 and isinstance(node.args[0], ast.Name) \
                    and self.kind(node.args[0], env) == LEVELS and isinstance(target, ast.Tuple) and len(target.elts) == 2 \
                    and all(isinstance(e, ast.Name) for e in target.elts) and target.elts[0].id != target.elts[1].id:
                k, x = target.elts[0].id, target.elts[1].id
                return "(pyenumerate %s)" % cq(node.args[0].id), "kx", "let '(%s, %s) := kx in" % (cq(k), cq(x)), {k: NAT, x: LVL}
        if isinstance(node, ast.ListComp) and len(node.generators) == 1 and isinstance(target, ast.Name):
            g = node.generators[0]
            if not g.is_async and isinstance(g.target, ast.Name) and isinstance(node.elt, ast.Name) and node.elt.id == g.target.id \
                    and len(g.ifs) == 1 and g.target.id not in env:
                inner, b, pre, vs = self.iterable(g.iter, g.target, env)
                if pre is None and list(vs.values()) == [NAT]:
                    env2 = dict(env)
                    env2.update(vs)
                    return "(filter (fun %s => %s) %s)" % (b, self.test(g.ifs[0], env2), inner), cq(target.id), None, {target.id: NAT}
        err(node, "iteration outside the supported fragment (range(<int>), enumerate(levels), [k for k in range(<int>) if <test>])")

    def loop(self, st, env, ind):
        pad = "  " * ind
        if st.orelse:
            err(st, "for ... else")
        lst, binder, pre, vs = self.iterable(st.iter, st.target, env)
        for n in vs:
            if n in env:
                err(st, "loop variable %r re-binds an existing variable" % n)
        car, local = self.carried(st, st.body, env, exclude=tuple(vs))
        env2 = dict(env)
        env2.update(vs)
        inner = self.stmts(st.body, env2, ind + 2)
        for n in car:
            if env2[n] != env[n]:
                err(st, "%r changes its kind inside the loop" % n)
        out = [pad + "let %s :=" % self.pat(car),
               pad + "  fold_left (fun st %s =>" % binder,
               pad + "    let %s := st in" % self.pat(car)]
        if pre:
            out.append(pad + "    " + pre)
        out += inner
        out.append(pad + "    %s) %s %s in" % (self.tup(car), lst, self.tup(car)))
        return out  # loop variables and loop-locals are NOT visible after the loop: env is untouched

    def branch(self, st, env, ind):
        pad = "  " * ind
        if st.orelse:
            err(st, "if ... else")
        t = self.test(st.test, env)
        car, local = self.carried(st, st.body, env)
        if local:
            err(st, "a branch that binds a new name (%s)" % ", ".join(local))
        env2 = dict(env)
        inner = self.stmts(st.body, env2, ind + 2)
        if env2 != env:
            err(st, "a branch that changes the kind of a variable")
        return ([pad + "let %s :=" % self.pat(car), pad + "  if %s then (" % t] + inner +
                [pad + "    %s)" % self.tup(car), pad + "  else %s in" % self.tup(car)])


HEAD = """(* generated by harness/py2coq_kernel.py from %s - do not edit *)
From Coq Require Import ZArith List.
From Coq Require String.
From BL Require Import Base.Ops Model.Solver Model.KernelPy.
Import ListNotations.
Section Gen.
Variable O : Ops.
Infix "+" := (cadd O) : ops_scope. Infix "*" := (cmul O) : ops_scope.
Infix "-" := (csub O) : ops_scope. Infix "/" := (cdiv O) : ops_scope.
Notation "- x" := (copp O x) : ops_scope.
Local Open Scope ops_scope.
"""


def _check_plain_args(fn, want=None):
    a = fn.args
    if a.vararg or a.kwarg or a.kwonlyargs or a.posonlyargs:
        err(fn, "signature outside the supported fragment")
    names = [x.arg for x in a.args]
    if want is not None and len(names) != want:
        err(fn, "expected %d parameters" % want)
    return names


def translate_ivp(tree):
    fn = py2coq.find_function(tree, IVP)
    decos = [ast.unparse(d) for d in fn.decorator_list]
    if decos not in ([], ["parallelize"]):
        err(fn, "decorators %r" % decos)
    if fn.args.defaults:
        err(fn, "default arguments")
    pn = _check_plain_args(fn, 6)
    kinds = [TUP(C, C), TUP(PROF, PROF, PROF, PROF, PROF), PROF, LEVELS, C, C]
    env = dict(zip(pn, kinds))
    body = [st for st in fn.body if not _is_doc(st)]
    if not body or not isinstance(body[-1], ast.Return):
        err(fn, "the function does not end in a return statement")
    ret = body[-1].value
    if not (isinstance(ret, ast.Tuple) and len(ret.elts) == 4 and all(isinstance(e, ast.Name) for e in ret.elts)):
        err(body[-1], "return value outside the supported fragment (a tuple of four variables)")
    for st in ast.walk(fn):
        if isinstance(st, ast.Return) and st is not body[-1]:
            err(st, "early return")
    order = [e.id for e in ret.elts]
    tr = Body(order)
    lines = tr.stmts(body[:-1], env, 1)
    rk = [tr.kind(e, env) for e in ret.elts]
    if rk != [C, C, SLOTS, SLOTS]:
        err(body[-1], "returned kinds %r, expected two mode values and two level arrays" % (rk,))
    params = " ".join("(%s : %s)" % (cq(n), tystr(k)) for n, k in zip(pn, kinds))
    return ("Definition gen_ivp_solver %s : C O * C O * list (C O) * list (C O) :=\n" % params +
            "\n".join(lines) + "\n  (" + ", ".join(cq(e.id) for e in ret.elts) + ").\n")


# ---------------------------------------------------------------------------------------------
# the mean-mode block of steady_state_transport_solver


def _mentions(node, name):
    return any(isinstance(n, ast.Name) and n.id == name for n in ast.walk(node))


def find_mean_block(fn):
    """the `else` branch of the top-level `if analytic:`; the block = the statements after the last store through `msk`"""
    ifs = [st for st in fn.body if isinstance(st, ast.If) and isinstance(st.test, ast.Name) and st.test.id == "analytic"]
    if len(ifs) != 1 or not ifs[0].orelse:
        err(fn, "expected exactly one top-level `if analytic: ... else: ...`")
    els = ifs[0].orelse
    last = None
    for k, st in enumerate(els):
        if isinstance(st, ast.Assign) and any(isinstance(t, ast.Subscript) and _mentions(t.slice, "msk") for t in st.targets):
            last = k
    if last is None or last + 1 >= len(els):
        err(ifs[0], "no statements after the last store through the mode mask")
    for st in els[last + 1:]:
        if _mentions(st, "msk"):
            err(st, "the mean-mode block uses the mode mask")
    return ifs[0], els[last + 1:]


class MeanBody(Body):
    """free names of the block are resolved through their unique, unconditional definition in the enclosing function;
    arrays over modes that the block touches only through their mean-mode part (`X[0, 0]` read, `X[k, 0, 0]` stored)
    become a parameter holding that part"""

    PARAMS = {"z": PROF, "profiles": TUP(PROF, PROF, PROF, PROF, PROF), "levels": LEVELS, "srf_bg_conc": C}

    def __init__(self, fn, block):
        Body.__init__(self, [], outer=self.resolve)
        self.fn = fn
        self.block = block
        self.blockids = {id(n) for st in block for n in ast.walk(st)}
        self.prelude = []  # let-lines of the resolved outer names, in dependency order
        self.used_params = []
        self.components = []  # arrays read as X[0, 0]
        self.columns = []  # arrays stored as X[k, 0, 0]
        self.resolving = set()
        self.resolved = {}  # outer name -> kind (resolution happens once, whatever scope asks first)
        self.fnparams = _check_plain_args(fn)

    # ---- arrays over modes
    @staticmethod
    def _zero_tail(sl):
        """(k?, 0, 0) -> list of the leading index nodes"""
        if isinstance(sl, ast.Tuple) and len(sl.elts) in (2, 3) and all(isinstance(e, ast.Constant) and type(e.value) is int and e.value == 0 for e in sl.elts[-2:]):
            return sl.elts[:-2]
        return None

    def mode_arrays(self):
        """names used in the block ONLY as X[0, 0] (-> 'component') or ONLY as X[k, 0, 0] (-> 'column')"""
        out = {}
        names = {n.id for st in self.block for n in ast.walk(st) if isinstance(n, ast.Name)}
        for nm in sorted(names):
            uses = [n for st in self.block for n in ast.walk(st) if isinstance(n, ast.Subscript) and isinstance(n.value, ast.Name) and n.value.id == nm]
            alln = [n for st in self.block for n in ast.walk(st) if isinstance(n, ast.Name) and n.id == nm]
            if not uses or len(uses) != len(alln):
                continue
            tails = [self._zero_tail(u.slice) for u in uses]
            if any(t is None for t in tails):
                continue
            lens = {len(t) for t in tails}
            if lens == {0}:
                out[nm] = "component"
            elif lens == {1}:
                out[nm] = "column"
        return out

    def mean_component(self, node, env):
        nm = node.value.id
        if env[nm] != ("modearray", "component") or not isinstance(node.ctx, ast.Load):
            err(node, "read of an array over modes other than its mean-mode component X[0, 0]")
        if nm not in self.components:
            self.components.append(nm)
        return "m_%s_00" % nm

    def store(self, st, t, env):
        if isinstance(t.value, ast.Name) and self.kind(t.value, env) == ("modearray", "column"):
            lead = self._zero_tail(t.slice)
            if not (isinstance(lead[0], ast.Name) and self.kind(lead[0], env) == NAT):
                err(st, "store into an array over modes other than X[<loop index>, 0, 0]")
            nm = t.value.id
            if nm not in self.columns:
                self.columns.append(nm)
            return "let %s := pyset %s %s %s in" % (cq(nm), cq(nm), cq(lead[0].id), self.cexpr(st.value, env))
        return Body.store(self, st, t, env)

    # ---- names bound outside the block
    def bindings(self, nm):
        """all statements of the enclosing function outside the block that bind nm: (stmt, at top level?)"""
        res = []

        def visit(ss, top):
            for st in ss:
                if id(st) in self.blockids:
                    continue
                if isinstance(st, (ast.FunctionDef, ast.ClassDef)):
                    if st.name == nm:
                        res.append((st, top))
                    continue
                if isinstance(st, (ast.Import, ast.ImportFrom)):
                    if any((a.asname or a.name).split(".")[0] == nm for a in st.names):
                        res.append((st, top))
                    continue
                if nm in _bound_names([_shallow(st)]):
                    res.append((st, top))
                for attr in ("body", "orelse", "finalbody"):
                    sub = getattr(st, attr, None)
                    if isinstance(sub, list):
                        visit(sub, False)
                for h in getattr(st, "handlers", []) or []:
                    visit(h.body, False)

        visit(self.fn.body, True)
        return res

    def resolve(self, node, env):
        nm = node.id
        if nm in self.resolved:
            env[nm] = self.resolved[nm]
            return
        if nm in self.resolving:
            err(node, "cyclic definition of %r" % nm)
        binds = self.bindings(nm)
        if nm in self.fnparams:
            if nm not in self.PARAMS:
                err(node, "parameter %r is not part of the mean-mode block's reading" % nm)
            for st, top in binds:
                # the only accepted re-binding: a scalar level presented as a one-element array
                if not (nm == "levels" and isinstance(st, ast.Assign) and ast.unparse(st) == "levels = np.array([levels])"):
                    err(st, "the parameter %r is re-bound" % nm)
            env[nm] = self.resolved[nm] = self.PARAMS[nm]
            if nm not in self.used_params:
                self.used_params.append(nm)
            return
        if len(binds) != 1 or not binds[0][1]:
            err(node, "%r is not bound exactly once and unconditionally in %s outside the block (%d binding(s))" % (nm, self.fn.name, len(binds)))
        st = binds[0][0]
        if not isinstance(st, ast.Assign) or len(st.targets) != 1:
            err(st, "definition of %r outside the supported fragment" % nm)
        if st.lineno >= self.block[0].lineno:
            err(st, "%r is defined after the mean-mode block" % nm)
        self.resolving.add(nm)
        try:
            scratch = {}
            lines = self.stmts([st], scratch, 1)
            for k in _bound_names([st]):
                self.resolved[k] = scratch[k]
            env[nm] = self.resolved[nm]
            self.prelude += lines
        finally:
            self.resolving.discard(nm)


def _shallow(st):
    """copy of a compound statement without its nested blocks (so that only its own bindings are seen)"""
    import copy
    c = copy.copy(st)
    for attr in ("body", "orelse", "finalbody"):
        if isinstance(getattr(c, attr, None), list):
            setattr(c, attr, [])
    if hasattr(c, "handlers"):
        c.handlers = []
    return c


def translate_mean(tree):
    fn = py2coq.find_function(tree, SST)
    _, block = find_mean_block(fn)
    tr = MeanBody(fn, block)
    env = {}
    for nm, role in tr.mode_arrays().items():
        env[nm] = ("modearray", role)
    for st in block:
        if isinstance(st, ast.Assign) and isinstance(st.targets[0], ast.Subscript):
            err(st, "store outside a recording loop")
    lines = tr.stmts(block, env, 1)
    if len(tr.columns) != 1 or len(tr.components) != 1:
        err(block[0], "the mean-mode block must update one column X[:, 0, 0] and read one source component Y[0, 0] (found %r, %r)" % (tr.columns, tr.components))
    top = []  # state of the block: the mode values it binds at its top level ...
    for st in block:
        if isinstance(st, ast.Assign):
            for n in _bound_names([st]):
                if env.get(n) == C and n not in top:
                    top.append(n)
    if len(top) != 1:
        err(block[0], "the mean-mode block must carry exactly one running value at its top level (found %r)" % (top,))
    col, comp = tr.columns[0], tr.components[0]  # ... and the column
    if tr.used_params != [p for p in tr.used_params if p in MeanBody.PARAMS] or sorted(tr.used_params) != sorted(MeanBody.PARAMS):
        err(block[0], "the mean-mode block does not depend on exactly (srf_bg_conc, profiles, z, levels): %r" % (tr.used_params,))
    params = "(v_srf_bg_conc m_%s_00 : C O) (v_profiles : %s) (v_z : list (C O)) (v_levels : list nat) (%s : list (C O))" % (
        comp, tystr(MeanBody.PARAMS["profiles"]), cq(col))
    names = ("Module GenNames.\nImport String.\nDefinition gen_mean_source_array : string := \"%s\"%%string.\n" % comp +
             "Definition gen_mean_column_array : string := \"%s\"%%string.\nEnd GenNames.\n" % col)
    return names, ("Definition gen_mean_mode %s : C O * list (C O) :=\n" % params +
            "\n".join(tr.prelude + lines) + "\n  (%s, %s).\n" % (cq(top[0]), cq(col)))


def parse(path):
    src = open(path).read()
    tree = ast.parse(src)
    py2coq._annotate_float_text(tree, src)
    return tree


def generate(path):
    tree = parse(path)
    names, mean = translate_mean(tree)
    head = HEAD % os.path.basename(path)
    head = head.replace("Section Gen.", names + "Section Gen.")
    return head + translate_ivp(tree) + "\n" + mean + "\nEnd Gen.\n"


def elide(tree):
    """{id(stmt): placeholder} for skeleton.py: the statements that GenKernel.v translates as a whole"""
    out = {}
    fn = py2coq.find_function(tree, IVP)
    for st in fn.body:
        out[id(st)] = "<whole body translated: GenKernel.gen_ivp_solver>"
    sst = py2coq.find_function(tree, SST)
    _, block = find_mean_block(sst)
    for st in block:
        out[id(st)] = "<block translated: GenKernel.gen_mean_mode>"
    return out


if __name__ == "__main__":
    import sys
    print(generate(sys.argv[1] if len(sys.argv) > 1 else "/repo/src/bldfm/solver.py"))
