"""Fail-closed translator of the TOP LEVEL of bldfm.solver.steady_state_transport_solver (tie B, property C11 and
every solver-family property).

The other translators re-extract pieces of the function: the per-mode expressions (harness/solverslices.py), the
numerical kernel (harness/py2coq_kernel.py), the array pipelines (harness/py2coq_plumbing.py), the cache block
(harness/py2coq_cache.py).  This one re-extracts what holds them together: it walks the body of the CURRENT function
once, in source order, with a symbolic environment in which every scalar / index / boolean local is its defining
expression over the ARGUMENTS OF THE CALL (conditional re-bindings become conditional expressions), and emits
GenSolverTop.v, a term of the description language of coq/Model/SolverTop.v:

  * the expressions for nx, ny, nz, nlvls, dx, dy, px, py, nxe, nye, the mode counts after the clamp, dlx, dly, the
    default halo (inside px, py), the np.linspace arguments of the output coordinates;
  * the flat list of guarded steps: raise statements (with the condition they are raised under), the scalar-levels
    normalisation, the np.pad of the source (its four widths), every z[levels], and one reference per piece that
    another translator covers, each under the conjunction of the `if` tests that enclose it;
  * np.meshgrid's arguments and indexing, the grid tuple, np.squeeze, the result tuple.

coq/Bridge/SolverTopBridge.v proves on every run that the interpreted description equals the model's solve_top
(Solver.geometry, SolverArray.field_arr, the coordinates of Solver.solve, the order of the errors) for ALL arguments.

Every statement of the function must be accounted for by exactly one of: top-level step (interpreted here), slice
(statement whose right-hand side a slice of solverslices bridges), kernel region, plumbing statement, cache block,
thread set-up, logging / docstring.  Anything else raises TranslateError -> obligation gen:GenSolverTop.v."""
import ast
import os
import re
from fractions import Fraction

from py2coq import TranslateError

SST = "steady_state_transport_solver"

# slice name (harness/solverslices.py) -> the piece of Model/SolverTop.v its statement belongs to
SLICE_PIECE = {"lx": "PcFreq", "ly": "PcFreq", "eigval": "PcEigval", "alpha": "PcAlpha", "comb_p": "PcCombP",
               "comb_q": "PcCombQ", "an_h": "PcAnH", "an_q": "PcAnQ", "an_p": "PcAnP", "an_mean": "PcAnMean",
               "shift_fp": "PcShiftFp", "shift_ctr": "PcShiftCtr"}
# statements (normalised text) that belong to a piece; a piece runs when its LAST member statement has been executed
TEXT_PIECE = [
    (r"^ilx = fftfreq\(nlx, d=1\.0 / nlx\)$", "PcFreq"),
    (r"^ily = fftfreq\(nly, d=1\.0 / nly\)$", "PcFreq"),
    (r"^\(?Lx, Ly\)? = np\.meshgrid\(lx, ly\)$", "PcMesh"),
    (r"^msk = np\.ones\(\(nly, nlx\), dtype=bool\)$", "PcMask"),
    (r"^msk\[0, 0\] = False$", "PcMask"),
    (r"^one = np\.ones\(\(nly, nlx\), dtype=np\.complex128\)\[msk\]$", "PcOneZero"),
    (r"^zero = np\.zeros\(\(nly, nlx\), dtype=np\.complex128\)\[msk\]$", "PcOneZero"),
    (r"^Kzinv = ", "PcEigval"), (r"^KxKzinv = ", "PcEigval"), (r"^KyKzinv = ", "PcEigval"),
    (r"^tfftp = np\.zeros\(\(nlvls, nly, nlx\), dtype=np\.complex64\)$", "PcAlloc true"),
    (r"^tfftq = np\.zeros\(\(nlvls, nly, nlx\), dtype=np\.complex64\)$", "PcAlloc true"),
    (r"^tfftp = np\.zeros\(\(nlvls, nly, nlx\), dtype=np\.complex128\)$", "PcAlloc false"),
    (r"^tfftq = np\.zeros\(\(nlvls, nly, nlx\), dtype=np\.complex128\)$", "PcAlloc false"),
    (r"^tfftq\[:, 0, 0\] = tfftq0\[0, 0\]$", "PcMeanQ"),
    (r"^tfftp\[0, msk\] = tfftq0\[msk\] \* Kzinv / eigval$", "PcAnP0"),
    (r"^tfftp\[0, msk\] = alpha$", "PcAlpha0"),
    (r"^\(?tfftp1, tfftq1, tfftpm1, tfftqm1\)? = ivp_solver\(\(one, zero\), profiles, z, levels, Lx\[msk\], Ly\[msk\]\)$", "PcIvp1"),
    (r"^\(?tfftp2, tfftq2, tfftpm2, tfftqm2\)? = ivp_solver\(\(zero, tfftq0\[msk\]\), profiles, z, levels, Lx\[msk\], Ly\[msk\]\)$", "PcIvp2"),
    (r"^tfftp = (tfftp \* shift|shift \* tfftp)$", "SHIFT"), (r"^tfftq = (tfftq \* shift|shift \* tfftq)$", "SHIFT"),
    (r"^dz = np\.diff\(z\)$", "PcDiffZ"),
    (r"^\(?u, v, Kx, Ky, Kz\)? = profiles$", "PcUnpackProfiles"),
    (r"^tfftq0 = np\.ones\(\(nly, nlx\), dtype=np\.complex128\) / nxe / nye$", "PcSrcOnes"),
]
MEMBERS = {"PcFreq": 4, "PcMask": 2, "PcOneZero": 2, "PcEigval": 4, "PcAlloc true": 2, "PcAlloc false": 2,
           "PcShiftFp": 3, "PcShiftCtr": 3}
PLUMB_CALLS = {"fft2", "ifft2", "fftshift", "ifftshift", "np.pad"}


def _err(node, why):
    txt = ast.unparse(node) if isinstance(node, ast.AST) else str(node)
    raise TranslateError("solver top level: %s (line %s): %s" % (why, getattr(node, "lineno", "?"), " ".join(txt.split())[:160]))


def _is_doc(st):
    return isinstance(st, ast.Expr) and isinstance(st.value, ast.Constant) and isinstance(st.value.value, str)


def _is_logging(st):
    if isinstance(st, ast.Expr) and isinstance(st.value, ast.Call):
        f = st.value.func
        return isinstance(f, ast.Attribute) and isinstance(f.value, ast.Name) and f.value.id == "logger"
    return False


def _callee(node):
    f = node.func
    if isinstance(f, ast.Name):
        return f.id
    if isinstance(f, ast.Attribute) and isinstance(f.value, ast.Name):
        return f.value.id + "." + f.attr
    return None


def _names(node):
    return {n.id for n in ast.walk(node) if isinstance(n, ast.Name)}


# ------------------------------------------------------------------------------------------ symbolic values
# ("C", term) scalar; ("Z", term) Python int; ("B", term) boolean; ("tuple", [..]); ("src",) the unpadded source;
# ("z",) ("profiles",) ("levels_raw",) ("levels",) ("prec",) ("cache",) ("halo_raw",) arguments; ("lin", ..) a
# np.linspace array; ("zlev",) z[levels]; ("meshout", k) an output of the final meshgrid; ("sq", v) np.squeeze(v);
# ("arr",) an array this translator does not interpret (it belongs to a piece); ("unbound",)

def as_c(v, node):
    if v[0] == "C":
        return v[1]
    if v[0] == "Z":
        return "(TofZ %s)" % v[1]
    if v[0] == "halo_raw":
        return "(TC CaHalo)"
    _err(node, "a scalar is expected here, found %s" % v[0])


def as_z(v, node):
    if v[0] == "Z":
        return v[1]
    _err(node, "a Python int is expected here, found %s" % v[0])


def as_b(v, node):
    if v[0] == "B":
        return v[1]
    if v[0] == "Z":  # truth value of an int
        return "(TBnot (TBZeq %s (TZc 0)))" % v[1]
    _err(node, "a condition is expected here, found %s" % v[0])


class Top:
    def __init__(self, fn, src, slice_of, mean_ids):
        self.fn, self.src = fn, src
        self.slice_of = slice_of      # id(assign-statement or value node) -> slice name
        self.mean_ids = mean_ids      # ids of the statements of the mean-mode block
        self.steps = []               # (guard term, step term, comment)
        self.account = {}             # category -> number of statements
        self.members = {}             # (piece, guard) -> members seen
        self.shift_piece = None
        self.after_alloc = False
        self.back_emitted = False
        self.src_fwd_guard = None
        self.named = {}               # name -> (type, term) extra definitions
        self.result = None
        self.cache_blocks = 0
        self.dead = False
        self.nbind = {}
        p = [a.arg for a in fn.args.args]
        want = ["srf_flx", "z", "profiles", "domain", "levels", "modes", "meas_pt", "srf_bg_conc", "footprint", "analytic",
                "halo", "precision", "cache"]
        if p != want or fn.args.vararg or fn.args.kwarg or fn.args.kwonlyargs or fn.args.posonlyargs:
            _err(fn, "the parameter list differs from the one the model's arguments stand for")
        self.env = {
            "srf_flx": ("src",), "z": ("z",), "profiles": ("profiles",), "levels": ("levels_raw",), "precision": ("prec",),
            "cache": ("cache",), "halo": ("halo_raw",),
            "domain": ("tuple", [("C", "(TC CaXmx)"), ("C", "(TC CaYmx)")]),
            "modes": ("tuple", [("Z", "(TZ ZaNlx)"), ("Z", "(TZ ZaNly)")]),
            "meas_pt": ("tuple", [("C", "(TC CaXm)"), ("C", "(TC CaYm)")]),
            "srf_bg_conc": ("C", "(TC CaP000)"), "footprint": ("B", "(TB BaFootprint)"), "analytic": ("B", "(TB BaAnalytic)"),
        }

    # ------------------------------------------------------------------ expressions
    def lit(self, node):
        v = node.value
        if isinstance(v, bool):
            return ("B", "(TBc %s)" % ("true" if v else "false"))
        if isinstance(v, int):
            return ("Z", "(TZc (%d))" % v)
        if isinstance(v, float):
            seg = ((ast.get_source_segment(self.src, node) if self.src else None) or repr(v)).replace("_", "")
            fr = Fraction(seg)
            return ("C", "(TQ (%d) (%d))" % (fr.numerator, fr.denominator))
        _err(node, "literal outside the accepted fragment")

    def ev(self, node):
        if isinstance(node, ast.Constant):
            if node.value is None:
                return ("none",)
            if isinstance(node.value, str):
                return ("str", node.value)
            return self.lit(node)
        if isinstance(node, ast.Name):
            v = self.env.get(node.id)
            if v is None:
                _err(node, "name %s is not bound to anything the top-level translator follows" % node.id)
            return v
        if isinstance(node, ast.Tuple):
            return ("tuple", [self.ev(e) for e in node.elts])
        if isinstance(node, ast.UnaryOp):
            if isinstance(node.op, ast.USub):
                v = self.ev(node.operand)
                if v[0] == "Z":
                    return ("Z", "(TZSub (TZc 0) %s)" % v[1])
                return ("C", "(TNeg %s)" % as_c(v, node))
            if isinstance(node.op, ast.Not):
                return ("B", "(TBnot %s)" % as_b(self.ev(node.operand), node))
            _err(node, "unary operator")
        if isinstance(node, ast.BoolOp):
            vs = [as_b(self.ev(v), node) for v in node.values]
            c = "TBor" if isinstance(node.op, ast.Or) else "TBand"
            t = vs[-1]
            for x in reversed(vs[:-1]):
                t = "(%s %s %s)" % (c, x, t)
            return ("B", t)
        if isinstance(node, ast.BinOp):
            l, r = self.ev(node.left), self.ev(node.right)
            op = type(node.op)
            if op is ast.Pow:
                e = node.right
                if isinstance(e, ast.Constant) and type(e.value) is int and 1 <= e.value <= 4:
                    if l[0] == "Z":
                        t = l[1]
                        for _ in range(e.value - 1):
                            t = "(TZMul %s %s)" % (t, l[1])
                        return ("Z", t)
                    c = as_c(l, node)
                    t = c
                    for _ in range(e.value - 1):
                        t = "(TMul %s %s)" % (t, c)
                    return ("C", t)
                _err(node, "power with an exponent that is not a small integer literal")
            if op in (ast.FloorDiv, ast.Mod):
                return ("Z", "(%s %s %s)" % ("TZFloorDiv" if op is ast.FloorDiv else "TZMod", as_z(l, node), as_z(r, node)))
            if op is ast.Div:
                return ("C", "(TDiv %s %s)" % (as_c(l, node), as_c(r, node)))
            if op in (ast.Add, ast.Sub, ast.Mult):
                if l[0] == "Z" and r[0] == "Z":
                    return ("Z", "(%s %s %s)" % ({ast.Add: "TZAdd", ast.Sub: "TZSub", ast.Mult: "TZMul"}[op], l[1], r[1]))
                return ("C", "(%s %s %s)" % ({ast.Add: "TAdd", ast.Sub: "TSub", ast.Mult: "TMul"}[op], as_c(l, node), as_c(r, node)))
            _err(node, "binary operator %s" % op.__name__)
        if isinstance(node, ast.Compare):
            if len(node.ops) != 1:
                _err(node, "chained comparison")
            op = type(node.ops[0])
            ln, rn = node.left, node.comparators[0]
            # np.ndim(levels) == 0
            if op is ast.Eq and isinstance(ln, ast.Call) and _callee(ln) == "np.ndim" and len(ln.args) == 1 and not ln.keywords \
                    and self.ev(ln.args[0]) == ("levels_raw",) and isinstance(rn, ast.Constant) and rn.value == 0 and type(rn.value) is int:
                return ("B", "(TB BaLevelsScalar)")
            l, r = self.ev(ln), self.ev(rn)
            if op in (ast.Is, ast.IsNot):
                if l == ("halo_raw",) and r == ("none",):
                    t = "(TB BaHaloNone)"
                    return ("B", t if op is ast.Is else "(TBnot %s)" % t)
                _err(node, "identity test other than `halo is None` on the unchanged argument")
            if l == ("prec",) and r[0] == "str" and op in (ast.Eq, ast.NotEq):
                if r[1] not in ("single", "double"):
                    _err(node, "precision is compared with a string the model does not know")
                t = "(TB %s)" % {"single": "BaPrecSingle", "double": "BaPrecDouble"}[r[1]]
                return ("B", t if op is ast.Eq else "(TBnot %s)" % t)
            if l[0] == "Z" and r[0] == "Z":
                a, b = l[1], r[1]
                tab = {ast.Gt: "(TBZlt %s %s)" % (b, a), ast.Lt: "(TBZlt %s %s)" % (a, b), ast.GtE: "(TBZle %s %s)" % (b, a),
                       ast.LtE: "(TBZle %s %s)" % (a, b), ast.Eq: "(TBZeq %s %s)" % (a, b), ast.NotEq: "(TBnot (TBZeq %s %s))" % (a, b)}
                if op in tab:
                    return ("B", tab[op])
            elif l[0] in ("C", "Z", "halo_raw") and r[0] in ("C", "Z", "halo_raw"):
                a, b = as_c(l, node), as_c(r, node)
                tab = {ast.Gt: "(TBClt %s %s)" % (b, a), ast.Lt: "(TBClt %s %s)" % (a, b)}
                if op in tab:
                    return ("B", tab[op])
            _err(node, "comparison outside the accepted fragment")
        if isinstance(node, ast.Attribute):
            if node.attr == "shape":
                if self.ev(node.value) == ("src",):
                    return ("tuple", [("Z", "(TZ ZaRows)"), ("Z", "(TZ ZaCols)")])
                _err(node, ".shape of something other than the unpadded source")
            _err(node, "attribute")
        if isinstance(node, ast.Subscript):
            v = self.ev(node.value)
            sl = node.slice
            if v[0] == "tuple":
                if isinstance(sl, ast.Constant) and type(sl.value) is int and -len(v[1]) <= sl.value < len(v[1]):
                    return v[1][sl.value]
                if isinstance(sl, ast.Slice) and sl.lower is None and sl.upper is None and isinstance(sl.step, ast.UnaryOp) \
                        and isinstance(sl.step.op, ast.USub) and getattr(sl.step.operand, "value", None) == 1:
                    return ("tuple", list(reversed(v[1])))
                _err(node, "index of a tuple")
            if v == ("z",) and isinstance(sl, ast.Name) and self.ev(sl)[0] in ("levels", "levels_raw"):
                if self.ev(sl) != ("levels",):
                    _err(node, "z[levels] before the scalar-levels normalisation")
                return ("zlev",)
            _err(node, "subscript outside the accepted fragment")
        if isinstance(node, ast.Call):
            return self.call(node)
        _err(node, "expression outside the accepted fragment")

    def call(self, node):
        f = _callee(node)
        a = node.args
        if f == "int" and len(a) == 1 and not node.keywords:
            v = self.ev(a[0])
            return v if v[0] == "Z" else ("Z", "(TZTrunc %s)" % as_c(v, node))
        if f in ("float", "np.float64") and len(a) == 1 and not node.keywords:
            return ("C", as_c(self.ev(a[0]), node))
        if f == "max" and not node.keywords:
            vs = [self.ev(x) for x in a]
            if len(vs) == 1 and vs[0][0] == "tuple":
                vs = vs[0][1]
            if len(vs) == 2:
                if vs[0][0] == "Z" and vs[1][0] == "Z":
                    return ("Z", "(TZIte (TBZlt %s %s) %s %s)" % (vs[0][1], vs[1][1], vs[1][1], vs[0][1]))
                return ("C", "(TMax %s %s)" % (as_c(vs[0], node), as_c(vs[1], node)))
        if f == "len" and len(a) == 1 and not node.keywords:
            v = self.ev(a[0])
            if v == ("z",):
                return ("Z", "(TZ ZaLenZ)")
            if v == ("levels",):
                return ("Z", "(TZ ZaNlvls)")
            if v == ("levels_raw",):
                _err(node, "len(levels) before the scalar-levels normalisation")
        if f == "np.linspace":
            kw = {k.arg: k.value for k in node.keywords}
            if None in kw or set(kw) - {"num", "endpoint"} or not 2 <= len(a) <= 3 or (len(a) == 3) == ("num" in kw):
                _err(node, "np.linspace(start, stop, num, endpoint=...) expected")
            num = a[2] if len(a) == 3 else kw["num"]
            ep = True
            if "endpoint" in kw:
                if not (isinstance(kw["endpoint"], ast.Constant) and isinstance(kw["endpoint"].value, bool)):
                    _err(node, "endpoint must be a literal")
                ep = kw["endpoint"].value
            return ("lin", "(mkLin %s %s %s %s)" % (as_c(self.ev(a[0]), node), as_c(self.ev(a[1]), node), as_z(self.ev(num), node),
                                                   "true" if ep else "false"))
        if f == "np.squeeze" and len(a) == 1 and not node.keywords:
            return ("sq", self.ev(a[0]))
        if f == "np.meshgrid" and len(a) == 3:
            kw = {k.arg: k.value for k in node.keywords}
            if set(kw) - {"indexing"}:
                _err(node, "np.meshgrid keyword")
            ij = False
            if "indexing" in kw:
                if not (isinstance(kw["indexing"], ast.Constant) and kw["indexing"].value in ("ij", "xy")):
                    _err(node, "indexing must be 'ij' or 'xy'")
                ij = kw["indexing"].value == "ij"
            ins = []
            for x in a:
                v = self.ev(x)
                if v == ("zlev",):
                    self.step("SIndexLevels", "z[levels]")
                    ins.append("MZlev")
                elif v[0] == "lin":
                    ins.append("(MLin %s)" % v[1])
                else:
                    _err(node, "np.meshgrid argument is neither z[levels] nor a np.linspace array")
            self.mesh = (ins, ij)
            return ("tuple", [("meshout", k) for k in range(3)])
        _err(node, "call outside the accepted fragment")

    # ------------------------------------------------------------------ steps
    def guard(self):
        g = [x for x in self.guards]
        if not g:
            return "(TBc true)"
        t = g[-1]
        for x in reversed(g[:-1]):
            t = "(TBand %s %s)" % (x, t)
        return t

    def step(self, term, comment):
        self.steps.append((self.guard(), term, comment))

    def count(self, cat, n=1):
        self.account[cat] = self.account.get(cat, 0) + n

    def member(self, piece, st, cat):
        """a statement that belongs to `piece`; the piece runs when all its member statements have been executed"""
        self.count(cat)
        need = MEMBERS.get(piece, 1)
        key = (piece, self.guard())
        self.members[key] = self.members.get(key, 0) + 1
        if self.members[key] == need:
            self.step("SPiece (%s)" % piece if " " in piece else "SPiece %s" % piece, " ".join(ast.unparse(st).split())[:90])
        elif self.members[key] > need:
            _err(st, "piece %s has more statements than the model knows" % piece)

    # ------------------------------------------------------------------ statements
    def bind(self, node, name, v):
        self.nbind[name] = self.nbind.get(name, 0) + 1
        self.env[name] = v

    def assign_names(self, st, targets, v):
        if len(targets) == 1:
            self.bind(st, targets[0], v)
            return
        if v[0] != "tuple" or len(v[1]) != len(targets):
            _err(st, "tuple assignment of something that is not a tuple of %d known values" % len(targets))
        for n, x in zip(targets, v[1]):
            self.bind(st, n, x)

    def is_plumbing(self, st):
        if not (isinstance(st, ast.Assign) and len(st.targets) == 1 and isinstance(st.targets[0], ast.Name)):
            return False
        v = st.value
        if isinstance(v, ast.Attribute) and v.attr == "real":
            v = v.value
        if isinstance(v, ast.Call) and _callee(v) in PLUMB_CALLS:
            return True
        if isinstance(v, ast.Subscript) and isinstance(v.slice, ast.Tuple) and all(isinstance(e, ast.Slice) for e in v.slice.elts):
            return True
        return False

    def stmt(self, st):
        if self.dead:
            _err(st, "statement after return / raise")
        if _is_doc(st) or _is_logging(st) or isinstance(st, ast.Pass):
            return self.count("logging/docstring")
        if id(st) in self.mean_ids:
            if self.mean_ids[id(st)] == 0:
                self.member("PcMeanMode", st, "kernel region")
            else:
                self.count("kernel region")
            return
        if isinstance(st, ast.If):
            return self.if_(st)
        if isinstance(st, ast.Raise):
            return self.raise_(st)
        if isinstance(st, ast.Return):
            if st.value is None:
                _err(st, "bare return")
            self.result = self.ev(st.value)
            self.dead = True
            return self.count("top-level step")
        if isinstance(st, ast.Assign) and len(st.targets) == 1:
            return self.assign(st)
        _err(st, "statement form outside the accepted fragment (%s)" % type(st).__name__)

    def assign(self, st):
        t = st.targets[0]
        text = " ".join(ast.unparse(st).split())
        # --- statements a slice bridges
        sl = self.slice_of.get(id(st))
        if sl in SLICE_PIECE:
            piece = SLICE_PIECE[sl]
            if sl == "an_h":
                if self.env.get("levels") != ("levels",):
                    _err(st, "z[levels] before the scalar-levels normalisation")
                self.step("SIndexLevels", "z[levels] in " + text[:60])
            if piece in ("PcShiftFp", "PcShiftCtr"):
                self.shift_piece = piece
            for n in ([t.id] if isinstance(t, ast.Name) else []):
                self.bind(st, n, ("arr",))
            return self.member(piece, st, "slice")
        # --- the np.pad of the source
        if isinstance(t, ast.Name) and isinstance(st.value, ast.Call) and _callee(st.value) == "np.pad" and st.value.args \
                and isinstance(st.value.args[0], ast.Name) and self.env.get(st.value.args[0].id) == ("src",):
            w = st.value.args[1] if len(st.value.args) == 2 else None
            if not (isinstance(w, ast.Tuple) and len(w.elts) == 2 and all(isinstance(p, ast.Tuple) and len(p.elts) == 2 for p in w.elts)):
                _err(st, "np.pad(source, ((ylo, yhi), (xlo, xhi)), ...) expected")
            ws = [as_z(self.ev(e), st) for p in w.elts for e in p.elts]
            for nm, x in zip(("ylo", "yhi", "xlo", "xhi"), ws):
                self.named["gen_top_pad_" + nm] = ("tzexp", x)
            self.step("SPadSource gen_top_pad_ylo gen_top_pad_yhi gen_top_pad_xlo gen_top_pad_xhi", text[:90])
            self.bind(st, t.id, ("arr",))
            return self.count("plumbing statement")
        # --- members of pieces recognised by their text
        for pat, piece in TEXT_PIECE:
            if re.search(pat, text):
                if piece == "SHIFT":
                    if self.shift_piece is None:
                        _err(st, "multiplication by shift before shift is computed")
                    piece = self.shift_piece
                    cat = "plumbing statement"
                elif piece in ("PcSrcOnes",):
                    cat = "plumbing statement"
                elif piece == "PcEigval":
                    cat = "slice"
                else:
                    cat = "piece statement"
                if piece.startswith("PcAlloc"):
                    self.after_alloc = True
                for n in ([t.id] if isinstance(t, ast.Name) else [e.id for e in t.elts] if isinstance(t, ast.Tuple) else []):
                    self.bind(st, n, ("arr",))
                return self.member(piece, st, cat)
        # --- tfftp[0, 0, 0] = <the background concentration>
        if isinstance(t, ast.Subscript) and ast.unparse(t) == "tfftp[0, 0, 0]":
            if self.ev(st.value) != ("C", "(TC CaP000)"):
                _err(st, "tfftp[0, 0, 0] receives something other than srf_bg_conc")
            return self.member("PcPresetP", st, "piece statement")
        # --- other plumbing statements (py2coq_plumbing follows their data flow)
        if self.is_plumbing(st):
            self.count("plumbing statement")
            self.bind(st, t.id, ("arr",))
            if not self.after_alloc:
                if self.src_fwd_guard not in (None, self.guard()):
                    _err(st, "the forward pipeline of the source is spread over several branches")
                self.src_fwd_guard = self.guard()
                self.src_fwd_last = len(self.steps)
            elif not self.back_emitted:
                self.back_emitted = True
                self.step("SPiece PcBack", "from: " + text[:80])
            return
        # --- scalar / index / coordinate statements interpreted here
        if isinstance(t, ast.Name):
            names = [t.id]
        elif isinstance(t, ast.Tuple) and all(isinstance(e, ast.Name) for e in t.elts):
            names = [e.id for e in t.elts]
        else:
            _err(st, "store that no translator accounts for")
        v = self.ev(st.value)
        if v[0] == "tuple" and len(names) == 1 and all(x[0] == "sq" or x[0] == "tuple" for x in v[1]):
            pass
        self.assign_names(st, names, v)
        self.count("top-level step")

    def raise_(self, st):
        e = st.exc
        if not (isinstance(e, ast.Call) and _callee(e) == "ValueError"):
            _err(st, "raise of something other than ValueError(...)")
        g = self.guard()
        if "BaPrec" in g and "ZaNl" not in g:
            err = "TBadPrecision"
        elif "ZaNl" in g and "BaPrec" not in g and all(x not in g for x in ("ZaRows", "ZaCols", "CaHalo", "TZTrunc")):
            err = "(TErr ModesOdd)"
            self.named["gen_top_c_modes"] = ("tbexp", self.guards[-1])
            self.guards_named = True
            g = self.guard_with_last("gen_top_c_modes")
        else:
            _err(st, "a raise under a condition the model has no error for")
        self.steps.append((g, "SRaiseIf %s" % err, " ".join(ast.unparse(st).split())[:80]))
        self.dead = True
        self.count("top-level step")

    def guard_with_last(self, name):
        g = list(self.guards[:-1]) + [name]
        t = g[-1]
        for x in reversed(g[:-1]):
            t = "(TBand %s %s)" % (x, t)
        return t

    def if_(self, st):
        names = _names(st.test)
        # the cache block (C15)
        if "cache" in names:
            n = sum(1 for x in ast.walk(st) if isinstance(x, ast.stmt))
            self.count("cache block", n)
            self.cache_blocks += 1
            if self.cache_blocks > 2 or self.guards:
                _err(st, "a third cache block / a cache block under a condition")
            for x in ast.walk(st):
                if isinstance(x, ast.Name) and isinstance(x.ctx, ast.Store) and x.id in self.env and x.id not in ("cached", "cache_extra"):
                    _err(st, "the cache block re-binds a name the solver uses")
            self.steps.append(("(TBc true)", "SPiece %s" % ("PcCacheGet" if self.cache_blocks == 1 else "PcCachePut"), "cache block"))
            return
        # the thread set-up block (C12)
        if "config" in names:
            stores = {x.id for x in ast.walk(st) if isinstance(x, ast.Name) and isinstance(x.ctx, ast.Store)}
            calls = {_callee(x) for x in ast.walk(st) if isinstance(x, ast.Call)}
            if stores or not calls <= {"set_num_threads", "get_fft_manager", "logger.info"} or any(isinstance(x, (ast.Return, ast.Raise)) for x in ast.walk(st)):
                _err(st, "the thread set-up block does more than set_num_threads / get_fft_manager")
            self.count("thread set-up", sum(1 for x in ast.walk(st) if isinstance(x, ast.stmt)))
            return self.member("PcThreads", st, "thread set-up")
        # the scalar-levels normalisation
        sl = self.slice_of.get(id(st.test))
        if sl == "recentre_guard":
            c = "(TB BaRecentre)"
        else:
            c = as_b(self.ev(st.test), st.test)
        if c == "(TB BaLevelsScalar)":
            ok = (len(st.body) == 1 and not st.orelse and isinstance(st.body[0], ast.Assign)
                  and " ".join(ast.unparse(st.body[0]).split()) == "levels = np.array([levels])" and self.env["levels"] == ("levels_raw",))
            if not ok:
                _err(st, "the scalar-levels normalisation is not `levels = np.array([levels])`")
            self.guards.append(c)
            self.step("SLevelsNorm", "levels = np.array([levels])")
            self.guards.pop()
            self.env["levels"] = ("levels",)
            return self.count("top-level step", 2)
        self.count("top-level step")
        env0 = dict(self.env)
        arms = []
        for cond, body in ((c, st.body), ("(TBnot %s)" % c, st.orelse)):
            self.env = dict(env0)
            self.guards.append(cond)
            dead0 = self.dead
            for s in body:
                self.stmt(s)
            arms.append((self.env, self.dead))
            self.dead = dead0
            self.guards.pop()
        (ea, da), (eb, db) = arms
        if da and db:
            self.dead = True
            return
        if da or db:
            self.env = eb if da else ea
            return
        m = {}
        for k in set(ea) | set(eb):
            va, vb = ea.get(k, ("unbound",)), eb.get(k, ("unbound",))
            if va == vb:
                m[k] = va
            elif va[0] == vb[0] and va[0] in ("C", "Z", "B"):
                m[k] = (va[0], "(%s %s %s %s)" % ({"C": "TIte", "Z": "TZIte", "B": "TBITE"}[va[0]], c, va[1], vb[1]))
                if va[0] == "B":
                    _err(st, "a boolean is re-bound conditionally")
            elif {va[0], vb[0]} <= {"halo_raw", "C", "Z"}:
                m[k] = ("C", "(TIte %s %s %s)" % (c, as_c(va, st), as_c(vb, st)))
            elif va[0] == "arr" and vb[0] == "arr":
                m[k] = ("arr",)
            else:
                m[k] = ("unbound",)
        self.env = m

    def run(self):
        self.guards = []
        for st in self.fn.body:
            self.stmt(st)
        if not self.dead or self.result is None:
            _err(self.fn, "the function does not end in `return <result>`")
        if self.src_fwd_guard is None:
            _err(self.fn, "no forward pipeline of the source found")
        # the forward pipeline runs when its last statement has been executed
        self.steps.insert(self.src_fwd_last, (self.src_fwd_guard, "SPiece PcSrcFwd", "fft2 -> fftshift -> slice -> ifftshift of the padded source"))
        for (piece, g), n in self.members.items():
            if n != MEMBERS.get(piece, 1):
                _err(self.fn, "piece %s: %d of its %d statements found" % (piece, n, MEMBERS.get(piece, 1)))


GEOM_NAMES = ["nx", "ny", "nz", "nlvls", "dx", "dy", "px", "py", "nxe", "nye", "nlx", "nly", "dlx", "dly"]
GEOM_KIND = {"dx": "C", "dy": "C"}


def _slice_map(fn):
    """id(statement) / id(if-test) -> name of the slice of harness/solverslices.py that bridges it (same counting
    of (target, occurrence) as harness/skeleton.py)"""
    import solverslices
    import skeleton  # noqa: F401  (same conventions)
    slices = [sl for sl in solverslices.SLICES + solverslices.ZSLICES if sl["func"] == SST]
    by_target = {}
    for sl in slices:
        if "target" in sl and not sl.get("path"):
            by_target[(sl["target"], sl.get("occ", 0))] = sl["name"]
    iftests = [(re.compile(sl["iftest"]), sl["name"]) for sl in slices if sl.get("iftest")]
    out, count = {}, {}

    def visit(stmts):
        for st in stmts:
            if isinstance(st, ast.Assign) and len(st.targets) == 1:
                t = st.targets[0]
                pairs = list(zip(t.elts, st.value.elts)) if isinstance(t, ast.Tuple) and isinstance(st.value, ast.Tuple) and len(t.elts) == len(st.value.elts) else [(t, st.value)]
                for a, b in pairs:
                    nm = a.id if isinstance(a, ast.Name) else ast.unparse(a)
                    k = count.get(nm, -1) + 1
                    count[nm] = k
                    if (nm, k) in by_target and len(pairs) == 1:
                        out[id(st)] = by_target[(nm, k)]
            elif isinstance(st, ast.If):
                txt = ast.unparse(st.test)
                for pat, name in iftests:
                    if pat.search(txt):
                        out[id(st.test)] = name
                        break
                visit(st.body)
                visit(st.orelse)
            elif isinstance(st, (ast.For, ast.While)):
                visit(st.body)
                visit(st.orelse)
    visit(fn.body)
    return out


def analyse(solver_py):
    import py2coq
    import py2coq_kernel
    src = open(solver_py).read()
    import astnorm
    tree = astnorm.parse_file(solver_py)  # same reading of the module as the slices and the skeleton (harness/astnorm.py)
    fn = py2coq.find_function(tree, SST)
    try:
        _, block = py2coq_kernel.find_mean_block(fn)
    except Exception as e:
        raise TranslateError("solver top level: mean-mode block not located (%s)" % e)
    mean_ids = {id(s): k for k, s in enumerate(block)}
    top = Top(fn, src, _slice_map(fn), mean_ids)
    top.run()
    return top


def translate(solver_py):
    top = analyse(solver_py)
    L = ["(* generated by harness/py2coq_solvertop.py from bldfm/solver.py -- do not edit *)",
         "From Coq Require Import ZArith List Bool.",
         "From BL Require Import Base.Ops Model.Solver Model.SolverTop.",
         "Import ListNotations.",
         "Open Scope Z_scope.",
         ""]
    for nm in ("gen_top_c_modes", "gen_top_pad_ylo", "gen_top_pad_yhi", "gen_top_pad_xlo", "gen_top_pad_xhi"):
        if nm not in top.named:
            raise TranslateError("solver top level: %s not found (the parity check of the modes / the np.pad of the source)" % nm)
        L.append("Definition %s : %s := %s." % (nm, top.named[nm][0], top.named[nm][1]))
    for nm in GEOM_NAMES:
        v = top.env.get(nm, ("unbound",))
        kind = GEOM_KIND.get(nm, "Z")
        if v[0] != kind:
            raise TranslateError("solver top level: at the end of the function %s is not a known %s expression (%s)" % (nm, "scalar" if kind == "C" else "index", v[0]))
        L.append("Definition gen_top_%s : %s := %s." % (nm, "texp" if kind == "C" else "tzexp", v[1]))
    L.append("Definition gen_top_steps : list (tbexp * tstep) :=\n  [" + ";\n   ".join(
        "(%s, %s) (* %s *)" % (g, s, c.replace("(*", "( *").replace("*)", "* )")) for g, s, c in top.steps) + "].")
    # the result
    r = top.result
    if not (r[0] == "tuple" and len(r[1]) == 3 and r[1][0][0] == "tuple" and r[1][1][0] == "sq" and r[1][2][0] == "sq"
            and r[1][1][1] == ("arr",) and r[1][2][1] == ("arr",)):
        raise TranslateError("solver top level: the result is not (grid, np.squeeze(conc), np.squeeze(flx))")
    grid = []
    for x in r[1][0][1]:
        sq = x[0] == "sq"
        y = x[1] if sq else x
        if y[0] != "meshout":
            raise TranslateError("solver top level: the grid tuple holds something that is not an output of np.meshgrid")
        grid.append("(%d, %s)" % (y[1], "true" if sq else "false"))
    ins, ij = top.mesh
    L.append("Definition gen_top_mesh_in : list mesh_in :=\n  [%s]." % ";\n   ".join(ins))
    L.append("Definition gen_top_grid : list (nat * bool) := [%s]%%nat." % "; ".join(grid))
    L.append("Definition gen_solver_top : top_desc :=\n  mkTopDesc gen_top_steps " + " ".join("gen_top_" + n for n in GEOM_NAMES)
             + "\n    gen_top_mesh_in %s gen_top_grid true true." % ("true" if ij else "false"))
    L.append("")
    return "\n".join(L), top


ELIDED = "<top level translated: GenSolverTop.gen_solver_top>"


def elide(tree):
    """{id(stmt): placeholder} for harness/skeleton.py: the statements this translator INTERPRETS (scalar / index /
    coordinate statements, raises, the conditionals around them); references to pieces stay visible in the skeleton"""
    import py2coq
    import py2coq_kernel
    fn = py2coq.find_function(tree, SST)
    _, block = py2coq_kernel.find_mean_block(fn)
    top = Top(fn, None, _slice_map(fn), {id(s): k for k, s in enumerate(block)})
    out = {}
    orig_count = top.count
    current = []

    def count(cat, n=1):
        if cat == "top-level step" and current:
            out[id(current[-1])] = ELIDED
        orig_count(cat, n)
    top.count = count
    orig_stmt = top.stmt

    def stmt(st):
        current.append(st)
        try:
            orig_stmt(st)
        finally:
            current.pop()
    top.stmt = stmt
    top.run()
    # a conditional is elided only when everything inside it is
    def all_elided(st):
        if isinstance(st, ast.If):
            return id(st) in out and all(all_elided(s) or _is_logging(s) or _is_doc(s) for s in st.body + st.orelse)
        return id(st) in out
    for st in ast.walk(fn):
        if isinstance(st, ast.If) and id(st) in out and not all_elided(st):
            del out[id(st)]
    return out


TRUSTED = [
    "harness/py2coq_solvertop.py (fail-closed `ast` translator of the top level of steady_state_transport_solver -> GenSolverTop.v): its symbolic "
    "reading of the scalar fragment (Python ints are Z with floor division / modulo, floats are elements of the abstract field, int() is Ops.ctrunc, "
    "max() is cmax, np.linspace(a, b, n, endpoint) is a + i*((b - a)/(n | n-1)), a conditional re-binding is a conditional expression, "
    "truth value of an int is != 0), its grouping of statements into the pieces of Model/SolverTop.v by the slice table and by statement text, and the "
    "interpreter run_top of Model/SolverTop.v (data dependencies `needs` / `not_after` between pieces; np.pad raises for a negative width; "
    "z[levels] raises IndexError for an entry >= len(z); np.meshgrid / np.squeeze as recorded)",
    "Bridge/SolverTopBridge.v: run_top gen_solver_top t = solve_top t for ALL arguments t (closed under the global context, no hypothesis), and "
    "Bridge/EndToEnd.v: C03 / C04 / C10 / C11 theorems restated about run_top gen_solver_top (hypothesis Laws O only)",
]
ASSUMPTIONS = [
    "solver top level: levels is a scalar or a 1-D sequence of non-negative ints; precision is a string; an empty level list / zero mode counts "
    "(IndexError at tfftp[0, 0, 0] = p000 in the code, an empty result in the model) are outside the bridge as before",
]


def run(ctx):
    """translate the current source, compile GenSolverTop.v, re-prove Bridge/SolverTopBridge.v and Bridge/EndToEnd.v
    against it, check that the bridge theorems are closed under the global context"""
    import core
    if getattr(ctx, "_solvertop_done", None) is not None:
        return ctx._solvertop_done
    try:
        text, top = translate(os.path.join(core.SRC, "bldfm", "solver.py"))
    except TranslateError as e:
        ctx.obligation("gen:GenSolverTop.v", False, "top-level translator failed closed: %s" % e)
        ctx._solvertop_done = False
        return False
    except Exception as e:  # fail closed on anything unforeseen
        ctx.obligation("gen:GenSolverTop.v", False, "top-level translator failed closed: %s: %s" % (type(e).__name__, e))
        ctx._solvertop_done = False
        return False
    ctx.cov["solver_top_level"] = {"statements_accounted_for": dict(top.account), "steps": len(top.steps)}
    for t in TRUSTED:
        if t not in ctx.trusted:
            ctx.trusted.append(t)
    for t in ASSUMPTIONS:
        if t not in ctx.assumptions:
            ctx.assumptions.append(t)
    ok = core.run_bridge(ctx, {"GenSolverTop.v": text}, ["SolverTopBridge.v"])
    if ok and os.path.exists(os.path.join(core.COQ, "Bridge", "EndToEnd.v")):
        ok = end_to_end(ctx)
    if ok:
        files = ["SolverTopBridge"] + (["EndToEnd"] if os.path.exists(os.path.join(core.COQ, "Bridge", "EndToEnd.v")) else [])
        names = []
        for f in files:
            src = core.strip_coq_comments(open(os.path.join(core.COQ, "Bridge", f + ".v")).read())
            names += re.findall(r"^\s*(?:Lemma|Theorem)\s+([\w']+)", src, re.M)
        ax = "".join("From Gen Require Import %s.\n" % f for f in files) + "".join(
            'Goal True. idtac "THEOREM %s". Abort. Print Assumptions %s.\n' % (n, n) for n in names)
        rc, o, e, dt = ctx.coqc(ctx.write("SolverTopBridgeAx.v", ax))
        got = core.parse_assumptions(o + "\n" + e)
        bad = ["%s: %s" % (n, sorted(got[n]) if isinstance(got.get(n), set) else got.get(n, "missing")) for n in names if got.get(n) != set()]
        ctx.obligation("closed:SolverTopBridge", rc == 0 and not bad,
                       "" if rc == 0 and not bad else "not closed under the global context: %s %s" % ("; ".join(bad), (o + e)[-600:] if rc else ""))
        ok = rc == 0 and not bad
    ctx._solvertop_done = ok
    return ok


E2E_THEOREMS = ["code_C11_shape_or_error", "code_error_order", "code_C11_refines_spec", "code_C03_flux_sum", "code_C03_footprint_mass",
                "code_C10_slice_is_level", "code_C04_linear"]


def end_to_end(ctx):
    """Bridge/EndToEnd.v: property theorems restated about the TRANSLATED CODE (run_top gen_solver_top), proved by rewriting
    with the bridges of this run; one obligation endtoend:<name> per theorem"""
    import core
    src = os.path.join(core.COQ, "Bridge", "EndToEnd.v")
    dst = ctx.write("EndToEnd.v", open(src).read())
    names = re.findall(r"^\s*(?:Lemma|Theorem)\s+([\w']+)", core.strip_coq_comments(open(src).read()), re.M)
    rc, out, err, dt = ctx.coqc(dst, timeout=600)
    for n in names:
        ctx.obligation("endtoend:" + n, rc == 0, "" if rc == 0 else (out + err)[-1200:])
    ctx.cov["solver_top_level"]["end_to_end_theorems"] = names
    return rc == 0


if __name__ == "__main__":
    import sys
    sys.path.insert(0, os.path.dirname(os.path.abspath(__file__)))
    t, top = translate(sys.argv[1] if len(sys.argv) > 1 else "/repo/src/bldfm/solver.py")
    print(t)
    print("(* accounting: %r *)" % top.account)
