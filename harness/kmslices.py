"""Slices of bldfm/ffm_kormann_meixner.py re-extracted on every run (tie B) for property C19 and the
bridge file Bridge/KMBridge.v that re-proves gen_x = Model.KM.x for all arguments.

The generated file GenKM.v is a Section with `Variable Gamma : R -> R` (scipy.special.gamma: the Gamma
function is defined in no installed Coq library) and imports BL.Model.KM only for `atan2`."""
import os

import core
import py2coq

KMFILE = lambda: os.path.join(core.SRC, "bldfm", "ffm_kormann_meixner.py")
FP = "estimateFootprint"
Z0 = "estimateZ0"
K = {"von_karman": "gen_von_karman"}

SLICES = [
    dict(name="von_karman", func="<module>", target="von_karman", params=[], unique=True),
    # ---- stability helpers: zeros_like + two masked assignments -> nested if on the sign of L
    dict(name="phiM", func="_phiM", kind="masked", target="phi_m", params=["zm", "mo_len"], signature=True, helper_for="_phiM"),
    dict(name="phiC", func="_phiC", kind="masked", target="phi_c", params=["zm", "mo_len"], signature=True, helper_for="_phiC"),
    dict(name="psiM", func="_psiM", kind="masked", target="psi_m", params=["zm", "mo_len"], inline=["inv_phi_m"], signature=True, helper_for="_psiM"),
    dict(name="nParam", func="_nParam", kind="masked", target="n", params=["zm", "mo_len"], signature=True, helper_for="_nParam"),
    dict(name="mParam", func="_mParam", target="m", params=["zm", "ws", "ustar", "mo_len"], inline=["phi_m", "k"], consts=K,
         signature=True, unique=True, helper_for="_mParam"),
    # ---- estimateFootprint: helper plumbing
    dict(name="fp_phi_m", func=FP, target="phi_m", params=["zm", "mo_len"], unique=True),
    dict(name="fp_phi_c", func=FP, target="phi_c", params=["zm", "mo_len"], unique=True),
    dict(name="fp_psi_m", func=FP, target="psi_m", params=["zm", "mo_len"], unique=True),
    dict(name="fp_m", func=FP, target="m", params=["zm", "ws", "ustar", "mo_len"], unique=True),
    dict(name="fp_n", func=FP, target="n", params=["zm", "mo_len"], unique=True),
    # ---- the chain kappa, U, r, mu, Xi, gmm, mr, A, num
    dict(name="kappa", func=FP, target="kappa", params=["zm", "ustar", "phi_c", "n"], inline=["k"], consts=K, unique=True),
    dict(name="U", func=FP, target="U", params=["ustar", "zm", "z0", "psi_m", "m"], inline=["k"], consts=K, unique=True),
    dict(name="U_negative", func=FP, kind="iftest", target="U < 0", returns="(grid_x, grid_y, grid_ffm)", params=["U"]),
    dict(name="r", func=FP, target="r", params=["m", "n"], unique=True),
    dict(name="mu", func=FP, target="mu", params=["m", "r"], unique=True),
    dict(name="Xi", func=FP, target="Xi", params=["U", "zm", "r", "kappa"], unique=True),
    dict(name="gmm", func=FP, target="gmm", params=["mu"], unique=True),
    dict(name="mr", func=FP, target="mr", params=["m", "r"], unique=True),
    dict(name="A", func=FP, target="A", params=["U", "r", "sigma_v", "kappa", "mr"], unique=True),
    dict(name="num", func=FP, target="num", params=["Xi", "mu"], unique=True),
    # ---- coordinates: wind-aligned grid (wd is None), shift, polar re-parametrisation
    dict(name="x_al", func=FP, target="x", occ=0, params=["grid_x", "mxy_0"]),
    dict(name="y_al", func=FP, target="y", occ=0, params=["grid_y", "mxy_1"]),
    dict(name="x_sh", func=FP, target="x", occ=1, params=["grid_x", "mxy_0"]),
    dict(name="y_sh", func=FP, target="y", occ=1, params=["grid_y", "mxy_1"]),
    dict(name="rho", func=FP, target="rho", params=["x", "y"], unique=True),
    dict(name="theta", func=FP, target="theta", params=["x", "y"], unique=True),
    dict(name="new_theta", func=FP, target="new_theta", params=["theta", "wd"], unique=True),
    dict(name="x_rot", func=FP, target="x", occ=2, params=["rho", "new_theta"]),
    dict(name="y_rot", func=FP, target="y", occ=2, params=["rho", "new_theta"]),
    dict(name="x_rot_full", func=FP, target="x", occ=2, inline=["rho", "theta", "new_theta", "x", "y"],
         params=["grid_x", "grid_y", "mxy_0", "mxy_1", "wd"]),
    dict(name="y_rot_full", func=FP, target="y", occ=2, inline=["rho", "theta", "new_theta", "x", "y"],
         params=["grid_x", "grid_y", "mxy_0", "mxy_1", "wd"]),
    # ---- the cell expression (zeros_like + masked assignment on x > 0), stepwise and fully inlined
    dict(name="cell", func=FP, kind="masked", target="grid_ffm",
         params=["grid_res", "num", "A", "x", "y", "mr", "mu", "Xi", "gmm"]),
    dict(name="cell_full", func=FP, kind="masked", target="grid_ffm",
         inline=["num", "A", "mr", "mu", "Xi", "gmm", "r", "kappa", "U", "m", "n", "phi_c", "psi_m", "phi_m", "k"], consts=K,
         params=["grid_res", "zm", "z0", "ws", "ustar", "mo_len", "sigma_v", "x", "y"]),
    # ---- estimateZ0
    dict(name="z0raw", func=Z0, target="z0", occ=0, params=["zm", "mo_len", "ws", "ustar"], inline=["psi_m", "k"], consts=K, unique=True),
    dict(name="z0_outlier", func=Z0, kind="cond", target="z0[z0 > 1000]", mask_of_target=True, params=["z0"]),
    dict(name="z0_nosmooth", func=Z0, kind="iftest", target="half_wd_win < 1", returns="z0", params=["half_wd_win"]),
    dict(name="wd_wrapped", func=Z0, kind="masked", target="wd_wrapped", params=["wd", "kk"]),
    dict(name="idx1", func=Z0, kind="cond", target="idx1", params=["wd", "kk"], unique=True),
    dict(name="idx2", func=Z0, kind="cond", target="idx2", params=["wd_wrapped", "kk", "half_wd_win"], unique=True),
]


def generate():
    return py2coq.translate(KMFILE(), SLICES, "R", ssa=True, section_vars=[("Gamma", "R -> R")],
                            prelude="From BL Require Import Model.KM.\n", section_name="GenKM")


def run(ctx):
    import skeleton
    nm = skeleton.slice_names([sl for sl in SLICES if sl["func"] != "<module>"])
    skeleton.check_names(ctx, "km", KMFILE(), ["_phiM", "_phiC", "_psiM", "_nParam", "_mParam", FP, Z0], nm)
    try:
        text = generate()
    except py2coq.TranslateError as e:
        ctx.obligation("gen:GenKM.v", False, "slice translator failed closed: %s" % e)
        return False
    ctx.cov["slices_translated"] = ctx.cov.get("slices_translated", 0) + len(SLICES)
    return core.run_bridge(ctx, {"GenKM.v": text}, ["KMBridge.v"])
