"""Slices of bldfm/ffm_kormann_meixner.py re-extracted on every run (tie B) for property C19 and the
bridge file Bridge/KMBridge.v that re-proves gen_x = Model.KM.x for all arguments.

The generated file GenKM.v is a Section with `Variable Gamma : R -> R` (scipy.special.gamma: the Gamma
function is defined in no installed Coq library) and imports BL.Model.KM only for `atan2`."""
import os

import core
import py2coq

KMFILE = lambda: os.path.join(core.SRC, "bldfm", "ffm_kormann_meixner.py")
FP = "estimateFootprint"
Z0 = "estimateZ0"
K = {"von_karman": "gen_von_karman"}

SLICES = [
    dict(name="von_karman", func="<module>", target="von_karman", params=[], unique=True),
    # ---- stability helpers: zeros_like + two masked assignments -> nested if on the sign of L
    dict(name="phiM", func="_phiM", kind="masked", target="phi_m", params=["zm", "mo_len"], signature=True, helper_for="_phiM"),
    dict(name="phiC", func="_phiC", kind="masked", target="phi_c", params=["zm", "mo_len"], signature=True, helper_for="_phiC"),
    dict(name="psiM", func="_psiM", kind="masked", target="psi_m", params=["zm", "mo_len"], inline=["inv_phi_m"], signature=True, helper_for="_psiM"),
    dict(name="nParam", func="_nParam", kind="masked", target="n", params=["zm", "mo_len"], signature=True, helper_for="_nParam"),
    dict(name="mParam", func="_mParam", target="m", params=["zm", "ws", "ustar", "mo_len"], inline=["phi_m", "k"], consts=K,
         signature=True, unique=True, helper_for="_mParam"),
    # ---- estimateFootprint: helper plumbing
    dict(name="fp_phi_m", func=FP, target="phi_m", params=["zm", "mo_len"], unique=True),
    dict(name="fp_phi_c", func=FP, target="phi_c", params=["zm", "mo_len"], unique=True),
    dict(name="fp_psi_m", func=FP, target="psi_m", params=["zm", "mo_len"], unique=True),
    dict(name="fp_m", func=FP, target="m", params=["zm", "ws", "ustar", "mo_len"], unique=True),
    dict(name="fp_n", func=FP, target="n", params=["zm", "mo_len"], unique=True),
    # ---- the chain kappa, U, r, mu, Xi, gmm, mr, A, num
    dict(name="kappa", func=FP, target="kappa", params=["zm", "ustar", "phi_c", "n"], inline=["k"], consts=K, unique=True),
    dict(name="U", func=FP, target="U", params=["ustar", "zm", "z0", "psi_m", "m"], inline=["k"], consts=K, unique=True),
    dict(name="U_negative", func=FP, kind="iftest", target="U < 0", returns="(grid_x, grid_y, grid_ffm)", params=["U"]),
    dict(name="r", func=FP, target="r", params=["m", "n"], unique=True),
    dict(name="mu", func=FP, target="mu", params=["m", "r"], unique=True),
    dict(name="Xi", func=FP, target="Xi", params=["U", "zm", "r", "kappa"], unique=True),
    dict(name="gmm", func=FP, target="gmm", params=["mu"], unique=True),
    dict(name="mr", func=FP, target="mr", params=["m", "r"], unique=True),
    dict(name="A", func=FP, target="A", params=["U", "r", "sigma_v", "kappa", "mr"], unique=True),
    dict(name="num", func=FP, target="num", params=["Xi", "mu"], unique=True),
    # ---- coordinates: wind-aligned grid (wd is None), shift, polar re-parametrisation
    dict(name="x_al", func=FP, target="x", occ=0, params=["grid_x", "mxy_0"]),
    dict(name="y_al", func=FP, target="y", occ=0, params=["grid_y", "mxy_1"]),
    dict(name="x_sh", func=FP, target="x", occ=1, params=["grid_x", "mxy_0"]),
    dict(name="y_sh", func=FP, target="y", occ=1, params=["grid_y", "mxy_1"]),
    dict(name="rho", func=FP, target="rho", params=["x", "y"], unique=True),
    dict(name="theta", func=FP, target="theta", params=["x", "y"], unique=True),
    dict(name="new_theta", func=FP, target="new_theta", params=["theta", "wd"], unique=True),
    dict(name="x_rot", func=FP, target="x", occ=2, params=["rho", "new_theta"]),
    dict(name="y_rot", func=FP, target="y", occ=2, params=["rho", "new_theta"]),
    dict(name="x_rot_full", func=FP, target="x", occ=2, inline=["rho", "theta", "new_theta", "x", "y"],
         params=["grid_x", "grid_y", "mxy_0", "mxy_1", "wd"]),
    dict(name="y_rot_full", func=FP, target="y", occ=2, inline=["rho", "theta", "new_theta", "x", "y"],
         params=["grid_x", "grid_y", "mxy_0", "mxy_1", "wd"]),
    # ---- the cell expression (zeros_like + masked assignment on x > 0), stepwise and fully inlined
    dict(name="cell", func=FP, kind="masked", target="grid_ffm",
         params=["grid_res", "num", "A", "x", "y", "mr", "mu", "Xi", "gmm"]),
    dict(name="cell_full", func=FP, kind="masked", target="grid_ffm",
         inline=["num", "A", "mr", "mu", "Xi", "gmm", "r", "kappa", "U", "m", "n", "phi_c", "psi_m", "phi_m", "k"], consts=K,
         params=["grid_res", "zm", "z0", "ws", "ustar", "mo_len", "sigma_v", "x", "y"]),
    # ---- estimateZ0
    dict(name="z0raw", func=Z0, target="z0", occ=0, params=["zm", "mo_len", "ws", "ustar"], inline=["psi_m", "k"], consts=K, unique=True),
    dict(name="z0_outlier", func=Z0, kind="cond", target="z0[z0 > 1000]", mask_of_target=True, params=["z0"]),
    dict(name="z0_nosmooth", func=Z0, kind="iftest", target="half_wd_win < 1", returns="z0", params=["half_wd_win"]),
    dict(name="wd_wrapped", func=Z0, kind="masked", target="wd_wrapped", params=["wd", "kk"]),
    dict(name="idx1", func=Z0, kind="cond", target="idx1", params=["wd", "kk"], unique=True),
    dict(name="idx2", func=Z0, kind="cond", target="idx2", params=["wd_wrapped", "kk", "half_wd_win"], unique=True),
]


LOOP = ("wd_wrapped", "idx1", "idx2")  # by-name slices inside the smoothing loop: implied by the whole-function tie
HELP_SLICES = [sl for sl in SLICES if sl["func"] == "<module>" or sl.get("helper_for")]
LOOP_SLICES = [sl for sl in SLICES if sl["name"] in LOOP]
REST_SLICES = [sl for sl in SLICES if sl not in HELP_SLICES and sl not in LOOP_SLICES]
HELPERS = {sl["helper_for"]: "gen_" + sl["name"] for sl in HELP_SLICES if sl.get("helper_for")}


def generate_help():
    return py2coq.translate(KMFILE(), HELP_SLICES, "R", ssa=True, prelude="From BL Require Import Model.KM.\n")


def generate():
    return py2coq.translate(KMFILE(), REST_SLICES, "R", ssa=True, section_vars=[("Gamma", "R -> R")], helpers=HELPERS,
                            prelude="From BL Require Import Model.KM.\nFrom Gen Require Import GenKMHelp.\n", section_name="GenKM")


def generate_loop():
    return py2coq.translate(KMFILE(), LOOP_SLICES, "R", ssa=True, helpers=HELPERS,
                            prelude="From BL Require Import Model.KM.\nFrom Gen Require Import GenKMHelp.\n")


FUNS = ["_phiM", "_phiC", "_psiM", "_nParam", "_mParam", FP, Z0]


def check_skeleton(ctx, whole):
    """statement skeleton (names variant); a function whose WHOLE body the whole-function translator accepted (every
    statement accounted for, fail closed) appears as one placeholder line: it is tied by Bridge/KMFunBridge.v, not by text"""
    import json
    import skeleton
    nm = skeleton.slice_names([sl for sl in SLICES if sl["func"] != "<module>"])
    exp = os.path.join(skeleton.SKELDIR, "km.json")
    try:
        got = skeleton.names_skeleton(KMFILE(), FUNS, nm)
    except Exception as e:  # noqa: BLE001
        ctx.obligation("structure:km-skeleton", False, "skeleton extraction failed: %s" % e)
        return False
    for f, ph in whole.items():
        got[f] = [got[f][0], "  <whole body translated: %s>" % ph]
    if os.environ.get("VERIF_UPDATE_SKELETONS") == "1":
        json.dump(got, open(exp, "w"), indent=1)
    diffs = skeleton.compare(got, json.load(open(exp)))
    ctx.obligation("structure:km-skeleton", not diffs,
                   "" if not diffs else "statements of ffm_kormann_meixner.py differ from the ones the model describes (bridged right-hand sides and whole-translated bodies excluded):\n%s" % "\n".join(diffs)[:1400])
    return not diffs


def run(ctx):
    import py2coq_km
    # ---- part 1: module constant + helpers (addressed by function name and signature)
    try:
        help_text = generate_help()
    except py2coq.TranslateError as e:
        ctx.obligation("gen:GenKMHelp.v", False, "slice translator failed closed: %s" % e)
        help_text = None
    ok = help_text is not None and core.run_bridge(ctx, {"GenKMHelp.v": help_text}, ["KMHelpBridge.v"])
    # ---- whole-function tie of estimateZ0 / estimateFootprint (needs only part 1)
    whole, fun_oks = {}, {}
    if help_text is not None and ok:
        whole, fun_oks = py2coq_km.run(ctx)
    else:
        ctx.obligation("gen:GenKMFun.v", False, "not generated: the helper slices are broken")
    check_skeleton(ctx, whole)
    if not ok:
        ctx.obligation("gen:GenKM.v", False, "not generated: the helper slices are broken")
        return False
    # ---- part 2: chain / coordinates / raw z0 (by-name slices)
    try:
        text = generate()
    except py2coq.TranslateError as e:
        ctx.obligation("gen:GenKM.v", False, "slice translator failed closed: %s" % e)
        text = None
    ok2 = text is not None and core.run_bridge(ctx, {"GenKM.v": text}, ["KMBridge.v"])
    # ---- part 3: by-name slices inside the smoothing loop; subsumed by the whole-function tie when they cannot be found
    try:
        ltext = generate_loop()
    except py2coq.TranslateError as e:
        if fun_oks.get("estimateZ0"):
            ctx.cov["km_loop_slices_subsumed"] = {"slices": list(LOOP), "lemmas": ["bridge_idx1", "bridge_idx2"],
                                                  "reason": "not found by name (%s); implied by bridge_estimateZ0_circle / bridge_estimateZ0, discharged on the current source" % e}
            ltext = None
            ok3 = True
        else:
            ctx.obligation("gen:GenKMLoop.v", False, "slice translator failed closed: %s" % e)
            ltext, ok3 = None, False
    if ltext is not None:
        ok3 = core.run_bridge(ctx, {"GenKMLoop.v": ltext}, ["KMLoopBridge.v"])
    ctx.cov["slices_translated"] = ctx.cov.get("slices_translated", 0) + len(SLICES)
    return ok2 and ok3 and bool(fun_oks) and all(fun_oks.values())
