"""Slices of the source-area base functions of bldfm/utils.py, re-extracted on every run (tie B) for property C20,
and the bridge file Bridge/SABaseBridge.v that re-proves gen_x = Model.SourceAreaBase.x for all arguments.

    source_area_contribution(flx)              -> gen_sa_contribution (flx)
    source_area_circular(X, Y, meas_pt)        -> gen_sa_circular     (X Y meas_pt_0 meas_pt_1)
    source_area_upwind(X, Y, meas_pt, wind)    -> gen_sa_upwind       (X Y meas_pt_0 meas_pt_1 wind_0 wind_1)
    source_area_crosswind(X, Y, meas_pt, wind) -> gen_sa_crosswind    (...)
    source_area_sector(X, Y, meas_pt, wind)    -> gen_sa_sector       (...)

Each definition is the function's RETURN expression with every local assignment inlined (SSA), read elementwise
(one grid cell).  The expressions are translated by py2coq.Emitter (backend "R", with the KM option that maps
`np.arctan2(y, x)` to `atan2 y x` of BL.Model.KM); this module adds a STRICT reading of the function body around it,
because these five functions are straight-line code and anything else must fail closed:

  * the signature is exactly the declared positional parameter list (no defaults, *args, **kwargs, decorators);
  * the body is: an optional docstring, then only assignments `name = expr`, `a, b = e1, e2` (simultaneous),
    `a, b = <parameter>` (unpacking of the tuple parameters meas_pt / wind, which become the cell-independent scalars
    meas_pt_0, meas_pt_1 / wind_0, wind_1 — a swapped unpacking changes the definition), and ONE final `return expr`;
  * any other statement (if / for / while / with / try / assert / augmented assignment / expression statement /
    nested def / a second return) raises TranslateError, as does any syntax the Emitter does not accept;
  * a tuple parameter may not be re-assigned, indexed or used whole;
  * `flx.copy()` (method call without arguments on a parameter) is the parameter itself, elementwise;
  * the free names of the result must be exactly the declared parameters.
"""
import ast
import os

import core
import py2coq
from py2coq import TranslateError

UTILS = lambda: os.path.join(core.SRC, "bldfm", "utils.py")

CELL4 = ["X", "Y", "meas_pt_0", "meas_pt_1"]
CELL6 = CELL4 + ["wind_0", "wind_1"]
SLICES = [
    dict(name="sa_contribution", func="source_area_contribution", sig=["flx"], unpack={}, params=["flx"]),
    dict(name="sa_circular", func="source_area_circular", sig=["X", "Y", "meas_pt"], unpack={"meas_pt": 2}, params=CELL4),
    dict(name="sa_upwind", func="source_area_upwind", sig=["X", "Y", "meas_pt", "wind"], unpack={"meas_pt": 2, "wind": 2}, params=CELL6),
    dict(name="sa_crosswind", func="source_area_crosswind", sig=["X", "Y", "meas_pt", "wind"], unpack={"meas_pt": 2, "wind": 2}, params=CELL6),
    dict(name="sa_sector", func="source_area_sector", sig=["X", "Y", "meas_pt", "wind"], unpack={"meas_pt": 2, "wind": 2}, params=CELL6),
]


def _check_signature(fn, sl):
    a = fn.args
    if fn.decorator_list:
        raise TranslateError("slice %s: %s is decorated" % (sl["name"], sl["func"]))
    if a.vararg or a.kwarg or a.kwonlyargs or a.defaults or a.kw_defaults or getattr(a, "posonlyargs", []):
        raise TranslateError("slice %s: signature of %s has defaults / *args / **kwargs / keyword-only parameters" % (sl["name"], sl["func"]))
    names = [x.arg for x in a.args]
    if names != list(sl["sig"]):
        raise TranslateError("slice %s: signature of %s is %r, expected %r" % (sl["name"], sl["func"], names, sl["sig"]))


def _straight_line(fn, sl):
    """-> (list of simultaneous assignment groups [(name, rhs node), ...], return expression)"""
    body = list(fn.body)
    if body and isinstance(body[0], ast.Expr) and isinstance(body[0].value, ast.Constant) and isinstance(body[0].value.value, str):
        body = body[1:]
    if not body or not isinstance(body[-1], ast.Return) or body[-1].value is None:
        raise TranslateError("slice %s: %s does not end in `return <expr>`" % (sl["name"], sl["func"]))
    groups = []
    for st in body[:-1]:
        if not isinstance(st, ast.Assign) or len(st.targets) != 1:
            raise TranslateError("slice %s: statement `%s` of %s is not a plain assignment (straight-line code expected)"
                                 % (sl["name"], ast.unparse(st).splitlines()[0][:80], sl["func"]))
        t = st.targets[0]
        if isinstance(t, ast.Name):
            groups.append([(t.id, st.value)])
        elif isinstance(t, ast.Tuple) and all(isinstance(e, ast.Name) for e in t.elts):
            names = [e.id for e in t.elts]
            if len(set(names)) != len(names):
                raise TranslateError("slice %s: repeated name in `%s`" % (sl["name"], ast.unparse(st)))
            if isinstance(st.value, ast.Tuple) and len(st.value.elts) == len(names):
                groups.append(list(zip(names, st.value.elts)))
            elif isinstance(st.value, ast.Name) and st.value.id in sl["unpack"] and sl["unpack"][st.value.id] == len(names):
                p = st.value.id
                groups.append([(n, ast.parse("%s[%d]" % (p, i), mode="eval").body) for i, n in enumerate(names)])
            else:
                raise TranslateError("slice %s: tuple assignment `%s` not in the accepted syntax" % (sl["name"], ast.unparse(st)))
        else:
            raise TranslateError("slice %s: assignment target `%s` not in the accepted syntax" % (sl["name"], ast.unparse(t)))
    for g in groups:
        for n, _ in g:
            if n in sl["unpack"]:
                raise TranslateError("slice %s: the tuple parameter %s is re-assigned" % (sl["name"], n))
    return groups, body[-1].value


def _no_whole_tuple_use(groups, ret, sl):
    """the tuple parameters may occur only as the right-hand side of their unpacking (-> p[i] nodes built above)"""
    for nodes in [[rhs for g in groups for _, rhs in g], [ret]]:
        for top in nodes:
            for node in ast.walk(top):
                if isinstance(node, ast.Name) and node.id in sl["unpack"]:
                    # allowed only as the value of a Subscript we constructed: p[<int const>]
                    ok = False
                    for par in ast.walk(top):
                        if isinstance(par, ast.Subscript) and par.value is node and isinstance(par.slice, ast.Constant) \
                                and isinstance(par.slice.value, int) and 0 <= par.slice.value < sl["unpack"][node.id]:
                            ok = True
                    if not ok:
                        raise TranslateError("slice %s: tuple parameter %s used other than by unpacking / constant index" % (sl["name"], node.id))


def _translate_one(tree, sl):
    fn = py2coq.find_function(tree, sl["func"])
    if not isinstance(fn, ast.FunctionDef):
        raise TranslateError("slice %s: %s is not a function" % (sl["name"], sl["func"]))
    _check_signature(fn, sl)
    groups, ret = _straight_line(fn, sl)
    _no_whole_tuple_use(groups, ret, sl)
    env = {}
    assigned = []
    for g in groups:
        before = env
        env = dict(env)
        for n, rhs in g:          # simultaneous: every right-hand side is read in the environment before the statement
            env[n] = (rhs, before)
            if n not in assigned:
                assigned.append(n)
    # `p.copy()` on a plain parameter: the element itself
    if (isinstance(ret, ast.Call) and isinstance(ret.func, ast.Attribute) and ret.func.attr == "copy" and not ret.args
            and not ret.keywords and isinstance(ret.func.value, ast.Name) and ret.func.value.id in sl["sig"]
            and ret.func.value.id not in sl["unpack"] and ret.func.value.id not in assigned):
        ret = ret.func.value
    em = py2coq.Emitter("R", env, assigned)
    em.km = True          # np.arctan2 -> atan2 (BL.Model.KM)
    body = em.expr(ret)
    if sorted(em.free) != sorted(sl["params"]):
        raise TranslateError("slice %s: free names %r differ from the declared parameters %r" % (sl["name"], sorted(em.free), sorted(sl["params"])))
    return "Definition gen_%s (%s : R) : R :=\n  %s." % (sl["name"], " ".join(sl["params"]), body)


def generate(path=None):
    path = path or UTILS()
    src = open(path).read()
    tree = ast.parse(src)
    py2coq._annotate_float_text(tree, src)
    defs = [_translate_one(tree, sl) for sl in SLICES]
    return ("From Coq Require Import Reals.\nFrom BL Require Import Model.KM.\nOpen Scope R_scope.\n"
            + "\n".join(defs) + "\n")


def run(ctx):
    try:
        text = generate()
    except TranslateError as e:
        ctx.obligation("gen:GenSABase.v", False, "slice translator failed closed: %s" % e)
        return False
    except (OSError, SyntaxError) as e:
        ctx.obligation("gen:GenSABase.v", False, "cannot read/parse utils.py: %s" % e)
        return False
    ctx.cov["slices_translated"] = ctx.cov.get("slices_translated", 0) + len(SLICES)
    return core.run_bridge(ctx, {"GenSABase.v": text}, ["SABaseBridge.v"])
