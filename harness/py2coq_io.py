"""Fail-closed translator for the NetCDF export/import (tie B of property C18).

Reads the CURRENT  <src>/bldfm/io.py  with `ast` and emits GenIo.v (terms of coq/Model/IoDesc.v):

  gen_save : save_d    save_footprints_to_netcdf.  The body is EXECUTED SYMBOLICALLY twice, once with every
                       `if is_3d:` resolved to True and once to False; every local name is resolved, so what is
                       emitted is what reaches `xr.Dataset(data_vars, coords=, attrs=)` and
                       `ds.to_netcdf(path, encoding=)`:  for each data variable / coordinate its name, dimension
                       names, attributes and HOW its values are computed from `results` / `config`
                       (np.zeros shape + the loop nest that fills it: iteration source, index expression, guard,
                       result key, casts;  G[0, 0, :]-style coordinate extraction;  str(timestamp) labels;
                       tower names;  tower metadata by name or by position), plus the encoding dict.
  gen_load : load_d    load_footprints_from_netcdf statement by statement.

coq/Bridge/IoBridge.v proves on every run that the meaning of these terms (Model/IoDesc.v: run_save / run_load) is
Model.NetcdfAsm.assemble / load for ALL results lists and tower lists.

Only what the symbolic executor knows is accepted; everything else raises TranslateError (obligation gen:GenIo.v):
an unknown call or method, an `if` on anything but the 2-D/3-D test, a loop of another shape, arithmetic on data,
a statement after the Dataset is built other than to_netcdf, a decorator, a further module-level statement.
Names of locals, the order of independent statements, how the `if is_3d` blocks are split or merged, loop vs
comprehension for the time labels, and the order of the entries of the Dataset dicts are NOT pinned.
What IS translated and then decided by the bridge lemmas (not by the translator): sorted / configured tower names,
iteration over results.values(), swapped indices, a missing `if ti == 0`, astype / dtype= / encoding dtype,
metadata by position, range() or raw timestamps as time labels, a missing or differently sliced coordinate,
renamed or re-dimensioned variables, extra open_dataset switches."""
import ast
import os

from py2coq import TranslateError

SAVE = "save_footprints_to_netcdf"
LOAD = "load_footprints_from_netcdf"
FKEY = {"flx": "KFlx", "conc": "KConc"}
PKEY = {"ustar": "PUstar", "mol": "PMol", "wind_speed": "PWs", "wind_dir": "PWd"}
TFIELD = {"lat": "TLat", "lon": "TLon", "z_m": "TZm"}
GCOMP = ["GX", "GY", "GZ"]
DTYPES = {"float32", "float64", "float16", "int32", "int64", "single", "double", "half", "f4", "f8", "f2", "<f4", "<f8"}


def _err(node, why):
    txt = ast.unparse(node) if isinstance(node, ast.AST) else str(node)
    line = getattr(node, "lineno", "?")
    raise TranslateError("io.py line %s: %s: %s" % (line, why, " ".join(txt.split())[:140]))


def _is_doc(st):
    return isinstance(st, ast.Expr) and isinstance(st.value, ast.Constant) and isinstance(st.value.value, str)


def _is_logging(st):
    if isinstance(st, ast.Expr) and isinstance(st.value, ast.Call):
        f = st.value.func
        if (isinstance(f, ast.Attribute) and isinstance(f.value, ast.Name) and f.value.id == "logger"
                and f.attr in ("debug", "info", "warning", "error")):
            for a in list(st.value.args) + [k.value for k in st.value.keywords]:
                for n in ast.walk(a):
                    if isinstance(n, (ast.Call, ast.NamedExpr, ast.Lambda, ast.Yield, ast.Await)):
                        _err(st, "a logging argument that computes something")
            return True
    return False


def _strip(stmts):
    return [s for s in stmts if not _is_doc(s) and not _is_logging(s)]


def _coq_list(items):
    return "[" + "; ".join(items) + "]"


def _coq_str(s):
    if not isinstance(s, str) or '"' in s or "\\" in s or any(ord(c) < 32 or ord(c) > 126 for c in s):
        raise TranslateError("string %r cannot be emitted" % (s,))
    return '"%s"' % s


def _opt_str(s):
    return "None" if s is None else "(Some %s)" % _coq_str(s)


# ---------------------------------------------------------------------------------------------
# symbolic values: tagged tuples; mutable Python objects are instances (identity matters)


class Arr:
    """np.zeros(shape[, dtype])"""

    def __init__(self, shape, dtype):
        self.shape, self.dtype, self.fills = shape, dtype, []


class PyList:
    def __init__(self):
        self.kind = None  # ("stamps", conv) once filled by the timestamp loop


class PyDict:
    def __init__(self, items):
        self.items = dict(items)


class Executor:
    def __init__(self, mode):
        self.mode = mode           # the value of the 2-D/3-D test in this run
        self.env = {"results": ("results",), "config": ("config",), "filepath": ("filepath",)}
        self.names_kind = None
        self.is3d = None
        self.dataset = None
        self.written = None

    # -- helpers ------------------------------------------------------------------------------
    def use_names(self, node, v):
        if not (isinstance(v, tuple) and v[0] == "names"):
            _err(node, "not the list of tower names")
        if self.names_kind not in (None, v[1]):
            _err(node, "two different lists of tower names are in use")
        self.names_kind = v[1]

    def dtype_of(self, node):
        if isinstance(node, ast.Constant) and isinstance(node.value, str):
            return node.value
        if isinstance(node, ast.Attribute) and isinstance(node.value, ast.Name) and node.value.id == "np" and node.attr in DTYPES:
            return node.attr
        if isinstance(node, ast.Name) and node.id in ("float", "int"):
            return node.id
        _err(node, "dtype not understood")

    # -- expressions --------------------------------------------------------------------------
    def ev(self, n):
        m = getattr(self, "ev_" + type(n).__name__, None)
        if m is None:
            _err(n, "expression form outside the accepted fragment")
        return m(n)

    def ev_Constant(self, n):
        return ("const", n.value)

    def ev_Name(self, n):
        if n.id not in self.env:
            _err(n, "name is not bound to anything the model knows")
        return self.env[n.id]

    def ev_Tuple(self, n):
        return ("tuple", [self.ev(e) for e in n.elts])

    def ev_List(self, n):
        if not n.elts:
            return PyList()
        return ("tuple", [self.ev(e) for e in n.elts])

    def ev_Dict(self, n):
        items = []
        for k, v in zip(n.keys, n.values):
            if not (isinstance(k, ast.Constant) and isinstance(k.value, str)):
                _err(n, "dict key is not a string literal")
            if k.value in dict(items):
                _err(n, "duplicate dict key")
            try:
                val = self.ev(v)
            except TranslateError:
                val = ("opaque", " ".join(ast.unparse(v).split())[:80])
            items.append((k.value, val))
        return PyDict(items)

    def ev_Compare(self, n):
        if len(n.ops) == 1 and isinstance(n.ops[0], ast.Eq) and isinstance(n.comparators[0], ast.Constant) \
                and isinstance(n.comparators[0].value, int):
            left = self.ev(n.left)
            c = n.comparators[0].value
            if left[0] == "ndim" and left[1][0] == "field" and left[1][1] == "first" and left[1][2] in FKEY:
                return ("is3d", FKEY[left[1][2]], c)
            if left[0] == "ndim" and left[1][0] == "grid":
                return ("gndim", left[1][1], c)
            if left == ("ti",) and c == 0:
                return ("ti0",)
        _err(n, "comparison outside the accepted fragment")

    def ev_IfExp(self, n):
        t = self.ev(n.test)
        b, o = self.ev(n.body), self.ev(n.orelse)
        if t[0] == "gndim" and t[2] == 2 and b[0] == "coordidx" and b[1] == t[1] and o[0] == "grid":
            return ("coordif2", b[1], b[2], o[1])
        _err(n, "conditional expression outside the accepted fragment")

    def ev_Attribute(self, n):
        if isinstance(n.value, ast.Name) and n.value.id == "np" and "np" not in self.env:
            _err(n, "numpy attribute outside the accepted fragment")
        v = self.ev(n.value)
        if n.attr == "ndim" and v[0] in ("field", "grid"):
            return ("ndim", v)
        if n.attr == "shape" and v[0] == "field" and v[1] == "first" and v[2] in FKEY:
            return ("shape", FKEY[v[2]])
        if v == ("config",):
            return ("towers",) if n.attr == "towers" else ("config_attr", [n.attr])
        if v[0] == "config_attr":
            return ("config_attr", v[1] + [n.attr])
        _err(n, "attribute outside the accepted fragment")

    def ev_Subscript(self, n):
        v = self.ev(n.value)
        s = n.slice
        if isinstance(v, PyDict):
            if isinstance(s, ast.Constant) and s.value in v.items:
                return v.items[s.value]
            _err(n, "dict lookup")
        if v[0] == "names":
            if isinstance(s, ast.Constant) and s.value == 0:
                self.use_names(n, v)
                return ("first_name",)
            _err(n, "index into the tower names other than [0]")
        if v == ("results",):
            k = self.ev(s)
            if k == ("first_name",):
                return ("steps_first",)
            if k == ("outer_name",):
                return ("steps_outer_name",)
            _err(n, "results[...] with a key the model does not know")
        if v == ("steps_first",):
            if isinstance(s, ast.Constant) and s.value == 0:
                return ("first_result",)
            _err(n, "index into the first tower's results other than [0]")
        if v[0] in ("first_result", "loop_result", "ts_result"):
            who = {"first_result": "first", "loop_result": "loop", "ts_result": "ts"}[v[0]]
            if isinstance(s, ast.Constant) and s.value in ("flx", "conc", "grid", "timestamp", "params"):
                return ("field", who, s.value)
            _err(n, "result key the model does not know")
        if v[0] == "field" and v[2] == "params":
            if isinstance(s, ast.Constant) and s.value in PKEY:
                return ("param", v[1], PKEY[s.value])
            _err(n, "params key the model does not know")
        if v[0] == "grid":
            elts = s.elts if isinstance(s, ast.Tuple) else [s]
            pat = []
            for e in elts:
                if isinstance(e, ast.Constant) and e.value == 0 and not isinstance(e.value, bool):
                    pat.append("I0")
                elif isinstance(e, ast.Slice) and e.lower is None and e.upper is None and e.step is None:
                    pat.append("IAll")
                else:
                    _err(n, "grid index other than 0 or :")
            return ("coordidx", v[1], pat)
        _err(n, "subscript outside the accepted fragment")

    def ev_Call(self, n):
        f = n.func
        fn = ast.unparse(f)
        kws = {k.arg: k.value for k in n.keywords}
        if None in kws:
            _err(n, "**kwargs")
        if fn == "Path" and len(n.args) == 1 and not kws and self.ev(n.args[0]) in (("filepath",), ("path",)):
            return ("path",)
        if fn in ("list", "sorted") and len(n.args) == 1 and not kws:
            a = n.args[0]
            inner = None
            if isinstance(a, ast.Call) and isinstance(a.func, ast.Attribute) and a.func.attr == "keys" and not a.args \
                    and not a.keywords and self.ev(a.func.value) == ("results",):
                inner = "keys"
            elif not isinstance(a, ast.Call) and self.ev(a) == ("results",):
                inner = "keys"
            if inner:
                return ("names", "NKeys" if fn == "list" else "NSorted")
            if fn == "list" and isinstance(a, ast.Call) and ast.unparse(a.func) == "range" and len(a.args) == 1 \
                    and not a.keywords and self.ev(a.args[0]) == ("dim", "DNTime"):
                return ("range_ntime",)
            if fn == "list":
                v = self.ev(a)
                if isinstance(v, tuple) and v[0] in ("names", "meta", "range_ntime"):
                    return v
            _err(n, "list()/sorted() of something the model does not know")
        if fn == "np.arange" and len(n.args) == 1 and not kws and self.ev(n.args[0]) == ("dim", "DNTime"):
            return ("range_ntime",)
        if fn == "len" and len(n.args) == 1 and not kws:
            v = self.ev(n.args[0])
            if v == ("steps_first",):
                return ("dim", "DNTime")
            if isinstance(v, tuple) and v[0] == "names":
                self.use_names(n, v)
                return ("dim", "DNTowers")
            _err(n, "len() of something the model does not know")
        if fn == "str" and len(n.args) == 1 and not kws:
            return ("str", self.ev(n.args[0]))
        if fn == "np.zeros" and len(n.args) == 1 and set(kws) <= {"dtype"}:
            sh = self.ev(n.args[0])
            if sh[0] == "dim":
                sh = ("tuple", [sh])
            if not (sh[0] == "tuple" and sh[1] and all(isinstance(d, tuple) and d[0] == "dim" for d in sh[1])):
                _err(n, "np.zeros shape is not a tuple of known extents")
            return Arr([d[1:] for d in sh[1]], self.dtype_of(kws["dtype"]) if "dtype" in kws else None)
        if isinstance(f, ast.Attribute) and f.attr == "astype" and len(n.args) == 1 and not kws:
            v = self.ev(f.value)
            dt = self.dtype_of(n.args[0])
            if isinstance(v, Arr):
                if v.dtype is not None:
                    _err(n, "array converted twice")
                a = Arr(v.shape, dt)
                a.fills = list(v.fills)
                return a
            if isinstance(v, tuple) and v[0] in ("field", "param"):
                return ("cast", dt, v)
            _err(n, "astype of something the model does not know")
        if isinstance(f, ast.Attribute) and f.attr == "values" and not n.args and not kws and self.ev(f.value) == ("results",):
            return ("results_values",)
        if fn == "enumerate" and len(n.args) == 1 and not kws:
            return ("enumerate", self.ev(n.args[0]))
        if fn == "xr.Dataset":
            return self.mk_dataset(n, kws)
        _err(n, "call outside the accepted fragment")

    def ev_ListComp(self, n):
        if len(n.generators) != 1 or n.generators[0].ifs or n.generators[0].is_async or not isinstance(n.generators[0].target, ast.Name):
            _err(n, "comprehension outside the accepted fragment")
        g = n.generators[0]
        var = g.target.id
        if var in self.env:
            _err(n, "comprehension variable shadows a local")
        src = self.ev(g.iter)
        e = n.elt
        if src == ("towers",):
            if isinstance(e, ast.Attribute) and isinstance(e.value, ast.Name) and e.value.id == var:
                if e.attr == "name":
                    return ("names", "NConfig")
                if e.attr in TFIELD:
                    return ("meta", "MByPosition", TFIELD[e.attr])
            _err(n, "comprehension over config.towers outside the accepted fragment")
        if isinstance(src, tuple) and src[0] == "names":
            self.use_names(n, src)
            if (isinstance(e, ast.Attribute) and e.attr in TFIELD and isinstance(e.value, ast.Subscript)
                    and isinstance(e.value.slice, ast.Name) and e.value.slice.id == var
                    and self.ev(e.value.value) == ("tower_dict",)):
                return ("meta", "MByName", TFIELD[e.attr])
            _err(n, "comprehension over the tower names outside the accepted fragment")
        if src == ("steps_first",):
            self.env[var] = ("ts_result",)
            try:
                v = self.ev(e)
            finally:
                del self.env[var]
            lst = PyList()
            lst.kind = ("stamps", self.stamp_conv(n, v))
            return lst
        _err(n, "comprehension outside the accepted fragment")

    def ev_DictComp(self, n):
        if len(n.generators) == 1 and not n.generators[0].ifs and isinstance(n.generators[0].target, ast.Name):
            var = n.generators[0].target.id
            if (self.ev(n.generators[0].iter) == ("towers",) and var not in self.env
                    and ast.dump(n.key) == ast.dump(ast.parse("%s.name" % var, mode="eval").body)
                    and isinstance(n.value, ast.Name) and n.value.id == var):
                return ("tower_dict",)
        _err(n, "dict comprehension outside the accepted fragment")

    def stamp_conv(self, node, v):
        if v == ("str", ("field", "ts", "timestamp")):
            return "TStr"
        if v == ("field", "ts", "timestamp"):
            return "TRaw"
        _err(node, "time label is not the step's timestamp")

    # -- the Dataset ---------------------------------------------------------------------------
    def data_of(self, node, v):
        if isinstance(v, Arr):
            if len(v.fills) != 1:
                _err(node, "array is filled %d times" % len(v.fills))
            lp, ix, g, cell, cast = v.fills[0]
            return "(DFill %s %s %s %s %s %s %s)" % (
                _coq_list(" ".join(str(x) for x in d) if len(d) == 1 else "(%s)" % " ".join(str(x) for x in d) for d in v.shape),
                _opt_str(v.dtype), lp, _coq_list(ix), g, cell, _opt_str(cast))
        if isinstance(v, PyList):
            if v.kind and v.kind[0] == "stamps":
                return "(DStamps %s)" % v.kind[1]
            _err(node, "a list that is never filled")
        if isinstance(v, tuple):
            if v[0] == "coordidx":
                return "(DCoordIdx %s %s)" % (GCOMP[v[1]], _coq_list(v[2]))
            if v[0] == "coordif2":
                return "(DCoordIf2 %s %s %s)" % (GCOMP[v[1]], _coq_list(v[2]), GCOMP[v[3]])
            if v[0] == "range_ntime":
                return "DRange"
            if v[0] == "names":
                return "(DNames %s)" % v[1]
            if v[0] == "meta":
                return "(DMeta %s %s)" % (v[1], v[2])
        _err(node, "a Dataset member whose values the model cannot describe")

    def attrs_of(self, node, v):
        if not isinstance(v, PyDict):
            _err(node, "attributes are not a dict literal")
        out = []
        for k, a in v.items.items():
            if isinstance(a, tuple) and a[0] == "const" and isinstance(a[1], str):
                out.append("(%s, AStr %s)" % (_coq_str(k), _coq_str(a[1])))
            elif isinstance(a, tuple) and a[0] == "config_attr":
                out.append("(%s, AConfig %s)" % (_coq_str(k), _coq_list(_coq_str(p) for p in a[1])))
            else:
                _err(node, "attribute %s is neither a string literal nor a configuration field" % k)
        return _coq_list(out)

    def members(self, node, v):
        if not isinstance(v, PyDict):
            _err(node, "Dataset members are not given as a dict")
        out = []
        for name, m in v.items.items():
            if not (isinstance(m, tuple) and m[0] == "tuple" and len(m[1]) in (2, 3)):
                _err(node, "member %s is not (dims, data[, attrs])" % name)
            dims = m[1][0]
            if dims[0] == "const" and isinstance(dims[1], str):
                dims = [dims[1]]
            elif dims[0] == "tuple" and all(d[0] == "const" and isinstance(d[1], str) for d in dims[1]):
                dims = [d[1] for d in dims[1]]
            else:
                _err(node, "dimension names of %s are not string literals" % name)
            attrs = self.attrs_of(node, m[1][2]) if len(m[1]) == 3 else "[]"
            out.append("mkVar %s %s %s %s" % (_coq_str(name), _coq_list(_coq_str(d) for d in dims),
                                             self.data_of(node, m[1][1]), attrs))
        return out

    def mk_dataset(self, n, kws):
        if self.dataset is not None:
            _err(n, "a second Dataset")
        if set(kws) - {"data_vars", "coords", "attrs"} or len(n.args) > 1 or (n.args and "data_vars" in kws):
            _err(n, "xr.Dataset arguments")
        dv = self.ev(n.args[0]) if n.args else (self.ev(kws["data_vars"]) if "data_vars" in kws else PyDict([]))
        co = self.ev(kws["coords"]) if "coords" in kws else PyDict([])
        at = self.ev(kws["attrs"]) if "attrs" in kws else PyDict([])
        self.dataset = {"vars": self.members(n, dv), "coords": self.members(n, co), "attrs": self.attrs_of(n, at)}
        return ("dataset",)

    # -- statements ---------------------------------------------------------------------------
    def bind(self, node, target, v):
        if isinstance(target, ast.Name):
            if target.id in ("np", "xr", "Path", "logger", "results", "config") or (
                    target.id == "filepath" and v != ("path",)):
                _err(node, "a parameter or module name is re-bound")
            self.env[target.id] = v
            return
        if isinstance(target, (ast.Tuple, ast.List)) and all(isinstance(e, ast.Name) for e in target.elts):
            k = len(target.elts)
            if isinstance(v, tuple) and v == ("field", "first", "grid") and k == 3:
                parts = [("grid", i) for i in range(3)]
            elif isinstance(v, tuple) and v[0] == "shape":
                parts = [("dim", "DShape", v[1], k, i) for i in range(k)]
            elif isinstance(v, tuple) and v[0] == "tuple" and len(v[1]) == k:
                parts = v[1]
            else:
                _err(node, "unpacking of something the model does not know")
            for e, p in zip(target.elts, parts):
                self.bind(node, e, p)
            return
        if isinstance(target, ast.Subscript):
            d = self.ev(target.value)
            if isinstance(d, PyDict) and isinstance(target.slice, ast.Constant) and isinstance(target.slice.value, str):
                d.items[target.slice.value] = v
                return
        _err(node, "assignment target outside the accepted fragment")

    def run(self, stmts):
        for st in _strip(stmts):
            if self.written:
                _err(st, "statement after the file is written")
            m = getattr(self, "st_" + type(st).__name__, None)
            if m is None:
                _err(st, "statement form outside the accepted fragment")
            m(st)

    def st_Assign(self, st):
        v = self.ev(st.value)
        for t in st.targets:
            self.bind(st, t, v)

    def st_Pass(self, st):
        pass

    def st_If(self, st):
        t = self.ev(st.test)
        if isinstance(t, tuple) and t[0] == "is3d":
            if self.is3d not in (None, t[1:]):
                _err(st, "two different 2-D/3-D tests")
            self.is3d = t[1:]
            self.run(st.body if self.mode else st.orelse)
            return
        _err(st, "`if` on something other than the 2-D/3-D test")

    def st_Expr(self, st):
        c = st.value
        if isinstance(c, ast.Call) and isinstance(c.func, ast.Attribute):
            if c.func.attr == "mkdir" and ast.unparse(c.func.value).endswith(".parent") \
                    and self.ev(c.func.value.value) in (("path",), ("filepath",)):
                return
            if c.func.attr == "to_netcdf" and self.ev(c.func.value) == ("dataset",):
                kws = {k.arg: k.value for k in c.keywords}
                if len(c.args) != 1 or self.ev(c.args[0]) not in (("path",), ("filepath",)) or set(kws) - {"encoding"}:
                    _err(st, "to_netcdf is not called as (path, encoding=...)")
                enc = self.ev(kws["encoding"]) if "encoding" in kws else PyDict([])
                self.written = self.encoding_of(st, enc)
                return
        _err(st, "expression statement outside the accepted fragment")

    def encoding_of(self, node, enc):
        if not isinstance(enc, PyDict):
            _err(node, "encoding is not a dict literal")
        out = []
        for var, d in enc.items.items():
            if not isinstance(d, PyDict):
                _err(node, "encoding of %s is not a dict literal" % var)
            kv = []
            for k, v in d.items.items():
                if isinstance(v, tuple) and v[0] == "const" and isinstance(v[1], bool):
                    e = "EBool %s" % ("true" if v[1] else "false")
                elif isinstance(v, tuple) and v[0] == "const" and isinstance(v[1], int) and 0 <= v[1] < 1000:
                    e = "ENat %d" % v[1]
                elif isinstance(v, tuple) and v[0] == "const" and isinstance(v[1], str):
                    e = "EStr %s" % _coq_str(v[1])
                else:
                    e = "EOpaque %s" % _coq_str("".join(ch for ch in str(v[1] if isinstance(v, tuple) and len(v) > 1 else v)
                                                        if ch.isalnum() or ch in " _.,()[]+-*:")[:60])
                kv.append("(%s, %s)" % (_coq_str(k), e))
            out.append("(%s, %s)" % (_coq_str(var), _coq_list(kv)))
        return _coq_list(out)

    def st_For(self, st):
        if st.orelse:
            _err(st, "for-else")
        it = self.ev(st.iter)
        # (1) the time-label loop:  for r in results[tower_names[0]]: ... lst.append(conv(r["timestamp"]))
        if it == ("steps_first",) and isinstance(st.target, ast.Name):
            var = st.target.id
            if var in self.env:
                _err(st, "loop variable shadows a local")
            self.env[var] = ("ts_result",)
            bound = [var]
            for b in _strip(st.body):
                if isinstance(b, ast.Assign) and len(b.targets) == 1 and isinstance(b.targets[0], ast.Name):
                    nm = b.targets[0].id
                    if nm in self.env and nm not in bound:
                        _err(b, "loop body re-binds a local")
                    self.env[nm] = self.ev(b.value)
                    bound.append(nm)
                elif (isinstance(b, ast.Expr) and isinstance(b.value, ast.Call) and isinstance(b.value.func, ast.Attribute)
                      and b.value.func.attr == "append" and len(b.value.args) == 1 and not b.value.keywords):
                    lst = self.ev(b.value.func.value)
                    if not isinstance(lst, PyList) or lst.kind is not None:
                        _err(b, "append to something that is not a fresh empty list")
                    lst.kind = ("stamps", self.stamp_conv(b, self.ev(b.value.args[0])))
                else:
                    _err(b, "statement of the time-label loop outside the accepted fragment")
            for nm in bound:
                del self.env[nm]
            return
        # (2) the fill loop nest
        if (isinstance(it, tuple) and it[0] == "enumerate" and isinstance(st.target, ast.Tuple) and len(st.target.elts) == 2
                and all(isinstance(e, ast.Name) for e in st.target.elts)):
            ti, ov = st.target.elts[0].id, st.target.elts[1].id
            src = it[1]
            if isinstance(src, tuple) and src[0] == "names":
                self.use_names(st, src)
                lp, oval = "LByName", ("outer_name",)
            elif src == ("results_values",):
                lp, oval = "LByPosition", ("outer_steps",)
            else:
                _err(st, "outer loop does not run over the tower names or results.values()")
            body = _strip(st.body)
            if not (len(body) == 1 and isinstance(body[0], ast.For) and not body[0].orelse):
                _err(st, "the outer loop body is not exactly one inner loop")
            inner = body[0]
            if ti in self.env or ov in self.env or ti == ov:
                _err(st, "loop variable shadows a local")
            self.env[ti], self.env[ov] = ("ti",), oval
            iit = self.ev(inner.iter)
            want = ("enumerate", ("steps_outer_name",)) if lp == "LByName" else ("enumerate", ("outer_steps",))
            if iit != want or not (isinstance(inner.target, ast.Tuple) and len(inner.target.elts) == 2
                                   and all(isinstance(e, ast.Name) for e in inner.target.elts)):
                _err(inner, "inner loop does not enumerate the steps of the outer loop's tower")
            tv, rv = inner.target.elts[0].id, inner.target.elts[1].id
            if tv in self.env or rv in self.env or tv == rv:
                _err(inner, "loop variable shadows a local")
            self.env[tv], self.env[rv] = ("t",), ("loop_result",)
            self.fill_body(_strip(inner.body), lp, "GAlways")
            for nm in (ti, ov, tv, rv):
                del self.env[nm]
            return
        _err(st, "loop outside the accepted fragment")

    def fill_body(self, stmts, lp, guard):
        for b in stmts:
            if isinstance(b, ast.If) and not b.orelse and guard == "GAlways" and self.ev(b.test) == ("ti0",):
                self.fill_body(_strip(b.body), lp, "GTi0")
                continue
            if isinstance(b, ast.Assign) and len(b.targets) == 1 and isinstance(b.targets[0], ast.Subscript):
                arr = self.ev(b.targets[0].value)
                if not isinstance(arr, Arr):
                    _err(b, "indexed assignment into something that is not a np.zeros array")
                s = b.targets[0].slice
                ix = []
                for e in (s.elts if isinstance(s, ast.Tuple) else [s]):
                    v = self.ev(e)
                    if v == ("t",):
                        ix.append("IxT")
                    elif v == ("ti",):
                        ix.append("IxTi")
                    else:
                        _err(b, "array index is not a loop counter")
                v = self.ev(b.value)
                cast = None
                if v[0] == "cast":
                    cast, v = v[1], v[2]
                if v[0] == "field" and v[1] == "loop" and v[2] in FKEY:
                    cell = "(CBlock %s)" % FKEY[v[2]]
                elif v[0] == "param" and v[1] == "loop":
                    cell = "(CMet %s)" % v[2]
                else:
                    _err(b, "stored value is not a field of the loop's result")
                arr.fills.append((lp, ix, guard, cell, cast))
                continue
            _err(b, "statement of the fill loop outside the accepted fragment")


# ---------------------------------------------------------------------------------------------


def _check_module(tree):
    bound = {}
    fns = {}
    for st in tree.body:
        if _is_doc(st):
            continue
        if isinstance(st, ast.Import):
            for a in st.names:
                bound[a.asname or a.name.split(".")[0]] = a.name
        elif isinstance(st, ast.ImportFrom):
            for a in st.names:
                if a.name == "*":
                    _err(st, "star import")
                bound[a.asname or a.name] = "%s%s.%s" % ("." * st.level, st.module or "", a.name)
        elif (isinstance(st, ast.Assign) and len(st.targets) == 1 and isinstance(st.targets[0], ast.Name)
              and st.targets[0].id == "logger" and isinstance(st.value, ast.Call)
              and isinstance(st.value.func, ast.Name) and st.value.func.id == "get_logger"):
            pass
        elif isinstance(st, ast.FunctionDef) and st.name in (SAVE, LOAD) and st.name not in fns and not st.decorator_list:
            fns[st.name] = st
        else:
            _err(st, "module-level statement the model has no counterpart for")
    for nm, mod in (("np", "numpy"), ("xr", "xarray"), ("Path", "pathlib.Path")):
        if bound.get(nm) != mod:
            raise TranslateError("io.py: %s is not %s" % (nm, mod))
    for nm in bound:
        if nm in ("list", "sorted", "len", "str", "enumerate", "range", "results", "config", "filepath", "logger"):
            raise TranslateError("io.py: import shadows %s" % nm)
    for nm in (SAVE, LOAD):
        if nm not in fns:
            raise TranslateError("io.py: function %s not found (or defined twice / decorated)" % nm)
    return fns


def _plain_params(fn, want):
    a = fn.args
    if a.posonlyargs or a.vararg or a.kwonlyargs or a.kwarg or a.defaults or [x.arg for x in a.args] != want:
        _err(fn, "parameters are not (%s)" % ", ".join(want))


def _tr_save(fn):
    _plain_params(fn, ["results", "config", "filepath"])
    for n in ast.walk(fn):
        if isinstance(n, (ast.Return, ast.Yield, ast.YieldFrom, ast.Global, ast.Nonlocal, ast.Lambda, ast.FunctionDef,
                          ast.ClassDef, ast.Try, ast.With, ast.While, ast.Delete, ast.NamedExpr, ast.Starred)) and n is not fn:
            _err(n, "construct outside the accepted fragment")
    runs = {}
    for mode in (True, False):
        ex = Executor(mode)
        ex.run(fn.body)
        if ex.dataset is None or ex.written is None:
            raise TranslateError("io.py: %s does not build a Dataset and write it" % SAVE)
        if ex.is3d is None:
            raise TranslateError("io.py: %s has no 2-D/3-D test" % SAVE)
        if ex.names_kind is None:
            raise TranslateError("io.py: %s never uses the list of tower names" % SAVE)
        runs[mode] = ex
    a, b = runs[True], runs[False]
    if a.names_kind != b.names_kind or a.is3d != b.is3d:
        raise TranslateError("io.py: the two branches disagree on the tower names / the 2-D/3-D test")

    def ds(ex):
        return "(mkDsD\n     %s\n     %s\n     %s\n     %s)" % (
            _coq_list("\n      " + v for v in ex.dataset["vars"]), _coq_list("\n      " + v for v in ex.dataset["coords"]),
            ex.dataset["attrs"], ex.written)

    return a.names_kind, "(%s, %d)" % a.is3d, ds(a), ds(b)


def _tr_load(fn):
    _plain_params(fn, ["filepath"])
    out = []
    path_names = {"filepath"}
    opened = None
    for st in _strip(fn.body):
        if out and out[-1] == "LReturnOpened":
            _err(st, "statement after return")
        if (isinstance(st, ast.Assign) and len(st.targets) == 1 and isinstance(st.targets[0], ast.Name)
                and isinstance(st.value, ast.Call) and ast.unparse(st.value.func) == "Path" and len(st.value.args) == 1
                and not st.value.keywords and isinstance(st.value.args[0], ast.Name) and st.value.args[0].id in path_names):
            path_names.add(st.targets[0].id)
            out.append("LPath")
        elif (isinstance(st, ast.If) and not st.orelse and isinstance(st.test, ast.UnaryOp) and isinstance(st.test.op, ast.Not)
              and isinstance(st.test.operand, ast.Call) and isinstance(st.test.operand.func, ast.Attribute)
              and st.test.operand.func.attr == "exists" and isinstance(st.test.operand.func.value, ast.Name)
              and st.test.operand.func.value.id in path_names and not st.test.operand.args
              and len(st.body) == 1 and isinstance(st.body[0], ast.Raise)):
            out.append("LRaiseIfMissing")
        elif (isinstance(st, ast.Assign) and len(st.targets) == 1 and isinstance(st.targets[0], ast.Name)
              and isinstance(st.value, ast.Call) and ast.unparse(st.value.func) == "xr.open_dataset"
              and len(st.value.args) == 1 and isinstance(st.value.args[0], ast.Name) and st.value.args[0].id in path_names
              and opened is None and all(k.arg for k in st.value.keywords)):
            opened = st.targets[0].id
            if opened in path_names:
                _err(st, "the opened dataset re-uses the path name")
            out.append("LOpen %s" % _coq_list(_coq_str(k.arg) for k in st.value.keywords))
        elif isinstance(st, ast.Return) and isinstance(st.value, ast.Name) and st.value.id == opened:
            out.append("LReturnOpened")
        else:
            _err(st, "statement of %s outside the accepted fragment" % LOAD)
    return _coq_list(out)


def translate(src):
    """src: the directory that contains the package bldfm.  Returns the text of GenIo.v."""
    errors = []
    tree = ast.parse(open(os.path.join(src, "bldfm", "io.py")).read())
    fns = None
    try:
        fns = _check_module(tree)
    except TranslateError as e:
        errors.append(str(e))
        fns = {st.name: st for st in tree.body if isinstance(st, ast.FunctionDef) and st.name in (SAVE, LOAD)}
    out = {}
    for nm, f in ((SAVE, _tr_save), (LOAD, _tr_load)):
        if nm not in fns:
            continue
        try:
            out[nm] = f(fns[nm])
        except TranslateError as e:
            errors.append(str(e))
        except Exception as e:  # fail closed on anything unforeseen
            errors.append("%s: %s: %s" % (nm, type(e).__name__, e))
    if errors:
        raise TranslateError("; ".join(errors))
    names, is3d, d3, d2 = out[SAVE]
    return "\n".join([
        "(* generated by harness/py2coq_io.py from bldfm/io.py -- do not edit *)",
        "From Coq Require Import List Bool String.",
        "From BL Require Import Model.IoDesc.",
        "Import ListNotations.",
        "Local Open Scope string_scope.",
        "",
        "Definition gen_save_3d : ds_d :=\n  %s." % d3,
        "",
        "Definition gen_save_2d : ds_d :=\n  %s." % d2,
        "",
        "Definition gen_save : save_d := mkSaveD %s %s gen_save_3d gen_save_2d." % (names, is3d),
        "",
        "Definition gen_load : load_d := %s." % out[LOAD],
        "",
    ])


N_TERMS = 4


def run(ctx):
    """translate the current source, compile GenIo.v, re-prove coq/Bridge/IoBridge.v against it (one obligation per
    lemma), and check that every bridge lemma is closed under the global context"""
    import re

    import core

    try:
        text = translate(core.SRC)
    except TranslateError as e:
        ctx.obligation("gen:GenIo.v", False, "io translator failed closed: %s" % e)
        return False
    ctx.cov["io_terms_translated"] = N_TERMS
    if not core.run_bridge(ctx, {"GenIo.v": text}, ["IoBridge.v"]):
        return False
    src = core.strip_coq_comments(open(os.path.join(core.COQ, "Bridge", "IoBridge.v")).read())
    names = re.findall(r"^\s*(?:Lemma|Theorem)\s+([\w']+)", src, re.M)
    ax = "From Gen Require Import IoBridge.\n" + "".join(
        'Goal True. idtac "THEOREM %s". Abort. Print Assumptions %s.\n' % (n, n) for n in names)
    rc, out, err, dt = ctx.coqc(ctx.write("IoBridgeAx.v", ax))
    got = core.parse_assumptions(out + "\n" + err)
    bad = ["%s: %s" % (n, sorted(got[n]) if isinstance(got.get(n), set) else got.get(n, "missing"))
           for n in names if got.get(n) != set()]
    ctx.obligation("closed:IoBridge", rc == 0 and not bad,
                   "" if rc == 0 and not bad else "bridge lemmas not closed under the global context: %s %s" % (
                       "; ".join(bad), (out + err)[-600:] if rc else ""))
    return rc == 0 and not bad


if __name__ == "__main__":
    import sys

    print(translate(sys.argv[1] if len(sys.argv) > 1 else "/repo/src"))
