"""Fail-closed whole-function translator for bldfm.pbl_model.{vertical_profiles, psi, phi} (tie B of C09 at function level).

Reads the CURRENT source with `ast` and emits `GenPblFun.v`:

    gen_psi_def, gen_phi_def : efun      the two elementwise functions (x1 = e1; ...; return e)
    gen_vp_def : fundef                  vertical_profiles: parameters with their defaults, and the WHOLE body as a
                                         term of the deep embedding of coq/Model/PblDesc.v (statement by statement,
                                         expression by expression; nothing is elided except the docstring, the format
                                         string of logger calls and the message of `raise`)
    gen_fenv, gen_vp a                   the interpreter of PblDesc.v applied to them

`coq/Bridge/PblFunBridge.v` then proves, for ALL arguments, that the interpreted description is what Model/Pbl.v
says (make_env + node functions + which arrays are one object + which calls raise what).

Accepted fragment (PblDesc.v gives it its meaning); everything else raises TranslateError:
  statements   x = e · x = y = z = e · a, (b, c) = e1, e2 (tuple display on the right, targets not read on the right)
               · a, b = e · if/elif/else · raise <ValueError|TypeError|IndexError>(<text>) · return e
               · logger.<debug|info|warning|error>(<string literal>, e1, ...)
  expressions  numeric literals · string literals · None · names · np.pi · np.nan · unary minus · + - * / · e ** <int literal 1..8>
               · np.sqrt/exp/log/arctan(e) · np.power(a, b, dtype=complex).real · np.where(x > y, a, b) · psi(e) · phi(e)
               · e is None · e is not None · e == "s" · e != "s" · not · and · or · a if c else b · tuple displays
               · np.arange(a, b, c) · np.ones(len(x)) · np.squeeze(e).item() · np.array(e)[..., np.newaxis]
               · e[<int literal>] · max(e) · min(e)
  module       psi, phi: module-level, undecorated, one plain parameter, body = simple assignments + return;
               vertical_profiles: module-level, undecorated, plain parameters with literal defaults (None, number, string);
               the names np, logger, psi, phi, max, min, len are never assigned to (anywhere in the module: logger only
               by its one module-level definition), no global/nonlocal, `np` is `import numpy as np`.
"""
import ast

import py2coq
from py2coq import TranslateError

FUNCS = ("vertical_profiles", "psi", "phi")
EFUNS = ("psi", "phi")
EXN = {"ValueError": "ValueError", "TypeError": "TypeError", "IndexError": "IndexError"}
RESERVED = {"np", "logger", "psi", "phi", "max", "min", "len", "None", "True", "False"}
UN = {"np.sqrt": "USqrt", "np.exp": "UExp", "np.log": "ULog", "np.arctan": "UAtan"}
BIN = {ast.Add: "BAdd", ast.Sub: "BSub", ast.Mult: "BMul", ast.Div: "BDiv"}
LOG_LEVELS = {"debug", "info", "warning", "error"}

_LIT = py2coq.Emitter("R", {}, [])


def _err(node, msg):
    raise TranslateError("pbl_model, line %s: %s" % (getattr(node, "lineno", "?"), msg))


def _ident(node, s):
    if not (isinstance(s, str) and s.isascii() and s.isidentifier()):
        _err(node, "identifier %r" % (s,))
    return s


def _str(node, s):
    if not isinstance(s, str) or any(ord(c) < 32 or ord(c) > 126 for c in s):
        _err(node, "string literal %r" % (s,))
    return '"%s"' % s.replace('"', '""')


def _is_doc(st):
    return isinstance(st, ast.Expr) and isinstance(st.value, ast.Constant) and isinstance(st.value.value, str)


def _num(node):
    v = node.value
    if isinstance(v, bool) or not isinstance(v, (int, float)):
        _err(node, "literal %r" % (v,))
    if v < 0 or (isinstance(v, float) and (v != v or v in (float("inf"),))):
        _err(node, "literal %r" % (v,))
    return _LIT.lit(v, getattr(node, "_src", None) if isinstance(v, float) else None)


class Fun:
    def __init__(self, name, params):
        self.name = name
        self.params = list(params)
        self.assigned = set()

    # ---- expressions
    def expr(self, e):
        if isinstance(e, ast.Constant):
            if e.value is None:
                return "ENone"
            if isinstance(e.value, str):
                return "(EStr %s)" % _str(e, e.value)
            return "(ENum %s)" % _num(e)
        if isinstance(e, ast.Name):
            if not isinstance(e.ctx, ast.Load):
                _err(e, "name in store position")
            if e.id in RESERVED:
                _err(e, "%s used as a value" % e.id)
            return "(EVar %s)" % _str(e, _ident(e, e.id))
        if isinstance(e, ast.Attribute):
            full = ast.unparse(e)
            if full == "np.pi":
                return "EPi"
            if full == "np.nan":
                return "ENan"
            if e.attr == "real" and isinstance(e.value, ast.Call) and ast.unparse(e.value.func) == "np.power":
                c = e.value
                kws = {k.arg: ast.unparse(k.value) for k in c.keywords}
                if len(c.args) != 2 or kws != {"dtype": "complex"}:
                    _err(e, "np.power(...).real other than np.power(a, b, dtype=complex).real")
                return "(EPowC %s %s)" % (self.expr(c.args[0]), self.expr(c.args[1]))
            _err(e, "attribute %s" % full)
        if isinstance(e, ast.UnaryOp):
            if isinstance(e.op, ast.USub):
                return "(EUn UNeg %s)" % self.expr(e.operand)
            if isinstance(e.op, ast.Not):
                return "(ENot %s)" % self.expr(e.operand)
            _err(e, "unary operator %s" % type(e.op).__name__)
        if isinstance(e, ast.BinOp):
            if isinstance(e.op, ast.Pow):
                n = e.right
                if isinstance(n, ast.Constant) and isinstance(n.value, int) and not isinstance(n.value, bool) and 1 <= n.value <= 8:
                    return "(EPowN %s %d)" % (self.expr(e.left), n.value)
                _err(e, "power with an exponent that is not an integer literal 1..8")
            if type(e.op) in BIN:
                return "(EBin %s %s %s)" % (BIN[type(e.op)], self.expr(e.left), self.expr(e.right))
            _err(e, "binary operator %s" % type(e.op).__name__)
        if isinstance(e, ast.BoolOp):
            con = "EAnd" if isinstance(e.op, ast.And) else "EOr"
            parts = [self.expr(v) for v in e.values]
            out = parts[-1]
            for p in reversed(parts[:-1]):
                out = "(%s %s %s)" % (con, p, out)
            return out
        if isinstance(e, ast.Compare):
            if len(e.ops) != 1 or len(e.comparators) != 1:
                _err(e, "comparison chain")
            op, rhs = e.ops[0], e.comparators[0]
            if isinstance(op, (ast.Is, ast.IsNot)):
                if not (isinstance(rhs, ast.Constant) and rhs.value is None):
                    _err(e, "`is` with something other than None")
                r = "(EIsNone %s)" % self.expr(e.left)
                return r if isinstance(op, ast.Is) else "(ENot %s)" % r
            if isinstance(op, (ast.Eq, ast.NotEq)):
                if not (isinstance(rhs, ast.Constant) and isinstance(rhs.value, str)):
                    _err(e, "== / != with something other than a string literal on the right")
                r = "(EStrEq %s %s)" % (self.expr(e.left), _str(rhs, rhs.value))
                return r if isinstance(op, ast.Eq) else "(ENot %s)" % r
            _err(e, "comparison %s outside np.where" % type(op).__name__)
        if isinstance(e, ast.IfExp):
            return "(EIfExp %s %s %s)" % (self.expr(e.test), self.expr(e.body), self.expr(e.orelse))
        if isinstance(e, ast.Tuple):
            if not isinstance(e.ctx, ast.Load) or any(isinstance(x, ast.Starred) for x in e.elts):
                _err(e, "tuple pattern / starred element")
            return "(ETuple [%s])" % "; ".join(self.expr(x) for x in e.elts)
        if isinstance(e, ast.Subscript):
            if not isinstance(e.ctx, ast.Load):
                _err(e, "subscript in store position")
            idx = e.slice
            if ast.unparse(idx) == "(..., np.newaxis)":
                b = e.value
                if isinstance(b, ast.Call) and ast.unparse(b.func) == "np.array" and len(b.args) == 1 and not b.keywords:
                    return "(ENewaxis %s)" % self.expr(b.args[0])
                _err(e, "[..., np.newaxis] on something other than np.array(e)")
            if isinstance(idx, ast.Constant) and isinstance(idx.value, int) and not isinstance(idx.value, bool) and 0 <= idx.value <= 64:
                return "(EIndex %s %d)" % (self.expr(e.value), idx.value)
            _err(e, "subscript %s" % ast.unparse(idx))
        if isinstance(e, ast.Call):
            return self.call(e)
        _err(e, "expression %s" % type(e).__name__)

    def call(self, e):
        if any(isinstance(a, ast.Starred) for a in e.args) or any(k.arg is None for k in e.keywords):
            _err(e, "starred argument")
        f = ast.unparse(e.func)
        a = e.args
        if f in UN:
            if len(a) != 1 or e.keywords:
                _err(e, "arguments of %s" % f)
            return "(EUn %s %s)" % (UN[f], self.expr(a[0]))
        if f == "np.where":
            if len(a) != 3 or e.keywords:
                _err(e, "arguments of np.where")
            c = a[0]
            if not (isinstance(c, ast.Compare) and len(c.ops) == 1 and isinstance(c.ops[0], (ast.Gt, ast.Lt))):
                _err(e, "np.where condition other than x > y / x < y")
            l, r = self.expr(c.left), self.expr(c.comparators[0])
            if isinstance(c.ops[0], ast.Lt):
                l, r = r, l
            return "(EWhereGt %s %s %s %s)" % (l, r, self.expr(a[1]), self.expr(a[2]))
        if f in EFUNS:
            if len(a) != 1 or e.keywords:
                _err(e, "arguments of %s" % f)
            return "(ECall %s %s)" % (_str(e, f), self.expr(a[0]))
        if f == "np.arange":
            if len(a) != 3 or e.keywords:
                _err(e, "np.arange other than np.arange(start, stop, step)")
            return "(EArange %s %s %s)" % tuple(self.expr(x) for x in a)
        if f == "np.ones":
            if len(a) == 1 and not e.keywords and isinstance(a[0], ast.Call) and ast.unparse(a[0].func) == "len" \
                    and len(a[0].args) == 1 and not a[0].keywords:
                return "(EOnesLike %s)" % self.expr(a[0].args[0])
            _err(e, "np.ones other than np.ones(len(x))")
        if isinstance(e.func, ast.Attribute) and e.func.attr == "item" and not a and not e.keywords:
            b = e.func.value
            if isinstance(b, ast.Call) and ast.unparse(b.func) == "np.squeeze" and len(b.args) == 1 and not b.keywords:
                return "(ESqueezeItem %s)" % self.expr(b.args[0])
            _err(e, ".item() on something other than np.squeeze(e)")
        if f in ("max", "min"):
            if len(a) != 1 or e.keywords:
                _err(e, "arguments of %s" % f)
            return "(%s %s)" % ("EMax" if f == "max" else "EMin", self.expr(a[0]))
        _err(e, "call of %s" % f)

    # ---- statements
    def bind(self, node, name):
        _ident(node, name)
        if name in RESERVED or name in FUNCS:
            _err(node, "assignment to %s" % name)
        self.assigned.add(name)
        return _str(node, name)

    def block(self, body, top=False):
        out = []
        for k, st in enumerate(body):
            if top and k == 0 and _is_doc(st):
                continue
            out += self.stmt(st)
        return out

    def blk(self, body):
        return _blk(self.block(body))

    def unpack(self, st, target, value):
        """target a Tuple pattern"""
        if any(not isinstance(t, (ast.Name, ast.Tuple)) for t in target.elts):
            _err(st, "unpacking target")
        if isinstance(value, ast.Tuple) and len(value.elts) == len(target.elts) \
                and not any(isinstance(x, ast.Starred) for x in value.elts):
            # a, (b, c) = e1, e2  ==  a = e1; (b, c) = e2   when no target name is read on the right-hand side
            tnames = {n.id for n in ast.walk(target) if isinstance(n, ast.Name)}
            rnames = {n.id for n in ast.walk(value) if isinstance(n, ast.Name)}
            if tnames & rnames:
                _err(st, "tuple assignment whose targets are read on its right-hand side")
            out = []
            for t, v in zip(target.elts, value.elts):
                if isinstance(t, ast.Name):
                    rhs = self.expr(v)
                    out.append("SAssign [%s] %s" % (self.bind(st, t.id), rhs))
                else:
                    out += self.unpack(st, t, v)
            return out
        if not all(isinstance(t, ast.Name) for t in target.elts):
            _err(st, "nested unpacking of something that is not a tuple display")
        names = [t.id for t in target.elts]
        if len(set(names)) != len(names):
            _err(st, "duplicate unpacking target")
        rhs = self.expr(value)
        return ["SUnpack [%s] %s" % ("; ".join(self.bind(st, n) for n in names), rhs)]

    def stmt(self, st):
        if isinstance(st, ast.Pass):
            return []
        if isinstance(st, ast.Assign):
            if all(isinstance(t, ast.Name) for t in st.targets):
                rhs = self.expr(st.value)
                return ["SAssign [%s] %s" % ("; ".join(self.bind(st, t.id) for t in st.targets), rhs)]
            if len(st.targets) == 1 and isinstance(st.targets[0], ast.Tuple):
                return self.unpack(st, st.targets[0], st.value)
            _err(st, "assignment target")
        if isinstance(st, ast.If):
            return ["SIf %s %s %s" % (self.expr(st.test), self.blk(st.body), self.blk(st.orelse))]
        if isinstance(st, ast.Return):
            return ["SReturn %s" % ("ENone" if st.value is None else self.expr(st.value))]
        if isinstance(st, ast.Raise):
            ex = st.exc
            if st.cause is not None or not (isinstance(ex, ast.Call) and isinstance(ex.func, ast.Name)
                                            and ex.func.id in EXN and not ex.keywords and len(ex.args) == 1
                                            and _is_text(ex.args[0])):
                _err(st, "raise other than raise <ValueError|TypeError|IndexError>(<text>)")
            return ["SRaise %s" % EXN[ex.func.id]]
        if isinstance(st, ast.Expr) and isinstance(st.value, ast.Call):
            c = st.value
            f = c.func
            if isinstance(f, ast.Attribute) and isinstance(f.value, ast.Name) and f.value.id == "logger" and f.attr in LOG_LEVELS:
                if c.keywords or not c.args or not (isinstance(c.args[0], ast.Constant) and isinstance(c.args[0].value, str)) \
                        or any(isinstance(x, ast.Starred) for x in c.args):
                    _err(st, "logger call other than logger.<level>(<string literal>, e1, ...)")
                return ["SLog [%s]" % "; ".join(self.expr(x) for x in c.args[1:])]
        _err(st, "statement %s" % type(st).__name__)


def _is_text(e):
    """a string literal, an f-string or an implicit concatenation of them; f-string fields may only be plain names"""
    if isinstance(e, ast.Constant) and isinstance(e.value, str):
        return True
    if isinstance(e, ast.JoinedStr):
        for v in e.values:
            if isinstance(v, ast.FormattedValue):
                if not isinstance(v.value, ast.Name) or v.format_spec is not None:
                    return False
            elif not (isinstance(v, ast.Constant) and isinstance(v.value, str)):
                return False
        return True
    return False


def _blk(items):
    return "[" + "; ".join(items) + "]" if items else "[]"


def _params(fn, defaults_allowed):
    a = fn.args
    if a.vararg or a.kwarg or a.kwonlyargs or a.kw_defaults or getattr(a, "posonlyargs", []):
        _err(fn, "function %s: only plain parameters" % fn.name)
    if fn.decorator_list:
        _err(fn, "decorated function %s" % fn.name)
    if fn.returns is not None or any(x.annotation is not None for x in a.args):
        _err(fn, "annotations on %s" % fn.name)
    names = [_ident(fn, x.arg) for x in a.args]
    if len(set(names)) != len(names) or set(names) & (RESERVED | set(FUNCS)):
        _err(fn, "parameter names of %s" % fn.name)
    if a.defaults and not defaults_allowed:
        _err(fn, "defaults on %s" % fn.name)
    nreq = len(names) - len(a.defaults)
    out = []
    for k, n in enumerate(names):
        if k < nreq:
            out.append((n, "DReq"))
            continue
        d = a.defaults[k - nreq]
        if isinstance(d, ast.Constant) and d.value is None:
            out.append((n, "DNone"))
        elif isinstance(d, ast.Constant) and isinstance(d.value, str):
            out.append((n, "(DStr %s)" % _str(d, d.value)))
        elif isinstance(d, ast.Constant):
            out.append((n, "(DNum %s)" % _num(d)))
        else:
            _err(d, "default of %s is not None, a number or a string" % n)
    return out


def _module_checks(mod):
    funs = {}
    for st in mod.body:
        if isinstance(st, ast.FunctionDef):
            if st.name in funs:
                _err(st, "function %s defined twice" % st.name)
            funs[st.name] = st
    for f in FUNCS:
        if f not in funs:
            raise TranslateError("pbl_model: module-level function %s not found" % f)
    np_imports = 0
    logger_defs = 0
    for n in ast.walk(mod):
        if isinstance(n, (ast.Global, ast.Nonlocal)):
            _err(n, "global / nonlocal")
        if isinstance(n, (ast.Import, ast.ImportFrom)):
            for al in n.names:
                bound = al.asname or al.name.split(".")[0]
                if bound == "np":
                    if not (isinstance(n, ast.Import) and al.name == "numpy") or n not in mod.body:
                        _err(n, "np is not `import numpy as np` at module level")
                    np_imports += 1
                elif bound in RESERVED or bound in FUNCS or bound == "*":
                    _err(n, "import binds %s" % bound)
        if isinstance(n, (ast.FunctionDef, ast.ClassDef, ast.AsyncFunctionDef)):
            if (n.name in RESERVED or n.name in FUNCS) and funs.get(n.name) is not n:
                _err(n, "definition of %s" % n.name)
        if isinstance(n, ast.Name) and not isinstance(n.ctx, ast.Load):
            if n.id == "logger":
                logger_defs += 1
            elif n.id in RESERVED or n.id in FUNCS:
                _err(n, "assignment to %s" % n.id)
        if isinstance(n, ast.arg) and (n.arg in RESERVED or n.arg in FUNCS):
            _err(n, "parameter named %s" % n.arg)
        if isinstance(n, ast.Attribute) and not isinstance(n.ctx, ast.Load) and isinstance(n.value, ast.Name) \
                and n.value.id in ("np", "logger"):
            _err(n, "store into %s.%s" % (n.value.id, n.attr))
    if np_imports != 1:
        raise TranslateError("pbl_model: expected exactly one `import numpy as np`")
    lg = [st for st in mod.body if isinstance(st, ast.Assign) and len(st.targets) == 1
          and isinstance(st.targets[0], ast.Name) and st.targets[0].id == "logger"]
    if logger_defs != 1 or len(lg) != 1 or not ast.unparse(lg[0].value).startswith("get_logger("):
        raise TranslateError("pbl_model: logger must be bound once, at module level, by get_logger(...)")
    return funs


def _efun(fn):
    ps = _params(fn, False)
    if len(ps) != 1:
        _err(fn, "%s must take one argument" % fn.name)
    f = Fun(fn.name, [p for p, _ in ps])
    body = [st for k, st in enumerate(fn.body) if not (k == 0 and _is_doc(st))]
    if not body or not isinstance(body[-1], ast.Return) or body[-1].value is None:
        _err(fn, "%s must end with return <expr>" % fn.name)
    lets = []
    for st in body[:-1]:
        if not (isinstance(st, ast.Assign) and len(st.targets) == 1 and isinstance(st.targets[0], ast.Name)):
            _err(st, "statement of %s other than x = e" % fn.name)
        rhs = f.expr(st.value)
        lets.append("(%s, %s)" % (f.bind(st, st.targets[0].id), rhs))
    return "mkEFun %s [%s]\n    %s" % (_str(fn, ps[0][0]), ";\n    ".join(lets), f.expr(body[-1].value))


def translate_source(text, filename="pbl_model.py"):
    try:
        mod = ast.parse(text, filename)
    except SyntaxError as e:
        raise TranslateError("cannot parse %s: %s" % (filename, e))
    py2coq._annotate_float_text(mod, text)
    funs = _module_checks(mod)
    out = [
        "(* generated by harness/py2coq_pbl.py from %s; do not edit *)" % filename,
        "From Coq Require Import Reals List String.",
        "From BL Require Import Model.Pbl Model.PblDesc.",
        "Import ListNotations.",
        "Open Scope string_scope.",
        "Open Scope list_scope.",
        "Open Scope R_scope.",
        "",
    ]
    for f in EFUNS:
        out.append("Definition gen_%s_def : efun :=\n  %s." % (f, _efun(funs[f])))
        out.append("")
    vp = funs["vertical_profiles"]
    ps = _params(vp, True)
    f = Fun("vertical_profiles", [p for p, _ in ps])
    body = f.block(vp.body, top=True)
    out.append("Definition gen_vp_def : fundef := mkFun\n  [%s]\n  [" % "; ".join("(%s, %s)" % (_str(vp, p), d) for p, d in ps))
    out.append(";\n".join("  " + s for s in body) + "].")
    out.append("")
    out += [
        "Definition gen_fenv : fenv := [%s]." % "; ".join('("%s", efun_sem gen_%s_def)' % (g, g) for g in EFUNS),
        "Definition gen_vp (a : vp_args) : answer := call gen_fenv gen_vp_def (supplied a).",
        "",
    ]
    return "\n".join(out), {"statements": sum(s.count("SAssign") + s.count("SUnpack") + s.count("SIf ") + s.count("SRaise")
                                              + s.count("SReturn") + s.count("SLog") for s in body),
                            "parameters": len(ps)}


def translate(path):
    try:
        text = open(path).read()
    except OSError as e:
        raise TranslateError("cannot read %s: %s" % (path, e))
    return translate_source(text, path)


if __name__ == "__main__":
    import sys

    print(translate(sys.argv[1] if len(sys.argv) > 1 else "/repo/src/bldfm/pbl_model.py")[0])
