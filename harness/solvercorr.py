"""Shared float correspondence between bldfm.solver.steady_state_transport_solver and
Model/Solver.v instantiated with IEEE doubles (FloatOps), evaluated by vm_compute.
Used by the checks of C01–C07, C10, C11 with different case generators."""
import math
import os
import re
import sys

import numpy as np

import core

HEADER = (
    "From Coq Require Import ZArith PrimFloat List Bool.\n"
    "From BL Require Import Base.Ops Base.FloatOps Model.Solver Model.SolverExec.\n"
    "Import ListNotations.\nOpen Scope float_scope.\n"
)

ERR = {1: "ModesOdd", 2: "NegativePad", 3: "LevelIndex", 4: "EmptyGrid", 99: "crash", 98: "misshaped"}


def impl():
    if core.SRC not in sys.path:
        sys.path.insert(0, core.SRC)
    import logging

    logging.disable(logging.CRITICAL)
    import bldfm.solver as S

    return S


# ---------------------------------------------------------------------------------------------
# case generation


def profiles(rng, nz, kind="vary", aniso=True, wind=None):
    """z strictly increasing; positive diffusivities; returns (z, (u, v, Kx, Ky, Kz))."""
    z0 = rng.choice([0.05, 0.1, 0.25, 0.5])
    H = rng.choice([0.6, 1.0, 1.5, 2.5])
    if rng.random() < 0.5:
        z = z0 + H * np.linspace(0.0, 1.0, nz)
    else:
        z = z0 + H * (np.linspace(0.0, 1.0, nz) ** rng.choice([1.5, 2.0]))
    if wind is None:
        ang = rng.uniform(0, 2 * math.pi)
        U = rng.choice([0.0, 0.5, 1.0, 3.0])
        um, vm = U * math.cos(ang), U * math.sin(ang)
    else:
        um, vm = wind
    if kind == "const":
        u = np.full(nz, um)
        v = np.full(nz, vm)
        Kz = np.full(nz, rng.choice([0.3, 0.5, 1.0, 2.0]))
        Kx = Kz * (rng.choice([0.5, 1.0, 2.0]) if aniso else 1.0)
        Ky = Kz * (rng.choice([0.25, 1.0, 1.5]) if aniso else 1.0)
    else:
        s = np.log(z / z[0] + 1.0) / np.log(z[-1] / z[0] + 1.0)
        u = um * (0.3 + 0.7 * s)
        v = vm * (0.3 + 0.7 * s)
        k0 = rng.choice([0.3, 0.5, 1.0])
        Kz = k0 * (0.2 + z / z[-1]) ** rng.choice([0.5, 1.0, 1.3])
        Kx = Kz * (rng.choice([0.5, 1.0, 2.0]) if aniso else 1.0)
        Ky = Kz * (rng.choice([0.25, 1.0, 1.5]) if aniso else 1.0)
    return z, (u.copy(), v.copy(), Kx.copy(), Ky.copy(), Kz.copy())


def growth(case):
    """max over retained modes of sum_i Re sqrt(-T_i/Kz_i) dz_i (shooting growth exponent)"""
    z = case["z"]
    u, v, Kx, Ky, Kz = case["profiles"]
    ny, nx = case["q0"].shape
    xmx, ymx = case["domain"]
    dx, dy = xmx / nx, ymx / ny
    lxm, lym = math.pi / dx, math.pi / dy
    dz = np.diff(z)
    g = 0.0
    for lx in (lxm, 0.0):
        for ly in (lym, 0.0):
            T = -(Kx * lx**2 + Ky * ly**2) - 1j * u * lx - 1j * v * ly
            lam = np.sqrt(-T / Kz)
            g = max(g, float(np.sum(lam.real[:-1] * dz)))
    return g


def tame(case, bound=5.0):
    """shrink the column height until the shooting growth exponent is below the bound"""
    for _ in range(40):
        g = growth(case)
        if g <= bound:
            break
        z = case["z"]
        case["z"] = z[0] + (z - z[0]) * max(0.3, bound / g * 0.95)
    case["growth"] = growth(case)
    return case


def source(rng, ny, nx, kind=None):
    kind = kind or rng.choice(["random", "sparse", "smooth", "signed"])
    if kind == "random":
        q = np.array([[rng.randint(0, 16) / 8.0 for _ in range(nx)] for _ in range(ny)])
    elif kind == "sparse":
        q = np.zeros((ny, nx))
        for _ in range(rng.randint(1, 3)):
            q[rng.randrange(ny), rng.randrange(nx)] = rng.choice([1.0, 2.5, 0.75])
    elif kind == "smooth":
        jj, ii = np.meshgrid(np.arange(ny), np.arange(nx), indexing="ij")
        q = np.exp(-((ii - nx / 2.0) ** 2 + (jj - ny / 3.0) ** 2) / 4.0)
    else:
        q = np.array([[rng.randint(-8, 8) / 4.0 for _ in range(nx)] for _ in range(ny)])
    return q


def mk_case(rng, nx=None, ny=None, nz=None, modes=None, halo="rand", levels=None, footprint=None,
            analytic=False, precision=None, kind="vary", meas="rand", bg=None, src=None, aniso=True,
            wind=None, domain=None):
    nx = nx or rng.choice([3, 4, 5, 6])
    ny = ny or rng.choice([3, 4, 5, 6])
    nz = nz or rng.choice([2, 3, 4, 6])
    if domain is None:
        dx = rng.choice([1.0, 1.5, 2.0, 2.5])
        dy = rng.choice([1.0, 1.25, 2.0, 3.0])
        domain = (nx * dx, ny * dy)
    dx, dy = domain[0] / nx, domain[1] / ny
    if analytic:
        kind = "const"
    z, prof = profiles(rng, nz, kind=kind, aniso=aniso, wind=wind)
    if halo == "rand":
        halo = rng.choice([0.0, None, dx, 2 * dy, 1.3 * dx, 0.7 * dy + 0.01, 2.6 * dx])
        if halo is None and max(nx, ny) > 4:
            halo = rng.choice([0.0, dx, 1.3 * dx])  # keep padded grids small
    if footprint is None:
        footprint = rng.random() < 0.5
    if levels is None:
        levels = rng.choice([nz - 1, [nz - 1], [0, nz - 1], sorted(rng.sample(range(nz), min(nz, 2)))])
    if modes is None:
        modes = rng.choice([(2, 2), (4, 4), (4, 2), (6, 4), (8, 8), (64, 64)])
    if meas == "rand":
        meas = rng.choice([(0.0, 0.0), (dx * rng.randrange(nx), dy * rng.randrange(ny)), (0.37 * domain[0], 0.61 * domain[1])])
    if precision is None:
        precision = rng.choice(["double", "double", "single"])
    if bg is None:
        bg = rng.choice([0.0, 0.0, 1.5, -2.0])
    q0 = source(rng, ny, nx, src)
    case = dict(q0=q0, z=z, profiles=prof, domain=tuple(float(d) for d in domain), levels=levels, modes=tuple(modes),
                meas_pt=tuple(float(m) for m in meas), bg=float(bg), footprint=bool(footprint), analytic=bool(analytic),
                halo=None if halo is None else float(halo), precision=precision)
    return tame(case)


def describe(case):
    ny, nx = case["q0"].shape
    return dict(nx=nx, ny=ny, nz=len(case["z"]), domain=case["domain"], levels=case["levels"] if not isinstance(case["levels"], np.ndarray) else case["levels"].tolist(),
                modes=case["modes"], meas_pt=case["meas_pt"], bg=case["bg"], footprint=case["footprint"],
                analytic=case["analytic"], halo=case["halo"], precision=case["precision"],
                growth=round(case.get("growth", 0.0), 3))


def full(case):
    """JSON-serialisable complete case (for replays)"""
    d = describe(case)
    d["q0"] = case["q0"].tolist()
    d["z"] = case["z"].tolist()
    d["profiles"] = [p.tolist() for p in case["profiles"]]
    for extra in ("_present", "_threads", "_alias"):
        if case.get(extra):
            d[extra] = case[extra]
    return d


def from_full(d):
    c = dict(q0=np.array(d["q0"], dtype=float), z=np.array(d["z"], dtype=float),
             profiles=tuple(np.array(p, dtype=float) for p in d["profiles"]),
             domain=tuple(d["domain"]), levels=d["levels"], modes=tuple(d["modes"]), meas_pt=tuple(d["meas_pt"]),
             bg=d["bg"], footprint=d["footprint"], analytic=d["analytic"], halo=d["halo"], precision=d["precision"])
    for extra in ("_present", "_threads", "_alias"):
        if d.get(extra):
            c[extra] = d[extra]
    return c


# ---------------------------------------------------------------------------------------------
# implementation


def build_args(case):
    """the objects actually handed to the solver.  case["_present"] chooses HOW the values are presented (the values
    themselves, which the model receives, are unchanged): integer-typed arrays for integer-valued data, the
    measurement point as a float64 ndarray, the levels as an int64 ndarray."""
    pres = case.get("_present") or {}
    q0, z, prof, meas, levels = case["q0"], case["z"], case["profiles"], case["meas_pt"], case["levels"]
    if pres.get("int"):
        def asint(a):
            b = np.asarray(a).astype(np.int64)
            assert np.array_equal(b.astype(float), np.asarray(a, dtype=float)), "int presentation of non-integer data"
            return b
        q0, z, prof = asint(q0), asint(z), tuple(asint(a) for a in prof)
    if pres.get("f32"):
        def asf32(a):
            b = np.asarray(a).astype(np.float32)
            assert np.array_equal(b.astype(float), np.asarray(a, dtype=float)), "float32 presentation of data that are not float32 numbers"
            return b
        z, prof = asf32(z), tuple(asf32(a) for a in prof)
    if pres.get("meas_nd"):
        meas = np.array(meas, dtype=float)
    if pres.get("levels_nd") and np.ndim(levels) > 0:
        levels = np.array(levels_list(case), dtype=np.int64)
    return dict(q0=q0, z=z, profiles=prof, meas_pt=meas, levels=levels)


def _snapshot(objs):
    snap = {}
    for name, a in (("q0", objs["q0"]), ("z", objs["z"]), ("meas_pt", objs["meas_pt"]), ("levels", objs["levels"])):
        if isinstance(a, np.ndarray):
            snap[name] = (a, a.copy(), a.dtype)
    for i, a in enumerate(objs["profiles"]):
        if isinstance(a, np.ndarray):
            snap["profiles[%d]" % i] = (a, a.copy(), a.dtype)
    return snap


def _mutated(snap):
    return [n for n, (a, before, dt) in snap.items() if a.dtype != dt or a.shape != before.shape or not np.array_equal(a, before, equal_nan=True)]


def call(S, case, cache=None, objs=None, **over):
    c = dict(case)
    c.update(over)
    o = objs or build_args(c)
    kw = {} if cache is None else {"cache": cache}
    thr = c.get("_threads")
    if thr:
        import bldfm.config as bcfg
        old = bcfg.NUM_THREADS
        bcfg.NUM_THREADS = int(thr)
    try:
        return S.steady_state_transport_solver(
            o["q0"], o["z"], o["profiles"], c["domain"], o["levels"], modes=c["modes"], meas_pt=o["meas_pt"],
            srf_bg_conc=c["bg"], footprint=c["footprint"], analytic=c["analytic"], halo=c["halo"],
            precision=c["precision"], **kw)
    finally:
        if thr:
            bcfg.NUM_THREADS = old


def levels_list(case):
    lv = case["levels"]
    if np.ndim(lv) == 0:
        return [int(lv)]
    return [int(l) for l in lv]


def run_impl(S, case, cache=None, scribble=False, objs=None):
    """scribble=True plays a caller that edits the arrays it was given in place (normalising, clipping) after the
    result has been recorded: a later call must not see those edits.  Every array handed to the solver is compared
    with a copy taken before the call: a call that edits its caller's arrays is recorded under "mutated"."""
    ny, nx = case["q0"].shape
    nl = len(levels_list(case))
    objs = objs or build_args(case)
    snap = _snapshot(objs)
    try:
        with np.errstate(all="ignore"):
            (X, Y, Z), conc, flx = call(S, case, cache=cache, objs=objs)
        raw = (X, Y, Z, conc, flx)
    except ValueError as e:
        if "even" in str(e):
            return {"err": 1, "msg": str(e), "mutated": _mutated(snap)}
        if "negative" in str(e):
            return {"err": 2, "msg": str(e), "mutated": _mutated(snap)}
        return {"err": 99, "msg": "ValueError: " + str(e), "mutated": _mutated(snap)}
    except IndexError as e:
        return {"err": 3, "msg": str(e), "mutated": _mutated(snap)}
    except Exception as e:  # noqa
        return {"err": 99, "msg": type(e).__name__ + ": " + str(e), "mutated": _mutated(snap)}
    conc = np.asarray(conc, dtype=float)
    flx = np.asarray(flx, dtype=float)
    if conc.size != nl * ny * nx or flx.size != nl * ny * nx or np.size(X) != nl * ny * nx:
        return {"err": 98, "msg": "shape %r for source %r, %d levels" % (conc.shape, (ny, nx), nl), "shape": list(conc.shape), "mutated": _mutated(snap)}
    X3, Y3, Z3 = (np.asarray(A, dtype=float).reshape(nl, ny, nx) for A in (X, Y, Z))
    x, y, z = X3[0, 0, :], Y3[0, :, 0], Z3[:, 0, 0]
    mesh_ok = bool(np.array_equal(X3, np.broadcast_to(x[None, None, :], X3.shape)) and
                   np.array_equal(Y3, np.broadcast_to(y[None, :, None], Y3.shape)) and
                   np.array_equal(Z3, np.broadcast_to(z[:, None, None], Z3.shape)))
    rec = {"err": 0, "x": x.copy(), "y": y.copy(), "z": z.copy(), "conc": conc.reshape(nl, ny, nx).copy(), "flx": flx.reshape(nl, ny, nx).copy(),
           "shape": list(conc.shape), "mesh_ok": mesh_ok and list(np.shape(X)) == list(conc.shape) == list(flx.shape),
           "mutated": _mutated(snap)}
    if scribble:
        for A in raw:
            try:
                if isinstance(A, np.ndarray) and A.flags.writeable and A.ndim > 0:
                    A[...] = 12345.678
            except Exception:
                pass
    return rec


# ---------------------------------------------------------------------------------------------
# Coq terms


def fl(x):
    return core.flit(x)


def l1(a):
    return "[" + "; ".join(fl(x) for x in a) + "]"


def l2(a):
    return "[" + "; ".join(l1(r) for r in a) + "]"


def l3(a):
    return "[" + "; ".join(l2(r) for r in a) + "]"


def nat_list(a):
    return "[" + "; ".join("%d%%nat" % x for x in a) + "]"


def args_term(case):
    u, v, Kx, Ky, Kz = case["profiles"]
    halo = "None" if case["halo"] is None else "(Some (fr %s))" % fl(case["halo"])
    return ("(mkArgs FloatOps (R2 %s) (R1 %s) (mkProf FloatOps (R1 %s) (R1 %s) (R1 %s) (R1 %s) (R1 %s)) (fr %s) (fr %s) %s "
            "%d%%nat %d%%nat (fr %s) (fr %s) (fr %s) %s %s %s %s)") % (
        l2(case["q0"]), l1(case["z"]), l1(u), l1(v), l1(Kx), l1(Ky), l1(Kz),
        fl(case["domain"][0]), fl(case["domain"][1]), nat_list(levels_list(case)),
        case["modes"][0], case["modes"][1], fl(case["meas_pt"][0]), fl(case["meas_pt"][1]), fl(case["bg"]),
        "true" if case["footprint"] else "false", "true" if case["analytic"] else "false", halo,
        "true" if case["precision"] == "single" else "false")


def exp_term(r):
    return "(mkExp %s %s %s %s %s %s)" % (l1(r["x"]), l1(r["y"]), l1(r["z"]), l3(r["conc"]), l3(r["flx"]), nat_list(r["shape"]))


def parse_float(s):
    s = s.strip()
    if s in ("nan",):
        return float("nan")
    if s in ("infinity",):
        return float("inf")
    if s in ("neg_infinity",):
        return float("-inf")
    return float(s)


def parse_compare(txt):
    # (0%Z, 1.2e-13, 0.5, ..., true)
    t = txt.strip().strip("()")
    parts = [p.strip() for p in t.split(",")]
    code = int(parts[0].replace("%Z", "").strip("() "))
    return code, parse_float(parts[1]), parse_float(parts[2]), parse_float(parts[3]), parse_float(parts[4]), parts[5] == "true"


def tolerance(case):
    return 2e-6 if case["precision"] == "single" else 1e-8


SIBLING_KINDS = ["domain-x", "domain-y", "source-scale", "bg", "meas", "precision", "levels-reversed", "halo", "source-values",
                 # round 4: the same array OBJECTS refilled in place by the caller between two calls; a request that
                 # reaches the same padded extent with a smaller interior; integer-typed arrays; long level lists with
                 # repeats; the tower at the origin cell; the same request under several numerical threads
                 "source-inplace", "profiles-inplace", "interior-shrink", "int-dtype", "levels-many", "meas-origin", "threads",
                 # fewer retained modes on the same padded geometry, right after the full-spectrum call (a work array that is
                 # only rewritten in the retained block keeps the earlier call's high wavenumbers)
                 "modes-fewer",
                 # the same column refined to 70 layers (fast paths that switch on for tall grids)
                 "nz-many"]
ALIAS_KINDS = {"source-inplace": ["q0"], "profiles-inplace": ["profiles"]}


def copy_case(case):
    c = dict(case)
    c["q0"] = np.array(case["q0"], dtype=float, copy=True)
    c["z"] = np.array(case["z"], dtype=float, copy=True)
    c["profiles"] = tuple(np.array(a, dtype=float, copy=True) for a in case["profiles"])
    for k in ("_sibling", "_alias", "_present", "_threads", "_parent"):
        c.pop(k, None)
    return c


def _resolved_halo(case):
    return max(case["domain"]) if case["halo"] is None else case["halo"]


def alias_parent(case, kind):
    """a private copy of `case` that serves as the first call of an in-place pair (the given cases are never edited);
    for source-inplace its source is quantised to multiples of 1/256 so that every re-arrangement has exactly the same
    sum (a stale-content test that compares sums must not be able to tell the two sources apart)"""
    c = copy_case(case)
    if kind == "source-inplace":
        c["q0"] = np.round(c["q0"] * 256.0) / 256.0
        if not np.any(c["q0"]):
            c["q0"][0, 0] = 1.0
    return tame(c, bound=1e9)


def sibling(rng, case, kind):
    """a request that differs from `case` in exactly one argument (same array shapes): run right after it in the same
    process, it exposes results that depend on what was solved before (memoised intermediates keyed too coarsely)"""
    c = dict(case)
    ny, nx = case["q0"].shape
    if kind == "domain-x":
        c["domain"] = (case["domain"][0] * 1.5, case["domain"][1])
        if case["halo"]:
            c["halo"] = case["halo"] * 1.5
        c["meas_pt"] = (case["meas_pt"][0] * 1.5, case["meas_pt"][1])
    elif kind == "domain-y":
        c["domain"] = (case["domain"][0], case["domain"][1] * 1.25)
    elif kind == "source-scale":
        c["q0"] = case["q0"] * 2.0 ** rng.choice([-58, -36, -31, 9])
        c["bg"] = 0.0  # a tiny response must not hide behind the background in the per-field tolerance
    elif kind == "source-values":
        c["q0"] = source(rng, ny, nx)
    elif kind == "bg":
        c["bg"] = case["bg"] + rng.choice([1.0, -2.5, 3.875])
    elif kind == "meas":
        dx, dy = case["domain"][0] / nx, case["domain"][1] / ny
        c["meas_pt"] = (float(dx * ((round(case["meas_pt"][0] / dx) + 1) % nx)), float(dy * ((round(case["meas_pt"][1] / dy) + 2) % ny)))
    elif kind == "precision":
        c["precision"] = "single" if case["precision"] == "double" else "double"
    elif kind == "levels-reversed":
        lv = levels_list(case)
        c["levels"] = lv[::-1] if len(lv) > 1 else [lv[0], 0]
    elif kind == "halo":
        c["halo"] = 0.0 if case["halo"] is None or case["halo"] > 0 else float(case["domain"][0] / nx)
    elif kind == "source-inplace":
        # `case` is an alias_parent: same ndarray object, refilled in place with a re-arrangement of equal sum
        q = case["q0"][::-1, ::-1].copy()
        if np.array_equal(q, case["q0"]):
            q = np.roll(case["q0"], 1, axis=1).copy()
        if np.array_equal(q, case["q0"]):
            q = case["q0"].copy()
            q[0, 0] += 1.0
        c["q0"] = q
        c["_alias"] = ["q0"]
    elif kind == "profiles-inplace":
        u, v, Kx, Ky, Kz = (a.copy() for a in case["profiles"])
        if np.any(u):
            u = -u
        else:
            Kz = Kz * 2.0
            if case["analytic"]:
                pass
        v = v * 0.5
        c["profiles"] = (u, v, Kx, Ky, Kz)
        c["_alias"] = ["profiles"]
    elif kind == "interior-shrink":
        if nx < 4 or ny < 4:
            raise ValueError("too small to shrink")
        dx, dy = case["domain"][0] / nx, case["domain"][1] / ny
        h = _resolved_halo(case)
        px, py = int(h / dx), int(h / dy)
        c["q0"] = case["q0"][1:-1, 1:-1].copy()
        c["domain"] = (float((nx - 2) * dx), float((ny - 2) * dy))
        dx2, dy2 = c["domain"][0] / (nx - 2), c["domain"][1] / (ny - 2)
        cands = [(px + 1) * dx2 * (1 + 1e-9), (py + 1) * dy2 * (1 + 1e-9), (px + 1.5) * dx2, (py + 1.5) * dy2]
        good = [hh for hh in cands if int(hh / dx2) == px + 1 and int(hh / dy2) == py + 1]
        if not good:
            raise ValueError("no halo pads one more cell on both axes")
        c["halo"] = float(good[0])
    elif kind == "int-dtype":
        nz = len(case["z"])
        u, v, Kx, Ky, Kz = case["profiles"]
        c["z"] = np.arange(1.0, nz + 1.0)
        if case["analytic"]:
            ints = lambda a, lo, hi: np.full(nz, float(min(hi, max(lo, round(float(a[0]))))))
            c["profiles"] = (ints(u, -2, 2), ints(v, -2, 2), np.full(nz, 3.0), np.full(nz, 1.0), np.full(nz, 2.0))
        else:
            ints = lambda a, lo, hi: np.clip(np.rint(np.asarray(a, dtype=float)), lo, hi)
            ii = np.arange(nz)
            # diffusivities 1, 2, 3 in turn: reciprocals and resistances are not whole numbers
            c["profiles"] = (ints(u, -2, 2), ints(v, -2, 2), 1.0 + (ii + 1) % 3, 1.0 + (ii + 2) % 3, 2.0 + ii % 2)
        c["q0"] = np.rint(case["q0"] * 8.0)
        if not np.any(c["q0"]):
            c["q0"][0, 0] = 3.0
        c["domain"] = (32.0 * nx, 32.0 * ny)
        c["halo"] = None if case["halo"] is None else 32.0 * int(case["halo"] / (case["domain"][0] / nx))
        c["meas_pt"] = (32.0 * rng.randrange(nx), 32.0 * rng.randrange(ny)) if case["footprint"] else (0.0, 0.0)
        c["_present"] = {"int": True}
        return tame(c, bound=1e9)
    elif kind == "levels-many":
        nz = len(case["z"])
        c["levels"] = [rng.randrange(nz) for _ in range(rng.choice([33, 37, 41]))]
    elif kind == "meas-origin":
        c["meas_pt"] = (0.0, 0.0)
        if case["halo"] == 0.0:
            c["halo"] = float(1.3 * case["domain"][0] / nx)
    elif kind == "threads":
        c["_threads"] = 4
    elif kind == "nz-many":
        z = np.asarray(case["z"], dtype=float)
        nzn = 70
        t_old = np.linspace(0.0, 1.0, len(z))
        t_new = np.linspace(0.0, 1.0, nzn)
        c["z"] = np.interp(t_new, t_old, z)
        c["profiles"] = tuple(np.interp(t_new, t_old, np.asarray(a, dtype=float)) for a in case["profiles"])
        lv = levels_list(case)
        remap = lambda l: int(round(l * (nzn - 1) / max(1, len(z) - 1)))
        c["levels"] = [remap(l) for l in lv] if np.ndim(case["levels"]) > 0 else remap(lv[0])
    elif kind == "modes-fewer":
        if tuple(case["modes"]) == (2, 2):
            raise ValueError("already the smallest mode request")
        c["modes"] = (2, 2)
    return tame(c, bound=1e9)  # keep the column (same z): only recompute the growth figure


def run_pair(S, parent, sib):
    """first `parent`, then `sib` right after it in the same process.  For the in-place kinds (sib["_alias"]) the second
    call receives the SAME array objects the first call was given, refilled in place with the sibling's values — what a
    script does that loops over scenarios re-using its buffers.  Returns (record of parent, record of sibling)."""
    pobjs = build_args(parent)
    rp = run_impl(S, parent, objs=pobjs)
    alias = sib.get("_alias") or []
    if not alias:
        return rp, run_impl(S, sib)
    sobjs = build_args(sib)
    # the caller re-uses ALL its buffers: arguments whose values are unchanged are the very same objects as in the first call
    for name in ("q0", "z"):
        if name not in alias and isinstance(pobjs[name], np.ndarray) and isinstance(sobjs[name], np.ndarray) \
                and pobjs[name].dtype == sobjs[name].dtype and np.array_equal(pobjs[name], sobjs[name]):
            sobjs[name] = pobjs[name]
    if "profiles" not in alias and all(a.dtype == b.dtype and np.array_equal(a, b) for a, b in zip(pobjs["profiles"], sobjs["profiles"])):
        sobjs["profiles"] = pobjs["profiles"]
    saved = {}
    for name in alias:
        if name == "profiles":
            saved[name] = [a.copy() for a in pobjs["profiles"]]
            for a, new in zip(pobjs["profiles"], sib["profiles"]):
                a[...] = new
        else:
            saved[name] = pobjs[name].copy()
            pobjs[name][...] = sib[name]
        sobjs[name] = pobjs[name]
    try:
        rs = run_impl(S, sib, objs=sobjs)
    finally:
        for name in alias:
            if name == "profiles":
                for a, old in zip(pobjs["profiles"], saved[name]):
                    a[...] = old
            else:
                pobjs[name][...] = saved[name]
    return rp, rs


def _cache_cls():
    if core.SRC not in sys.path:
        sys.path.insert(0, core.SRC)
    from bldfm.cache import GreensFunctionCache
    return GreensFunctionCache


def _same(r1, r2):
    if r1["err"] != r2["err"]:
        return False
    if r1["err"] != 0:
        return True
    return (all(np.array_equal(np.asarray(r1[k]), np.asarray(r2[k]), equal_nan=True) for k in ("x", "y", "z", "conc", "flx"))
            and r1["shape"] == r2["shape"] and r1["mesh_ok"] == r2["mesh_ok"])


FRESH_SNIPPET = r"""
import sys, json, numpy as np
sys.path.insert(0, %(h)r); sys.path.insert(0, %(s)r)
import logging; logging.disable(logging.CRITICAL)
import solvercorr as sc
S = sc.impl()
d = json.load(open(%(f)r))
r = sc.run_impl(S, sc.from_full(d))
json.dump({"err": r["err"], "conc": np.asarray(r.get("conc", [])).tolist(), "flx": np.asarray(r.get("flx", [])).tolist()}, open(%(o)r, "w"))
"""


def fresh_process_result(case, workdir):
    """the same request alone in a fresh interpreter (what 'the result depends only on the arguments' refers to)"""
    import json, os, subprocess, tempfile
    d = tempfile.mkdtemp(prefix="fresh_", dir=workdir)
    fi, fo = os.path.join(d, "in.json"), os.path.join(d, "out.json")
    json.dump(full(case), open(fi, "w"))
    code = FRESH_SNIPPET % {"h": os.path.join(core.VERIF, "harness"), "s": core.SRC, "f": fi, "o": fo}
    subprocess.run([core.PY, "-c", code], cwd=d, env=core.pyenv(), capture_output=True, timeout=600)
    r = json.load(open(fo))
    return {"err": r["err"], "conc": np.array(r["conc"], dtype=float), "flx": np.array(r["flx"], dtype=float)}


def _dev(a, b):
    a, b = np.asarray(a, float), np.asarray(b, float)
    if a.shape != b.shape:
        return float("inf")
    m = max(float(np.max(np.abs(b))) if b.size else 0.0, 1e-300)
    return float(np.max(np.abs(a - b))) / m if a.size else 0.0


def stress_probe(body, workdir):
    """replays one stress hint on the implementation; returns (signature, detail) or None"""
    S = impl()
    st = body["stress"]
    base = from_full(body["case"])
    if st["kind"] == "cached-sequence":
        import tempfile
        sibc = from_full(st["sibling"])
        cache = _cache_cls()(cache_dir=tempfile.mkdtemp(prefix="sccache_", dir=workdir))
        for lab, c_, scr in [("store", base, True), ("hit-after-caller-scribbled", base, True), ("sibling-one-argument", sibc, False), ("hit-again", base, False)]:
            ref = run_impl(S, c_)
            got = run_impl(S, c_, cache=cache, scribble=scr)
            if not _same(ref, got):
                what = "grid" if ref["err"] == 0 and got["err"] == 0 and np.array_equal(ref["conc"], got["conc"]) and np.array_equal(ref["flx"], got["flx"]) else "fields"
                return ("cache:%s-differ-with-cache-attached:%s" % (what, lab),
                        "footprint solve through one GreensFunctionCache, sequence store / hit after the caller edited the returned arrays in place / one-argument sibling / hit: at step '%s' the returned %s differ from the same solve without a cache (max rel dev conc %.3g, flx %.3g)"
                        % (lab, what, _dev(got.get("conc", []), ref.get("conc", [])) if ref["err"] == 0 and got["err"] == 0 else float("nan"),
                           _dev(got.get("flx", []), ref.get("flx", [])) if ref["err"] == 0 and got["err"] == 0 else float("nan")))
        return None
    if st["kind"] == "consistency":
        r = consistency_probe(S, base, workdir)
        return r[0] if r else None
    if st["kind"] == "mutated":
        r = run_impl(S, base)
        if r.get("mutated"):
            return ("state:call-edits-its-callers-arrays:" + ",".join(sorted(n.split("[")[0] for n in r["mutated"])),
                    "after the call the caller's %s no longer hold the values that were passed in" % ", ".join(r["mutated"]))
        return None
    if st["kind"] == "sibling":
        parent = from_full(st["parent"])
        _, got = run_pair(S, parent, base)
        alone_case = dict(base)
        alone_case.pop("_threads", None)
        alone = fresh_process_result(alone_case, workdir)
        if got["err"] != alone["err"]:
            return ("state:outcome-depends-on-previous-call:" + st["varied"], "after a solve differing only in %s the call %s, alone in a fresh process it %s" % (st["varied"], ERR.get(got["err"], "returns"), ERR.get(alone["err"], "returns")))
        if got["err"] == 0:
            dc, df = _dev(got["conc"], alone["conc"]), _dev(got["flx"], alone["flx"])
            tol = 1e-4 if base["precision"] == "single" else 1e-9
            if dc > tol or df > tol:
                return ("state:result-depends-on-previous-call:" + st["varied"],
                        "the same request returns different fields after a solve that differs only in %s than alone in a fresh process (rel dev conc %.3g, flx %.3g)" % (st["varied"], dc, df))
        return None
    return None


def consistency_probe(S, case, workdir):
    """Checks that hold for EVERY solver-family property because each of them speaks about "the solution at the
    requested level for the given arguments": (a) slot k of a multi-level request equals the single-level request for
    that node, (b) the result does not depend on how the values are presented (integer vs float arrays, tuple vs ndarray
    measurement point, list vs ndarray levels), (c) the call leaves its arguments alone, (d) the same request alone in a
    fresh process gives the same fields.  At most one of two differing answers can be the solution the property
    describes, so each hit is a concrete input on which the property fails.  Returns a list of (signature, detail)."""
    out = []
    tol = 1e-4 if case["precision"] == "single" else 1e-9
    got = run_impl(S, case)
    if got.get("mutated"):
        out.append(("state:call-edits-its-callers-arrays:" + ",".join(sorted(n.split("[")[0] for n in got["mutated"])),
                    "after the call the caller's %s no longer hold the values that were passed in" % ", ".join(got["mutated"])))
    if got["err"] not in (0,):
        return out
    lv = levels_list(case)
    if len(lv) > 1:
        for k, node in list(enumerate(lv))[:48]:
            one = dict(case)
            one["levels"] = [node]
            one.pop("_present", None)
            r1 = run_impl(S, one)
            if r1["err"] != 0:
                out.append(("consistency:single-level-request-fails", "levels=%r returns, levels=[%d] %s" % (lv, node, ERR.get(r1["err"], "fails"))))
                break
            dc, df = _dev(got["conc"][k], r1["conc"][0]), _dev(got["flx"][k], r1["flx"][0])
            if dc > tol or df > tol:
                out.append(("consistency:slot-differs-from-single-level-request",
                            "slot %d of levels=%r differs from the single-level request for node %d (rel dev conc %.3g, flx %.3g)" % (k, lv, node, dc, df)))
                break
    if case.get("_present"):
        plain = dict(case)
        plain.pop("_present", None)
        rp = run_impl(S, plain)
        if rp["err"] == 0:
            dc, df = _dev(got["conc"], rp["conc"]), _dev(got["flx"], rp["flx"])
            if dc > tol or df > tol:
                out.append(("presentation:result-depends-on-dtype-or-container:" + ",".join(sorted(case["_present"])),
                            "the same values presented as %s give different fields than float64 arrays / tuple / list (rel dev conc %.3g, flx %.3g)" % (sorted(case["_present"]), dc, df)))
        elif rp["err"] != got["err"]:
            out.append(("presentation:outcome-depends-on-dtype-or-container", "plain presentation %s" % ERR.get(rp["err"], "fails")))
    alone_case = dict(case)
    alone_case.pop("_threads", None)
    try:
        alone = fresh_process_result(alone_case, workdir)
        if alone["err"] == 0:
            dc, df = _dev(got["conc"], alone["conc"]), _dev(got["flx"], alone["flx"])
            if dc > tol or df > tol:
                out.append(("state:result-differs-from-fresh-process" + (":threads" if case.get("_threads") else ""),
                            "the request returns other fields in this process%s than alone in a fresh one (rel dev conc %.3g, flx %.3g)"
                            % (" with %d numerical threads" % case["_threads"] if case.get("_threads") else "", dc, df)))
    except Exception:
        pass
    return out


def big_probes(S, rng_seed=0):
    """Requests of a size the model is not evaluated on (the correspondence uses small grids): used ONLY when a proof
    obligation or the correspondence is already broken, to find a concrete failing input for changes that switch on above
    a size threshold (block-wise transforms, per-thread splits of the mode vector, memory budgets).  Each probe compares
    two answers of the implementation that the property requires to agree: slot k of a long level list vs the
    single-level request; several numerical threads vs one.  Returns [(signature, detail, replay)]."""
    import bldfm.config as bcfg
    out = []
    rs = np.random.RandomState(12345 + rng_seed)

    def const_case(nx, ny, nz, levels, footprint, analytic, halo, modes):
        z = 0.1 + 2.0 * np.linspace(0.0, 1.0, nz) ** 1.5
        prof = (np.full(nz, 1.5), np.full(nz, 0.5), np.full(nz, 1.0), np.full(nz, 0.75), np.full(nz, 0.5))
        q0 = rs.randint(0, 9, size=(ny, nx)) / 8.0
        return dict(q0=q0, z=z, profiles=prof, domain=(float(4 * nx), float(4 * ny)), levels=levels, modes=modes,
                    meas_pt=(float(4 * (nx // 3)), float(4 * (ny // 2))), bg=0.5, footprint=footprint, analytic=analytic,
                    halo=halo, precision="double")

    # (1) long level lists on large padded grids: every slot must be the single-level answer (last, first and a middle slot)
    for nx, ny, nlv, halo, fp in ((256, 256, 70, 0.0, True), (64, 64, 105, None, False), (96, 80, 59, 0.0, False)):
        try:
            nz = max(nlv, 8)
            levels = list(range(nz))[:nlv] if nlv <= nz else list(range(nz))
            if nlv == 59:
                levels = [int(v) for v in rs.permutation(nz)[:nlv]]
            case = const_case(nx, ny, nz, levels, fp, True, halo, (2 * nx, 2 * ny))
            got = run_impl(S, case)
            if got["err"] != 0:
                continue
            for k in (len(levels) - 1, 0, len(levels) // 2, len(levels) - 2):
                one = dict(case, levels=[levels[k]])
                r1 = run_impl(S, one)
                if r1["err"] != 0:
                    continue
                dc, df = _dev(got["conc"][k], r1["conc"][0]), _dev(got["flx"][k], r1["flx"][0])
                if dc > 1e-9 or df > 1e-9:
                    out.append(("consistency:large-request-slot-differs-from-single-level-request",
                                "%dx%d cells, halo %r, %d levels (analytic, %s): slot %d differs from the single-level request for node %d (rel dev conc %.3g, flx %.3g; max|slot| = %.3g)"
                                % (nx, ny, halo, len(levels), "footprint" if fp else "dispersion", k, levels[k], dc, df, float(np.max(np.abs(got["flx"][k])))),
                                {"big": {"nx": nx, "ny": ny, "nlevels": len(levels), "halo": halo, "footprint": fp, "slot": k}}))
                    break
        except MemoryError:
            continue
        except Exception as e:  # noqa: BLE001
            out.append(("consistency:large-request-raises", "%dx%d cells, %d levels: %s: %s" % (nx, ny, nlv, type(e).__name__, e), {"big": {"nx": nx, "ny": ny, "nlevels": nlv}}))
    # (2) numerical threads on mode vectors that do not split evenly
    for nx, ny in ((40, 32), (30, 18)):
        try:
            nz = 6
            z = 0.1 + 1.0 * np.linspace(0.0, 1.0, nz)
            s_ = np.linspace(0.3, 1.0, nz)
            prof = (1.5 * s_, 0.5 * s_, 0.4 + 0.6 * s_, 0.3 + 0.5 * s_, 0.2 + 0.6 * s_)
            case = dict(q0=rs.randint(0, 9, size=(ny, nx)) / 8.0, z=z, profiles=prof, domain=(float(4 * nx), float(4 * ny)), levels=[nz - 1, 2],
                        modes=(nx, ny), meas_pt=(8.0, 12.0), bg=0.0, footprint=False, analytic=False, halo=0.0, precision="double")
            ref = run_impl(S, case)
            if ref["err"] != 0:
                continue
            for thr in (2, 3, 4, 6):
                got = run_impl(S, dict(case, _threads=thr))
                if got["err"] != ref["err"]:
                    out.append(("state:outcome-depends-on-thread-setting", "%d threads: %s" % (thr, ERR.get(got["err"], "fails")), {"big": {"nx": nx, "ny": ny, "threads": thr}}))
                    break
                dc, df = _dev(got["conc"], ref["conc"]), _dev(got["flx"], ref["flx"])
                if dc > 1e-9 or df > 1e-9:
                    out.append(("state:result-depends-on-thread-setting",
                                "%dx%d cells, all modes, numerical branch: config.NUM_THREADS = %d gives other fields than 1 thread (rel dev conc %.3g, flx %.3g)" % (nx, ny, thr, dc, df),
                                {"big": {"nx": nx, "ny": ny, "threads": thr}}))
                    break
        except Exception as e:  # noqa: BLE001
            out.append(("state:threaded-solve-raises", "%s: %s" % (type(e).__name__, e), {"big": {"nx": nx, "ny": ny}}))
    return out


def stress_oracle(ctx, hints):
    out, seen = [], set()
    for h in hints:
        if not h or "stress" not in h:
            continue
        try:
            r = stress_probe(h, ctx.build)
        except Exception:
            continue
        if r and r[0] not in seen:
            seen.add(r[0])
            out.append({"signature": r[0], "what": "%s: %s; request %r" % (ctx.prop, r[1], {k: v for k, v in h["case"].items() if k not in ("q0", "z", "profiles")}),
                        "replay": {"case": h["case"], "stress": h["stress"]}})
    S = impl()
    n = 0
    for h in hints:
        if not h or "case" not in h or not isinstance(h["case"], dict) or "q0" not in h["case"]:
            continue
        n += 1
        if n > 8:
            break
        try:
            for sig, detail in consistency_probe(S, from_full(h["case"]), ctx.build):
                if sig not in seen:
                    seen.add(sig)
                    out.append({"signature": sig, "what": "%s: %s; request %r" % (ctx.prop, detail, {k: v for k, v in h["case"].items() if k not in ("q0", "z", "profiles")}),
                                "replay": {"case": h["case"], "stress": {"kind": "consistency"}}})
        except Exception:
            continue
    if not out and getattr(ctx, "failures", None):
        # nothing concrete on the small requests: try the large canonical requests (size / thread thresholds)
        try:
            for sig, detail, rep in big_probes(S):
                if sig not in seen:
                    seen.add(sig)
                    out.append({"signature": sig, "what": "%s: %s" % (ctx.prop, detail), "replay": {"stress": {"kind": "big"}, **rep}})
        except Exception:
            pass
    return out


def stress_replay(body):
    import tempfile
    if body.get("stress", {}).get("kind") == "big":
        hits = big_probes(impl())
        for sig, detail, rep in hits:
            print("FAILS", sig, detail)
        if not hits:
            print("holds on the large canonical requests")
        return 1 if hits else 0
    r = stress_probe(body, tempfile.mkdtemp(prefix="replay_", dir=os.path.join(core.VERIF, "build")))
    if r:
        print("FAILS", r[0], r[1])
        return 1
    print("holds on this input")
    return 0


def correspond(ctx, cases, label, shard=6, jobs=14, timeout=900):
    """Runs implementation and model on every case.  Returns list of per-case dicts and
    registers ctx.fail for every disagreement.

    Besides the given cases the run contains *stress* material that every solver-family property relies on
    (the result of a call is a function of its arguments): (i) siblings — a request differing from the preceding one in
    exactly one argument, executed right after it in the same process and compared with the model like any case;
    (ii) cached repeats — footprint requests sent through one GreensFunctionCache three times (store, hit after the
    caller scribbled over the arrays it was given, one-argument sibling) and compared bit for bit with the uncached call."""
    S = impl()
    cases = list(cases)
    n_given = len(cases)
    # presentation of the arguments: every second given case hands the measurement point over as a float64 ndarray,
    # every third one its level list as an int64 ndarray (values unchanged; the model sees the same request)
    for k in range(n_given):
        pres = dict(cases[k].get("_present") or {})
        if k % 2 == 0:
            pres["meas_nd"] = True
        if k % 3 == 1 and np.ndim(cases[k]["levels"]) > 0:
            pres["levels_nd"] = True
        if pres:
            cases[k] = dict(cases[k], _present=pres)
    # every kind of one-argument variation occurs at least once per run (twice in the thorough tier)
    sib_of = {}
    want = SIBLING_KINDS * (2 if ctx.thorough else 1)
    free = list(range(n_given))
    ctx.rng.shuffle(free)
    used = set()
    skipped_kinds = []
    for kd in want:
        ok = [k for k in free if k not in used and not (kd in ("meas", "source-values", "meas-origin") and not cases[k]["footprint"])
              and not (kd in ("domain-x", "domain-y") and cases[k]["analytic"])
              and not (kd in ("source-inplace", "interior-shrink") and cases[k]["footprint"])
              and not (kd == "threads" and cases[k]["analytic"])]
        if kd == "int-dtype":
            ok.sort(key=lambda k: (cases[k]["analytic"], cases[k]["footprint"]))  # prefer the numerical dispersion path
        done = False
        for k in ok:
            try:
                if kd in ALIAS_KINDS:
                    par = alias_parent(cases[k], kd)
                    sc_ = sibling(ctx.rng, par, kd)
                    par["_sibling"] = kd + ":first-call"
                    cases.append(par)
                    pk = len(cases) - 1
                else:
                    sc_ = sibling(ctx.rng, cases[k], kd)
                    pk = k
            except Exception:
                continue
            sc_["_sibling"] = kd
            cases.append(sc_)
            sib_of[pk] = len(cases) - 1
            used.add(k)
            done = True
            break
        if not done:
            skipped_kinds.append(kd)
    exec_order = []
    for k in range(len(cases)):
        if k in sib_of.values():
            continue
        exec_order.append(k)
    terms = []
    impl_by = {}
    for k in exec_order:
        if k in sib_of:
            impl_by[k], impl_by[sib_of[k]] = run_pair(S, cases[k], cases[sib_of[k]])
        else:
            impl_by[k] = run_impl(S, cases[k])
    parent_of = {v: k for k, v in sib_of.items()}
    for k in sorted(impl_by):
        if impl_by[k].get("mutated"):
            ctx.fail("correspondence", "%s:%s%d-argument-mutated" % (ctx.prop, label, k),
                     "the call changed arrays that belong to its caller (%s); case %r" % (", ".join(impl_by[k]["mutated"]), describe(cases[k])),
                     hint={"case": full(cases[k]), "stress": {"kind": "mutated", "which": impl_by[k]["mutated"]}})
    # cached repeats (implementation only; reference = uncached call, bit for bit)
    stress_fail = 0
    stress_n = 0
    fp_idx = [k for k in range(n_given) if cases[k]["footprint"] and impl_by[k]["err"] == 0]
    ctx.rng.shuffle(fp_idx)
    Cache = _cache_cls()
    import tempfile
    # a degenerate grid (one row or one column) with several levels: the arrays a hit returns must have the shapes and the
    # height of every slice that the solver returns (a cache that stores 1-D axes and guesses the rank from the squeezed arrays)
    seq_bases = [cases[k] for k in fp_idx[: (6 if ctx.thorough else 3)]]
    try:
        one_row = ctx.rng.random() < 0.5
        deg = mk_case(ctx.rng, nx=(ctx.rng.choice([5, 6]) if one_row else 1), ny=(1 if one_row else ctx.rng.choice([4, 5])), nz=4,
                      levels=ctx.rng.choice([[0, 3], [3, 1, 2], [2, 2]]), footprint=True, halo=ctx.rng.choice([0.0, None]), modes=(64, 64), precision="double")
        if run_impl(S, deg)["err"] == 0:
            seq_bases.append(deg)
    except Exception:
        pass
    for sk, base in enumerate(seq_bases):
        k = len(cases) + sk
        cdir = tempfile.mkdtemp(prefix="sccache_", dir=ctx.build)
        cache = Cache(cache_dir=cdir)
        sibc = sibling(ctx.rng, base, ctx.rng.choice(["bg", "levels-reversed", "halo", "meas", "source-values"]))
        seq = [("store", base, True), ("hit-after-caller-scribbled", base, True), ("sibling-" + "one-argument", sibc, False), ("hit-again", base, False)]
        for lab, c_, scr in seq:
            ref = run_impl(S, c_)
            got = run_impl(S, c_, cache=cache, scribble=scr)
            stress_n += 1
            if not _same(ref, got):
                stress_fail += 1
                ctx.fail("correspondence", "%s:%s%d-cached-%s" % (ctx.prop, label, k, lab),
                         "with a GreensFunctionCache attached, step '%s' of the sequence store / hit after the caller edited the returned arrays in place / one-argument sibling / hit returned arrays (or a grid) that differ from the same solve without a cache; case %r" % (lab, describe(c_)),
                         hint={"case": full(base), "stress": {"kind": "cached-sequence", "step": lab, "sibling": full(sibc)}})
                break
    ctx.cov["stress"] = {"siblings": len(sib_of), "sibling_kinds": sorted(cases[v]["_sibling"] for v in sib_of.values()), "sibling_kinds_without_a_suitable_case": skipped_kinds,
                         "presentations": {"meas_pt as float64 ndarray": sum(1 for c in cases if (c.get("_present") or {}).get("meas_nd")),
                                           "levels as int64 ndarray": sum(1 for c in cases if (c.get("_present") or {}).get("levels_nd")),
                                           "integer-typed arrays": sum(1 for c in cases if (c.get("_present") or {}).get("int"))},
                         "argument_arrays_checked_unchanged_after_every_call": True,
                         "cached_sequence_steps": stress_n, "cached_sequence_failures": stress_fail,
                         "rule": "siblings = one-argument variations executed right after their parent in one process and compared with the model (in-place kinds: the second call receives the same array objects, refilled by the caller); cached sequences = store / hit after in-place edit by the caller / sibling / hit, each compared bit for bit with the uncached call; every array argument is compared with a copy taken before the call"}
    impl_out = []
    for k, case in enumerate(cases):
        r = impl_by[k]
        impl_out.append(r)
        if r["err"] == 0:
            terms.append(("%s%d" % (label, k), "compare %s %s" % (args_term(case), exp_term(r))))
        else:
            terms.append(("%s%d" % (label, k), "err_code %s" % args_term(case)))
    res = core.coq_eval_sharded(ctx, "corr_" + label, HEADER, terms, shard=shard, timeout=timeout, jobs=jobs)
    if "__error__" in res:
        ctx.fail("correspondence", "%s:coq-eval" % ctx.prop, res["__error__"])
    out = []
    for k, (case, r) in enumerate(zip(cases, impl_out)):
        key = "%s%d" % (label, k)
        rec = {"k": k, "impl_err": r["err"], "ok": False, "dev": None}
        txt = res.get(key)
        if txt is None:
            ctx.fail("correspondence", "%s:%s-no-output" % (ctx.prop, key), "Coq produced no result", hint={"case": full(case)})
            out.append(rec)
            continue
        if r["err"] != 0:
            code = int(txt.replace("%Z", "").strip("() "))
            rec["model_err"] = code
            rec["ok"] = code == r["err"]
            if not rec["ok"]:
                ctx.fail("correspondence", "%s:%s" % (ctx.prop, key),
                         "outcome differs: implementation %s (%s), model %s; case %r" % (ERR.get(r["err"]), r.get("msg"), ERR.get(code, "result"), describe(case)),
                         hint={"case": full(case), "impl_err": r["err"], "model_err": code})
        else:
            code, dc, sc, df, sf, struct = parse_compare(txt)
            rec["model_err"] = code
            tol = tolerance(case)
            relc = dc / max(sc, 1e-300) if sc > 0 else dc
            relf = df / max(sf, 1e-300) if sf > 0 else df
            rec["dev"] = max(relc, relf)
            good = code == 0 and struct and r["mesh_ok"] and dc <= tol * max(sc, 1e-12) and df <= tol * max(sf, 1e-12)
            rec["ok"] = bool(good)
            if not good:
                ctx.fail("correspondence", "%s:%s" % (ctx.prop, key),
                         "model and implementation differ: model outcome %s, rel dev conc %.3g flx %.3g (tol %.1g), structure/coords equal: %s, mesh ok: %s; case %r"
                         % (ERR.get(code, "result"), relc, relf, tol, struct, r["mesh_ok"], describe(case)),
                         hint={"case": full(case), "dev": [relc, relf], **({"stress": {"kind": "sibling", "varied": case["_sibling"], "parent": full(cases[parent_of[k]])}} if k in parent_of else {})})
        out.append(rec)
    return out[:n_given]


def summarize(ctx, cases, recs, rule, nontrivial=None):
    """Fill ctx.cov from a correspondence run."""
    def key(c):
        d = describe(c)
        return repr(sorted(d.items()))
    nt = nontrivial or (lambda c: True)
    distinct = {key(c) for c in cases if nt(c)}
    hist = {}
    for c, r in zip(cases, recs):
        d = describe(c)
        for name, val in (("footprint", d["footprint"]), ("analytic", d["analytic"]), ("precision", d["precision"]),
                          ("halo", "None" if d["halo"] is None else ("0" if d["halo"] == 0 else "pos")),
                          ("outcome", ERR.get(r["impl_err"], "result") if r["impl_err"] else "result"),
                          ("nlevels", len(levels_list(c)))):
            hist.setdefault(name, {})
            hist[name][str(val)] = hist[name].get(str(val), 0) + 1
    devs = [r["dev"] for r in recs if r.get("dev") is not None]
    ctx.cov["evaluations"] = ctx.cov.get("evaluations", 0) + len(cases)
    ctx.cov["distinct_nontrivial"] = ctx.cov.get("distinct_nontrivial", 0) + len(distinct)
    ctx.cov["rule"] = (ctx.cov.get("rule", "") + " " + rule).strip()
    ctx.cov.setdefault("samples", []).extend(describe(c) for c in cases[:3])
    ctx.cov.setdefault("histogram", {}).update(hist)
    ctx.cov["max_rel_dev_model_vs_impl"] = max(devs) if devs else None
    ctx.cov["correspondence_mismatches"] = ctx.cov.get("correspondence_mismatches", 0) + sum(1 for r in recs if not r["ok"])
