"""Shared float correspondence between bldfm.solver.steady_state_transport_solver and
Model/Solver.v instantiated with IEEE doubles (FloatOps), evaluated by vm_compute.
Used by the checks of C01–C07, C10, C11 with different case generators."""
import math
import os
import re
import sys

import numpy as np

import core

HEADER = (
    "From Coq Require Import ZArith PrimFloat List Bool.\n"
    "From BL Require Import Base.Ops Base.FloatOps Model.Solver Model.SolverExec.\n"
    "Import ListNotations.\nOpen Scope float_scope.\n"
)

ERR = {1: "ModesOdd", 2: "NegativePad", 3: "LevelIndex", 4: "EmptyGrid", 99: "crash", 98: "misshaped"}


def impl():
    if core.SRC not in sys.path:
        sys.path.insert(0, core.SRC)
    import logging

    logging.disable(logging.CRITICAL)
    import bldfm.solver as S

    return S


# ---------------------------------------------------------------------------------------------
# case generation


def profiles(rng, nz, kind="vary", aniso=True, wind=None):
    """z strictly increasing; positive diffusivities; returns (z, (u, v, Kx, Ky, Kz))."""
    z0 = rng.choice([0.05, 0.1, 0.25, 0.5])
    H = rng.choice([0.6, 1.0, 1.5, 2.5])
    if rng.random() < 0.5:
        z = z0 + H * np.linspace(0.0, 1.0, nz)
    else:
        z = z0 + H * (np.linspace(0.0, 1.0, nz) ** rng.choice([1.5, 2.0]))
    if wind is None:
        ang = rng.uniform(0, 2 * math.pi)
        U = rng.choice([0.0, 0.5, 1.0, 3.0])
        um, vm = U * math.cos(ang), U * math.sin(ang)
    else:
        um, vm = wind
    if kind == "const":
        u = np.full(nz, um)
        v = np.full(nz, vm)
        Kz = np.full(nz, rng.choice([0.3, 0.5, 1.0, 2.0]))
        Kx = Kz * (rng.choice([0.5, 1.0, 2.0]) if aniso else 1.0)
        Ky = Kz * (rng.choice([0.25, 1.0, 1.5]) if aniso else 1.0)
    else:
        s = np.log(z / z[0] + 1.0) / np.log(z[-1] / z[0] + 1.0)
        u = um * (0.3 + 0.7 * s)
        v = vm * (0.3 + 0.7 * s)
        k0 = rng.choice([0.3, 0.5, 1.0])
        Kz = k0 * (0.2 + z / z[-1]) ** rng.choice([0.5, 1.0, 1.3])
        Kx = Kz * (rng.choice([0.5, 1.0, 2.0]) if aniso else 1.0)
        Ky = Kz * (rng.choice([0.25, 1.0, 1.5]) if aniso else 1.0)
    return z, (u.copy(), v.copy(), Kx.copy(), Ky.copy(), Kz.copy())


def growth(case):
    """max over retained modes of sum_i Re sqrt(-T_i/Kz_i) dz_i (shooting growth exponent)"""
    z = case["z"]
    u, v, Kx, Ky, Kz = case["profiles"]
    ny, nx = case["q0"].shape
    xmx, ymx = case["domain"]
    dx, dy = xmx / nx, ymx / ny
    lxm, lym = math.pi / dx, math.pi / dy
    dz = np.diff(z)
    g = 0.0
    for lx in (lxm, 0.0):
        for ly in (lym, 0.0):
            T = -(Kx * lx**2 + Ky * ly**2) - 1j * u * lx - 1j * v * ly
            lam = np.sqrt(-T / Kz)
            g = max(g, float(np.sum(lam.real[:-1] * dz)))
    return g


def tame(case, bound=5.0):
    """shrink the column height until the shooting growth exponent is below the bound"""
    for _ in range(40):
        g = growth(case)
        if g <= bound:
            break
        z = case["z"]
        case["z"] = z[0] + (z - z[0]) * max(0.3, bound / g * 0.95)
    case["growth"] = growth(case)
    return case


def source(rng, ny, nx, kind=None):
    kind = kind or rng.choice(["random", "sparse", "smooth", "signed"])
    if kind == "random":
        q = np.array([[rng.randint(0, 16) / 8.0 for _ in range(nx)] for _ in range(ny)])
    elif kind == "sparse":
        q = np.zeros((ny, nx))
        for _ in range(rng.randint(1, 3)):
            q[rng.randrange(ny), rng.randrange(nx)] = rng.choice([1.0, 2.5, 0.75])
    elif kind == "smooth":
        jj, ii = np.meshgrid(np.arange(ny), np.arange(nx), indexing="ij")
        q = np.exp(-((ii - nx / 2.0) ** 2 + (jj - ny / 3.0) ** 2) / 4.0)
    else:
        q = np.array([[rng.randint(-8, 8) / 4.0 for _ in range(nx)] for _ in range(ny)])
    return q


def mk_case(rng, nx=None, ny=None, nz=None, modes=None, halo="rand", levels=None, footprint=None,
            analytic=False, precision=None, kind="vary", meas="rand", bg=None, src=None, aniso=True,
            wind=None, domain=None):
    nx = nx or rng.choice([3, 4, 5, 6])
    ny = ny or rng.choice([3, 4, 5, 6])
    nz = nz or rng.choice([2, 3, 4, 6])
    if domain is None:
        dx = rng.choice([1.0, 1.5, 2.0, 2.5])
        dy = rng.choice([1.0, 1.25, 2.0, 3.0])
        domain = (nx * dx, ny * dy)
    dx, dy = domain[0] / nx, domain[1] / ny
    if analytic:
        kind = "const"
    z, prof = profiles(rng, nz, kind=kind, aniso=aniso, wind=wind)
    if halo == "rand":
        halo = rng.choice([0.0, None, dx, 2 * dy, 1.3 * dx, 0.7 * dy + 0.01, 2.6 * dx])
        if halo is None and max(nx, ny) > 4:
            halo = rng.choice([0.0, dx, 1.3 * dx])  # keep padded grids small
    if footprint is None:
        footprint = rng.random() < 0.5
    if levels is None:
        levels = rng.choice([nz - 1, [nz - 1], [0, nz - 1], sorted(rng.sample(range(nz), min(nz, 2)))])
    if modes is None:
        modes = rng.choice([(2, 2), (4, 4), (4, 2), (6, 4), (8, 8), (64, 64)])
    if meas == "rand":
        meas = rng.choice([(0.0, 0.0), (dx * rng.randrange(nx), dy * rng.randrange(ny)), (0.37 * domain[0], 0.61 * domain[1])])
    if precision is None:
        precision = rng.choice(["double", "double", "single"])
    if bg is None:
        bg = rng.choice([0.0, 0.0, 1.5, -2.0])
    q0 = source(rng, ny, nx, src)
    case = dict(q0=q0, z=z, profiles=prof, domain=tuple(float(d) for d in domain), levels=levels, modes=tuple(modes),
                meas_pt=tuple(float(m) for m in meas), bg=float(bg), footprint=bool(footprint), analytic=bool(analytic),
                halo=None if halo is None else float(halo), precision=precision)
    return tame(case)


def describe(case):
    ny, nx = case["q0"].shape
    return dict(nx=nx, ny=ny, nz=len(case["z"]), domain=case["domain"], levels=case["levels"] if not isinstance(case["levels"], np.ndarray) else case["levels"].tolist(),
                modes=case["modes"], meas_pt=case["meas_pt"], bg=case["bg"], footprint=case["footprint"],
                analytic=case["analytic"], halo=case["halo"], precision=case["precision"],
                growth=round(case.get("growth", 0.0), 3))


def full(case):
    """JSON-serialisable complete case (for replays)"""
    d = describe(case)
    d["q0"] = case["q0"].tolist()
    d["z"] = case["z"].tolist()
    d["profiles"] = [p.tolist() for p in case["profiles"]]
    return d


def from_full(d):
    c = dict(q0=np.array(d["q0"], dtype=float), z=np.array(d["z"], dtype=float),
             profiles=tuple(np.array(p, dtype=float) for p in d["profiles"]),
             domain=tuple(d["domain"]), levels=d["levels"], modes=tuple(d["modes"]), meas_pt=tuple(d["meas_pt"]),
             bg=d["bg"], footprint=d["footprint"], analytic=d["analytic"], halo=d["halo"], precision=d["precision"])
    return c


# ---------------------------------------------------------------------------------------------
# implementation


def call(S, case, cache=None, **over):
    c = dict(case)
    c.update(over)
    kw = {} if cache is None else {"cache": cache}
    return S.steady_state_transport_solver(
        c["q0"], c["z"], c["profiles"], c["domain"], c["levels"], modes=c["modes"], meas_pt=c["meas_pt"],
        srf_bg_conc=c["bg"], footprint=c["footprint"], analytic=c["analytic"], halo=c["halo"],
        precision=c["precision"], **kw)


def levels_list(case):
    lv = case["levels"]
    if np.ndim(lv) == 0:
        return [int(lv)]
    return [int(l) for l in lv]


def run_impl(S, case, cache=None, scribble=False):
    """scribble=True plays a caller that edits the arrays it was given in place (normalising, clipping) after the
    result has been recorded: a later call must not see those edits"""
    ny, nx = case["q0"].shape
    nl = len(levels_list(case))
    try:
        with np.errstate(all="ignore"):
            (X, Y, Z), conc, flx = call(S, case, cache=cache)
        raw = (X, Y, Z, conc, flx)
    except ValueError as e:
        if "even" in str(e):
            return {"err": 1, "msg": str(e)}
        if "negative" in str(e):
            return {"err": 2, "msg": str(e)}
        return {"err": 99, "msg": "ValueError: " + str(e)}
    except IndexError as e:
        return {"err": 3, "msg": str(e)}
    except Exception as e:  # noqa
        return {"err": 99, "msg": type(e).__name__ + ": " + str(e)}
    conc = np.asarray(conc, dtype=float)
    flx = np.asarray(flx, dtype=float)
    if conc.size != nl * ny * nx or flx.size != nl * ny * nx or np.size(X) != nl * ny * nx:
        return {"err": 98, "msg": "shape %r for source %r, %d levels" % (conc.shape, (ny, nx), nl), "shape": list(conc.shape)}
    X3, Y3, Z3 = (np.asarray(A, dtype=float).reshape(nl, ny, nx) for A in (X, Y, Z))
    x, y, z = X3[0, 0, :], Y3[0, :, 0], Z3[:, 0, 0]
    mesh_ok = bool(np.array_equal(X3, np.broadcast_to(x[None, None, :], X3.shape)) and
                   np.array_equal(Y3, np.broadcast_to(y[None, :, None], Y3.shape)) and
                   np.array_equal(Z3, np.broadcast_to(z[:, None, None], Z3.shape)))
    rec = {"err": 0, "x": x.copy(), "y": y.copy(), "z": z.copy(), "conc": conc.reshape(nl, ny, nx).copy(), "flx": flx.reshape(nl, ny, nx).copy(),
           "shape": list(conc.shape), "mesh_ok": mesh_ok and list(np.shape(X)) == list(conc.shape) == list(flx.shape)}
    if scribble:
        for A in raw:
            try:
                if isinstance(A, np.ndarray) and A.flags.writeable and A.ndim > 0:
                    A[...] = 12345.678
            except Exception:
                pass
    return rec


# ---------------------------------------------------------------------------------------------
# Coq terms


def fl(x):
    return core.flit(x)


def l1(a):
    return "[" + "; ".join(fl(x) for x in a) + "]"


def l2(a):
    return "[" + "; ".join(l1(r) for r in a) + "]"


def l3(a):
    return "[" + "; ".join(l2(r) for r in a) + "]"


def nat_list(a):
    return "[" + "; ".join("%d%%nat" % x for x in a) + "]"


def args_term(case):
    u, v, Kx, Ky, Kz = case["profiles"]
    halo = "None" if case["halo"] is None else "(Some (fr %s))" % fl(case["halo"])
    return ("(mkArgs FloatOps (R2 %s) (R1 %s) (mkProf FloatOps (R1 %s) (R1 %s) (R1 %s) (R1 %s) (R1 %s)) (fr %s) (fr %s) %s "
            "%d%%nat %d%%nat (fr %s) (fr %s) (fr %s) %s %s %s %s)") % (
        l2(case["q0"]), l1(case["z"]), l1(u), l1(v), l1(Kx), l1(Ky), l1(Kz),
        fl(case["domain"][0]), fl(case["domain"][1]), nat_list(levels_list(case)),
        case["modes"][0], case["modes"][1], fl(case["meas_pt"][0]), fl(case["meas_pt"][1]), fl(case["bg"]),
        "true" if case["footprint"] else "false", "true" if case["analytic"] else "false", halo,
        "true" if case["precision"] == "single" else "false")


def exp_term(r):
    return "(mkExp %s %s %s %s %s %s)" % (l1(r["x"]), l1(r["y"]), l1(r["z"]), l3(r["conc"]), l3(r["flx"]), nat_list(r["shape"]))


def parse_float(s):
    s = s.strip()
    if s in ("nan",):
        return float("nan")
    if s in ("infinity",):
        return float("inf")
    if s in ("neg_infinity",):
        return float("-inf")
    return float(s)


def parse_compare(txt):
    # (0%Z, 1.2e-13, 0.5, ..., true)
    t = txt.strip().strip("()")
    parts = [p.strip() for p in t.split(",")]
    code = int(parts[0].replace("%Z", "").strip("() "))
    return code, parse_float(parts[1]), parse_float(parts[2]), parse_float(parts[3]), parse_float(parts[4]), parts[5] == "true"


def tolerance(case):
    return 2e-6 if case["precision"] == "single" else 1e-8


SIBLING_KINDS = ["domain-x", "domain-y", "source-scale", "bg", "meas", "precision", "levels-reversed", "halo", "source-values"]


def sibling(rng, case, kind):
    """a request that differs from `case` in exactly one argument (same array shapes): run right after it in the same
    process, it exposes results that depend on what was solved before (memoised intermediates keyed too coarsely)"""
    c = dict(case)
    ny, nx = case["q0"].shape
    if kind == "domain-x":
        c["domain"] = (case["domain"][0] * 1.5, case["domain"][1])
        if case["halo"]:
            c["halo"] = case["halo"] * 1.5
        c["meas_pt"] = (case["meas_pt"][0] * 1.5, case["meas_pt"][1])
    elif kind == "domain-y":
        c["domain"] = (case["domain"][0], case["domain"][1] * 1.25)
    elif kind == "source-scale":
        c["q0"] = case["q0"] * 2.0 ** rng.choice([-58, -36, -31, 9])
        c["bg"] = 0.0  # a tiny response must not hide behind the background in the per-field tolerance
    elif kind == "source-values":
        c["q0"] = source(rng, ny, nx)
    elif kind == "bg":
        c["bg"] = case["bg"] + rng.choice([1.0, -2.5, 3.875])
    elif kind == "meas":
        dx, dy = case["domain"][0] / nx, case["domain"][1] / ny
        c["meas_pt"] = (float(dx * ((round(case["meas_pt"][0] / dx) + 1) % nx)), float(dy * ((round(case["meas_pt"][1] / dy) + 2) % ny)))
    elif kind == "precision":
        c["precision"] = "single" if case["precision"] == "double" else "double"
    elif kind == "levels-reversed":
        lv = levels_list(case)
        c["levels"] = lv[::-1] if len(lv) > 1 else [lv[0], 0]
    elif kind == "halo":
        c["halo"] = 0.0 if case["halo"] is None or case["halo"] > 0 else float(case["domain"][0] / nx)
    return tame(c, bound=1e9)  # keep the column (same z): only recompute the growth figure


def _cache_cls():
    if core.SRC not in sys.path:
        sys.path.insert(0, core.SRC)
    from bldfm.cache import GreensFunctionCache
    return GreensFunctionCache


def _same(r1, r2):
    if r1["err"] != r2["err"]:
        return False
    if r1["err"] != 0:
        return True
    return (all(np.array_equal(np.asarray(r1[k]), np.asarray(r2[k]), equal_nan=True) for k in ("x", "y", "z", "conc", "flx"))
            and r1["shape"] == r2["shape"] and r1["mesh_ok"] == r2["mesh_ok"])


FRESH_SNIPPET = r"""
import sys, json, numpy as np
sys.path.insert(0, %(h)r); sys.path.insert(0, %(s)r)
import logging; logging.disable(logging.CRITICAL)
import solvercorr as sc
S = sc.impl()
d = json.load(open(%(f)r))
r = sc.run_impl(S, sc.from_full(d))
json.dump({"err": r["err"], "conc": np.asarray(r.get("conc", [])).tolist(), "flx": np.asarray(r.get("flx", [])).tolist()}, open(%(o)r, "w"))
"""


def fresh_process_result(case, workdir):
    """the same request alone in a fresh interpreter (what 'the result depends only on the arguments' refers to)"""
    import json, os, subprocess, tempfile
    d = tempfile.mkdtemp(prefix="fresh_", dir=workdir)
    fi, fo = os.path.join(d, "in.json"), os.path.join(d, "out.json")
    json.dump(full(case), open(fi, "w"))
    code = FRESH_SNIPPET % {"h": os.path.join(core.VERIF, "harness"), "s": core.SRC, "f": fi, "o": fo}
    subprocess.run([core.PY, "-c", code], cwd=d, env=core.pyenv(), capture_output=True, timeout=600)
    r = json.load(open(fo))
    return {"err": r["err"], "conc": np.array(r["conc"], dtype=float), "flx": np.array(r["flx"], dtype=float)}


def _dev(a, b):
    a, b = np.asarray(a, float), np.asarray(b, float)
    if a.shape != b.shape:
        return float("inf")
    m = max(float(np.max(np.abs(b))) if b.size else 0.0, 1e-300)
    return float(np.max(np.abs(a - b))) / m if a.size else 0.0


def stress_probe(body, workdir):
    """replays one stress hint on the implementation; returns (signature, detail) or None"""
    S = impl()
    st = body["stress"]
    base = from_full(body["case"])
    if st["kind"] == "cached-sequence":
        import tempfile
        sibc = from_full(st["sibling"])
        cache = _cache_cls()(cache_dir=tempfile.mkdtemp(prefix="sccache_", dir=workdir))
        for lab, c_, scr in [("store", base, True), ("hit-after-caller-scribbled", base, True), ("sibling-one-argument", sibc, False), ("hit-again", base, False)]:
            ref = run_impl(S, c_)
            got = run_impl(S, c_, cache=cache, scribble=scr)
            if not _same(ref, got):
                what = "grid" if ref["err"] == 0 and got["err"] == 0 and np.array_equal(ref["conc"], got["conc"]) and np.array_equal(ref["flx"], got["flx"]) else "fields"
                return ("cache:%s-differ-with-cache-attached:%s" % (what, lab),
                        "footprint solve through one GreensFunctionCache, sequence store / hit after the caller edited the returned arrays in place / one-argument sibling / hit: at step '%s' the returned %s differ from the same solve without a cache (max rel dev conc %.3g, flx %.3g)"
                        % (lab, what, _dev(got.get("conc", []), ref.get("conc", [])) if ref["err"] == 0 and got["err"] == 0 else float("nan"),
                           _dev(got.get("flx", []), ref.get("flx", [])) if ref["err"] == 0 and got["err"] == 0 else float("nan")))
        return None
    if st["kind"] == "sibling":
        parent = from_full(st["parent"])
        run_impl(S, parent)
        got = run_impl(S, base)
        alone = fresh_process_result(base, workdir)
        if got["err"] != alone["err"]:
            return ("state:outcome-depends-on-previous-call:" + st["varied"], "after a solve differing only in %s the call %s, alone in a fresh process it %s" % (st["varied"], ERR.get(got["err"], "returns"), ERR.get(alone["err"], "returns")))
        if got["err"] == 0:
            dc, df = _dev(got["conc"], alone["conc"]), _dev(got["flx"], alone["flx"])
            tol = 1e-4 if base["precision"] == "single" else 1e-9
            if dc > tol or df > tol:
                return ("state:result-depends-on-previous-call:" + st["varied"],
                        "the same request returns different fields after a solve that differs only in %s than alone in a fresh process (rel dev conc %.3g, flx %.3g)" % (st["varied"], dc, df))
        return None
    return None


def stress_oracle(ctx, hints):
    out, seen = [], set()
    for h in hints:
        if not h or "stress" not in h:
            continue
        try:
            r = stress_probe(h, ctx.build)
        except Exception:
            continue
        if r and r[0] not in seen:
            seen.add(r[0])
            out.append({"signature": r[0], "what": "%s: %s; request %r" % (ctx.prop, r[1], {k: v for k, v in h["case"].items() if k not in ("q0", "z", "profiles")}),
                        "replay": {"case": h["case"], "stress": h["stress"]}})
    return out


def stress_replay(body):
    import tempfile
    r = stress_probe(body, tempfile.mkdtemp(prefix="replay_", dir=os.path.join(core.VERIF, "build")))
    if r:
        print("FAILS", r[0], r[1])
        return 1
    print("holds on this input")
    return 0


def correspond(ctx, cases, label, shard=6, jobs=14, timeout=900):
    """Runs implementation and model on every case.  Returns list of per-case dicts and
    registers ctx.fail for every disagreement.

    Besides the given cases the run contains *stress* material that every solver-family property relies on
    (the result of a call is a function of its arguments): (i) siblings — a request differing from the preceding one in
    exactly one argument, executed right after it in the same process and compared with the model like any case;
    (ii) cached repeats — footprint requests sent through one GreensFunctionCache three times (store, hit after the
    caller scribbled over the arrays it was given, one-argument sibling) and compared bit for bit with the uncached call."""
    S = impl()
    cases = list(cases)
    n_given = len(cases)
    # every kind of one-argument variation occurs at least once per run (twice in the thorough tier)
    sib_of = {}
    want = SIBLING_KINDS * (2 if ctx.thorough else 1)
    free = list(range(n_given))
    ctx.rng.shuffle(free)
    for kd in want:
        ok = [k for k in free if k not in sib_of and not (kd in ("meas", "source-values") and not cases[k]["footprint"])
              and not (kd in ("domain-x", "domain-y") and cases[k]["analytic"])]
        if not ok:
            continue
        k = ok[0]
        try:
            sc_ = sibling(ctx.rng, cases[k], kd)
        except Exception:
            continue
        sc_["_sibling"] = kd
        cases.append(sc_)
        sib_of[k] = len(cases) - 1
    exec_order = []
    for k in range(n_given):
        exec_order.append(k)
        if k in sib_of:
            exec_order.append(sib_of[k])
    terms = []
    impl_by = {}
    for k in exec_order:
        impl_by[k] = run_impl(S, cases[k])
    # cached repeats (implementation only; reference = uncached call, bit for bit)
    stress_fail = 0
    stress_n = 0
    fp_idx = [k for k in range(n_given) if cases[k]["footprint"] and impl_by[k]["err"] == 0]
    ctx.rng.shuffle(fp_idx)
    Cache = _cache_cls()
    import tempfile
    for k in fp_idx[: (6 if ctx.thorough else 3)]:
        base = cases[k]
        cdir = tempfile.mkdtemp(prefix="sccache_", dir=ctx.build)
        cache = Cache(cache_dir=cdir)
        sibc = sibling(ctx.rng, base, ctx.rng.choice(["bg", "levels-reversed", "halo", "meas", "source-values"]))
        seq = [("store", base, True), ("hit-after-caller-scribbled", base, True), ("sibling-" + "one-argument", sibc, False), ("hit-again", base, False)]
        for lab, c_, scr in seq:
            ref = run_impl(S, c_)
            got = run_impl(S, c_, cache=cache, scribble=scr)
            stress_n += 1
            if not _same(ref, got):
                stress_fail += 1
                ctx.fail("correspondence", "%s:%s%d-cached-%s" % (ctx.prop, label, k, lab),
                         "with a GreensFunctionCache attached, step '%s' of the sequence store / hit after the caller edited the returned arrays in place / one-argument sibling / hit returned arrays (or a grid) that differ from the same solve without a cache; case %r" % (lab, describe(c_)),
                         hint={"case": full(base), "stress": {"kind": "cached-sequence", "step": lab, "sibling": full(sibc)}})
                break
    ctx.cov["stress"] = {"siblings": len(sib_of), "cached_sequence_steps": stress_n, "cached_sequence_failures": stress_fail,
                         "rule": "siblings = one-argument variations executed right after their parent in one process and compared with the model; cached sequences = store / hit after in-place edit by the caller / sibling / hit, each compared bit for bit with the uncached call"}
    impl_out = []
    for k, case in enumerate(cases):
        r = impl_by[k]
        impl_out.append(r)
        if r["err"] == 0:
            terms.append(("%s%d" % (label, k), "compare %s %s" % (args_term(case), exp_term(r))))
        else:
            terms.append(("%s%d" % (label, k), "err_code %s" % args_term(case)))
    res = core.coq_eval_sharded(ctx, "corr_" + label, HEADER, terms, shard=shard, timeout=timeout, jobs=jobs)
    if "__error__" in res:
        ctx.fail("correspondence", "%s:coq-eval" % ctx.prop, res["__error__"])
    out = []
    for k, (case, r) in enumerate(zip(cases, impl_out)):
        key = "%s%d" % (label, k)
        rec = {"k": k, "impl_err": r["err"], "ok": False, "dev": None}
        txt = res.get(key)
        if txt is None:
            ctx.fail("correspondence", "%s:%s-no-output" % (ctx.prop, key), "Coq produced no result", hint={"case": full(case)})
            out.append(rec)
            continue
        if r["err"] != 0:
            code = int(txt.replace("%Z", "").strip("() "))
            rec["model_err"] = code
            rec["ok"] = code == r["err"]
            if not rec["ok"]:
                ctx.fail("correspondence", "%s:%s" % (ctx.prop, key),
                         "outcome differs: implementation %s (%s), model %s; case %r" % (ERR.get(r["err"]), r.get("msg"), ERR.get(code, "result"), describe(case)),
                         hint={"case": full(case), "impl_err": r["err"], "model_err": code})
        else:
            code, dc, sc, df, sf, struct = parse_compare(txt)
            rec["model_err"] = code
            tol = tolerance(case)
            relc = dc / max(sc, 1e-300) if sc > 0 else dc
            relf = df / max(sf, 1e-300) if sf > 0 else df
            rec["dev"] = max(relc, relf)
            good = code == 0 and struct and r["mesh_ok"] and dc <= tol * max(sc, 1e-12) and df <= tol * max(sf, 1e-12)
            rec["ok"] = bool(good)
            if not good:
                ctx.fail("correspondence", "%s:%s" % (ctx.prop, key),
                         "model and implementation differ: model outcome %s, rel dev conc %.3g flx %.3g (tol %.1g), structure/coords equal: %s, mesh ok: %s; case %r"
                         % (ERR.get(code, "result"), relc, relf, tol, struct, r["mesh_ok"], describe(case)),
                         hint={"case": full(case), "dev": [relc, relf], **({"stress": {"kind": "sibling", "varied": case["_sibling"], "parent": full(cases[[p for p, q in sib_of.items() if q == k][0]])}} if "_sibling" in case else {})})
        out.append(rec)
    return out[:n_given]


def summarize(ctx, cases, recs, rule, nontrivial=None):
    """Fill ctx.cov from a correspondence run."""
    def key(c):
        d = describe(c)
        return repr(sorted(d.items()))
    nt = nontrivial or (lambda c: True)
    distinct = {key(c) for c in cases if nt(c)}
    hist = {}
    for c, r in zip(cases, recs):
        d = describe(c)
        for name, val in (("footprint", d["footprint"]), ("analytic", d["analytic"]), ("precision", d["precision"]),
                          ("halo", "None" if d["halo"] is None else ("0" if d["halo"] == 0 else "pos")),
                          ("outcome", ERR.get(r["impl_err"], "result") if r["impl_err"] else "result"),
                          ("nlevels", len(levels_list(c)))):
            hist.setdefault(name, {})
            hist[name][str(val)] = hist[name].get(str(val), 0) + 1
    devs = [r["dev"] for r in recs if r.get("dev") is not None]
    ctx.cov["evaluations"] = ctx.cov.get("evaluations", 0) + len(cases)
    ctx.cov["distinct_nontrivial"] = ctx.cov.get("distinct_nontrivial", 0) + len(distinct)
    ctx.cov["rule"] = (ctx.cov.get("rule", "") + " " + rule).strip()
    ctx.cov.setdefault("samples", []).extend(describe(c) for c in cases[:3])
    ctx.cov.setdefault("histogram", {}).update(hist)
    ctx.cov["max_rel_dev_model_vs_impl"] = max(devs) if devs else None
    ctx.cov["correspondence_mismatches"] = ctx.cov.get("correspondence_mismatches", 0) + sum(1 for r in recs if not r["ok"])
