"""Shared float correspondence between bldfm.solver.steady_state_transport_solver and
Model/Solver.v instantiated with IEEE doubles (FloatOps), evaluated by vm_compute.
Used by the checks of C01–C07, C10, C11 with different case generators."""
import math
import re
import sys

import numpy as np

import core

HEADER = (
    "From Coq Require Import ZArith PrimFloat List Bool.\n"
    "From BL Require Import Base.Ops Base.FloatOps Model.Solver Model.SolverExec.\n"
    "Import ListNotations.\nOpen Scope float_scope.\n"
)

ERR = {1: "ModesOdd", 2: "NegativePad", 3: "LevelIndex", 4: "EmptyGrid", 99: "crash", 98: "misshaped"}


def impl():
    if core.SRC not in sys.path:
        sys.path.insert(0, core.SRC)
    import logging

    logging.disable(logging.CRITICAL)
    import bldfm.solver as S

    return S


# ---------------------------------------------------------------------------------------------
# case generation


def profiles(rng, nz, kind="vary", aniso=True, wind=None):
    """z strictly increasing; positive diffusivities; returns (z, (u, v, Kx, Ky, Kz))."""
    z0 = rng.choice([0.05, 0.1, 0.25, 0.5])
    H = rng.choice([0.6, 1.0, 1.5, 2.5])
    if rng.random() < 0.5:
        z = z0 + H * np.linspace(0.0, 1.0, nz)
    else:
        z = z0 + H * (np.linspace(0.0, 1.0, nz) ** rng.choice([1.5, 2.0]))
    if wind is None:
        ang = rng.uniform(0, 2 * math.pi)
        U = rng.choice([0.0, 0.5, 1.0, 3.0])
        um, vm = U * math.cos(ang), U * math.sin(ang)
    else:
        um, vm = wind
    if kind == "const":
        u = np.full(nz, um)
        v = np.full(nz, vm)
        Kz = np.full(nz, rng.choice([0.3, 0.5, 1.0, 2.0]))
        Kx = Kz * (rng.choice([0.5, 1.0, 2.0]) if aniso else 1.0)
        Ky = Kz * (rng.choice([0.25, 1.0, 1.5]) if aniso else 1.0)
    else:
        s = np.log(z / z[0] + 1.0) / np.log(z[-1] / z[0] + 1.0)
        u = um * (0.3 + 0.7 * s)
        v = vm * (0.3 + 0.7 * s)
        k0 = rng.choice([0.3, 0.5, 1.0])
        Kz = k0 * (0.2 + z / z[-1]) ** rng.choice([0.5, 1.0, 1.3])
        Kx = Kz * (rng.choice([0.5, 1.0, 2.0]) if aniso else 1.0)
        Ky = Kz * (rng.choice([0.25, 1.0, 1.5]) if aniso else 1.0)
    return z, (u.copy(), v.copy(), Kx.copy(), Ky.copy(), Kz.copy())


def growth(case):
    """max over retained modes of sum_i Re sqrt(-T_i/Kz_i) dz_i (shooting growth exponent)"""
    z = case["z"]
    u, v, Kx, Ky, Kz = case["profiles"]
    ny, nx = case["q0"].shape
    xmx, ymx = case["domain"]
    dx, dy = xmx / nx, ymx / ny
    lxm, lym = math.pi / dx, math.pi / dy
    dz = np.diff(z)
    g = 0.0
    for lx in (lxm, 0.0):
        for ly in (lym, 0.0):
            T = -(Kx * lx**2 + Ky * ly**2) - 1j * u * lx - 1j * v * ly
            lam = np.sqrt(-T / Kz)
            g = max(g, float(np.sum(lam.real[:-1] * dz)))
    return g


def tame(case, bound=5.0):
    """shrink the column height until the shooting growth exponent is below the bound"""
    for _ in range(40):
        g = growth(case)
        if g <= bound:
            break
        z = case["z"]
        case["z"] = z[0] + (z - z[0]) * max(0.3, bound / g * 0.95)
    case["growth"] = growth(case)
    return case


def source(rng, ny, nx, kind=None):
    kind = kind or rng.choice(["random", "sparse", "smooth", "signed"])
    if kind == "random":
        q = np.array([[rng.randint(0, 16) / 8.0 for _ in range(nx)] for _ in range(ny)])
    elif kind == "sparse":
        q = np.zeros((ny, nx))
        for _ in range(rng.randint(1, 3)):
            q[rng.randrange(ny), rng.randrange(nx)] = rng.choice([1.0, 2.5, 0.75])
    elif kind == "smooth":
        jj, ii = np.meshgrid(np.arange(ny), np.arange(nx), indexing="ij")
        q = np.exp(-((ii - nx / 2.0) ** 2 + (jj - ny / 3.0) ** 2) / 4.0)
    else:
        q = np.array([[rng.randint(-8, 8) / 4.0 for _ in range(nx)] for _ in range(ny)])
    return q


def mk_case(rng, nx=None, ny=None, nz=None, modes=None, halo="rand", levels=None, footprint=None,
            analytic=False, precision=None, kind="vary", meas="rand", bg=None, src=None, aniso=True,
            wind=None, domain=None):
    nx = nx or rng.choice([3, 4, 5, 6])
    ny = ny or rng.choice([3, 4, 5, 6])
    nz = nz or rng.choice([2, 3, 4, 6])
    if domain is None:
        dx = rng.choice([1.0, 1.5, 2.0, 2.5])
        dy = rng.choice([1.0, 1.25, 2.0, 3.0])
        domain = (nx * dx, ny * dy)
    dx, dy = domain[0] / nx, domain[1] / ny
    if analytic:
        kind = "const"
    z, prof = profiles(rng, nz, kind=kind, aniso=aniso, wind=wind)
    if halo == "rand":
        halo = rng.choice([0.0, None, dx, 2 * dy, 1.3 * dx, 0.7 * dy + 0.01, 2.6 * dx])
        if halo is None and max(nx, ny) > 4:
            halo = rng.choice([0.0, dx, 1.3 * dx])  # keep padded grids small
    if footprint is None:
        footprint = rng.random() < 0.5
    if levels is None:
        levels = rng.choice([nz - 1, [nz - 1], [0, nz - 1], sorted(rng.sample(range(nz), min(nz, 2)))])
    if modes is None:
        modes = rng.choice([(2, 2), (4, 4), (4, 2), (6, 4), (8, 8), (64, 64)])
    if meas == "rand":
        meas = rng.choice([(0.0, 0.0), (dx * rng.randrange(nx), dy * rng.randrange(ny)), (0.37 * domain[0], 0.61 * domain[1])])
    if precision is None:
        precision = rng.choice(["double", "double", "single"])
    if bg is None:
        bg = rng.choice([0.0, 0.0, 1.5, -2.0])
    q0 = source(rng, ny, nx, src)
    case = dict(q0=q0, z=z, profiles=prof, domain=tuple(float(d) for d in domain), levels=levels, modes=tuple(modes),
                meas_pt=tuple(float(m) for m in meas), bg=float(bg), footprint=bool(footprint), analytic=bool(analytic),
                halo=None if halo is None else float(halo), precision=precision)
    return tame(case)


def describe(case):
    ny, nx = case["q0"].shape
    return dict(nx=nx, ny=ny, nz=len(case["z"]), domain=case["domain"], levels=case["levels"] if not isinstance(case["levels"], np.ndarray) else case["levels"].tolist(),
                modes=case["modes"], meas_pt=case["meas_pt"], bg=case["bg"], footprint=case["footprint"],
                analytic=case["analytic"], halo=case["halo"], precision=case["precision"],
                growth=round(case.get("growth", 0.0), 3))


def full(case):
    """JSON-serialisable complete case (for replays)"""
    d = describe(case)
    d["q0"] = case["q0"].tolist()
    d["z"] = case["z"].tolist()
    d["profiles"] = [p.tolist() for p in case["profiles"]]
    return d


def from_full(d):
    c = dict(q0=np.array(d["q0"], dtype=float), z=np.array(d["z"], dtype=float),
             profiles=tuple(np.array(p, dtype=float) for p in d["profiles"]),
             domain=tuple(d["domain"]), levels=d["levels"], modes=tuple(d["modes"]), meas_pt=tuple(d["meas_pt"]),
             bg=d["bg"], footprint=d["footprint"], analytic=d["analytic"], halo=d["halo"], precision=d["precision"])
    return c


# ---------------------------------------------------------------------------------------------
# implementation


def call(S, case, **over):
    c = dict(case)
    c.update(over)
    return S.steady_state_transport_solver(
        c["q0"], c["z"], c["profiles"], c["domain"], c["levels"], modes=c["modes"], meas_pt=c["meas_pt"],
        srf_bg_conc=c["bg"], footprint=c["footprint"], analytic=c["analytic"], halo=c["halo"],
        precision=c["precision"])


def levels_list(case):
    lv = case["levels"]
    if np.ndim(lv) == 0:
        return [int(lv)]
    return [int(l) for l in lv]


def run_impl(S, case):
    ny, nx = case["q0"].shape
    nl = len(levels_list(case))
    try:
        with np.errstate(all="ignore"):
            (X, Y, Z), conc, flx = call(S, case)
    except ValueError as e:
        if "even" in str(e):
            return {"err": 1, "msg": str(e)}
        if "negative" in str(e):
            return {"err": 2, "msg": str(e)}
        return {"err": 99, "msg": "ValueError: " + str(e)}
    except IndexError as e:
        return {"err": 3, "msg": str(e)}
    except Exception as e:  # noqa
        return {"err": 99, "msg": type(e).__name__ + ": " + str(e)}
    conc = np.asarray(conc, dtype=float)
    flx = np.asarray(flx, dtype=float)
    if conc.size != nl * ny * nx or flx.size != nl * ny * nx or np.size(X) != nl * ny * nx:
        return {"err": 98, "msg": "shape %r for source %r, %d levels" % (conc.shape, (ny, nx), nl), "shape": list(conc.shape)}
    X3, Y3, Z3 = (np.asarray(A, dtype=float).reshape(nl, ny, nx) for A in (X, Y, Z))
    x, y, z = X3[0, 0, :], Y3[0, :, 0], Z3[:, 0, 0]
    mesh_ok = bool(np.array_equal(X3, np.broadcast_to(x[None, None, :], X3.shape)) and
                   np.array_equal(Y3, np.broadcast_to(y[None, :, None], Y3.shape)) and
                   np.array_equal(Z3, np.broadcast_to(z[:, None, None], Z3.shape)))
    return {"err": 0, "x": x, "y": y, "z": z, "conc": conc.reshape(nl, ny, nx), "flx": flx.reshape(nl, ny, nx),
            "shape": list(conc.shape), "mesh_ok": mesh_ok and list(np.shape(X)) == list(conc.shape) == list(flx.shape)}


# ---------------------------------------------------------------------------------------------
# Coq terms


def fl(x):
    return core.flit(x)


def l1(a):
    return "[" + "; ".join(fl(x) for x in a) + "]"


def l2(a):
    return "[" + "; ".join(l1(r) for r in a) + "]"


def l3(a):
    return "[" + "; ".join(l2(r) for r in a) + "]"


def nat_list(a):
    return "[" + "; ".join("%d%%nat" % x for x in a) + "]"


def args_term(case):
    u, v, Kx, Ky, Kz = case["profiles"]
    halo = "None" if case["halo"] is None else "(Some (fr %s))" % fl(case["halo"])
    return ("(mkArgs FloatOps (R2 %s) (R1 %s) (mkProf FloatOps (R1 %s) (R1 %s) (R1 %s) (R1 %s) (R1 %s)) (fr %s) (fr %s) %s "
            "%d%%nat %d%%nat (fr %s) (fr %s) (fr %s) %s %s %s %s)") % (
        l2(case["q0"]), l1(case["z"]), l1(u), l1(v), l1(Kx), l1(Ky), l1(Kz),
        fl(case["domain"][0]), fl(case["domain"][1]), nat_list(levels_list(case)),
        case["modes"][0], case["modes"][1], fl(case["meas_pt"][0]), fl(case["meas_pt"][1]), fl(case["bg"]),
        "true" if case["footprint"] else "false", "true" if case["analytic"] else "false", halo,
        "true" if case["precision"] == "single" else "false")


def exp_term(r):
    return "(mkExp %s %s %s %s %s %s)" % (l1(r["x"]), l1(r["y"]), l1(r["z"]), l3(r["conc"]), l3(r["flx"]), nat_list(r["shape"]))


def parse_float(s):
    s = s.strip()
    if s in ("nan",):
        return float("nan")
    if s in ("infinity",):
        return float("inf")
    if s in ("neg_infinity",):
        return float("-inf")
    return float(s)


def parse_compare(txt):
    # (0%Z, 1.2e-13, 0.5, ..., true)
    t = txt.strip().strip("()")
    parts = [p.strip() for p in t.split(",")]
    code = int(parts[0].replace("%Z", "").strip("() "))
    return code, parse_float(parts[1]), parse_float(parts[2]), parse_float(parts[3]), parse_float(parts[4]), parts[5] == "true"


def tolerance(case):
    return 2e-6 if case["precision"] == "single" else 1e-8


def correspond(ctx, cases, label, shard=6, jobs=14, timeout=900):
    """Runs implementation and model on every case.  Returns list of per-case dicts and
    registers ctx.fail for every disagreement."""
    S = impl()
    terms = []
    impl_out = []
    for k, case in enumerate(cases):
        r = run_impl(S, case)
        impl_out.append(r)
        if r["err"] == 0:
            terms.append(("%s%d" % (label, k), "compare %s %s" % (args_term(case), exp_term(r))))
        else:
            terms.append(("%s%d" % (label, k), "err_code %s" % args_term(case)))
    res = core.coq_eval_sharded(ctx, "corr_" + label, HEADER, terms, shard=shard, timeout=timeout, jobs=jobs)
    if "__error__" in res:
        ctx.fail("correspondence", "%s:coq-eval" % ctx.prop, res["__error__"])
    out = []
    for k, (case, r) in enumerate(zip(cases, impl_out)):
        key = "%s%d" % (label, k)
        rec = {"k": k, "impl_err": r["err"], "ok": False, "dev": None}
        txt = res.get(key)
        if txt is None:
            ctx.fail("correspondence", "%s:%s-no-output" % (ctx.prop, key), "Coq produced no result", hint={"case": full(case)})
            out.append(rec)
            continue
        if r["err"] != 0:
            code = int(txt.replace("%Z", "").strip("() "))
            rec["model_err"] = code
            rec["ok"] = code == r["err"]
            if not rec["ok"]:
                ctx.fail("correspondence", "%s:%s" % (ctx.prop, key),
                         "outcome differs: implementation %s (%s), model %s; case %r" % (ERR.get(r["err"]), r.get("msg"), ERR.get(code, "result"), describe(case)),
                         hint={"case": full(case), "impl_err": r["err"], "model_err": code})
        else:
            code, dc, sc, df, sf, struct = parse_compare(txt)
            rec["model_err"] = code
            tol = tolerance(case)
            relc = dc / max(sc, 1e-300) if sc > 0 else dc
            relf = df / max(sf, 1e-300) if sf > 0 else df
            rec["dev"] = max(relc, relf)
            good = code == 0 and struct and r["mesh_ok"] and dc <= tol * max(sc, 1e-12) and df <= tol * max(sf, 1e-12)
            rec["ok"] = bool(good)
            if not good:
                ctx.fail("correspondence", "%s:%s" % (ctx.prop, key),
                         "model and implementation differ: model outcome %s, rel dev conc %.3g flx %.3g (tol %.1g), structure/coords equal: %s, mesh ok: %s; case %r"
                         % (ERR.get(code, "result"), relc, relf, tol, struct, r["mesh_ok"], describe(case)),
                         hint={"case": full(case), "dev": [relc, relf]})
        out.append(rec)
    return out


def summarize(ctx, cases, recs, rule, nontrivial=None):
    """Fill ctx.cov from a correspondence run."""
    def key(c):
        d = describe(c)
        return repr(sorted(d.items()))
    nt = nontrivial or (lambda c: True)
    distinct = {key(c) for c in cases if nt(c)}
    hist = {}
    for c, r in zip(cases, recs):
        d = describe(c)
        for name, val in (("footprint", d["footprint"]), ("analytic", d["analytic"]), ("precision", d["precision"]),
                          ("halo", "None" if d["halo"] is None else ("0" if d["halo"] == 0 else "pos")),
                          ("outcome", ERR.get(r["impl_err"], "result") if r["impl_err"] else "result"),
                          ("nlevels", len(levels_list(c)))):
            hist.setdefault(name, {})
            hist[name][str(val)] = hist[name].get(str(val), 0) + 1
    devs = [r["dev"] for r in recs if r.get("dev") is not None]
    ctx.cov["evaluations"] = ctx.cov.get("evaluations", 0) + len(cases)
    ctx.cov["distinct_nontrivial"] = ctx.cov.get("distinct_nontrivial", 0) + len(distinct)
    ctx.cov["rule"] = (ctx.cov.get("rule", "") + " " + rule).strip()
    ctx.cov.setdefault("samples", []).extend(describe(c) for c in cases[:3])
    ctx.cov.setdefault("histogram", {}).update(hist)
    ctx.cov["max_rel_dev_model_vs_impl"] = max(devs) if devs else None
    ctx.cov["correspondence_mismatches"] = ctx.cov.get("correspondence_mismatches", 0) + sum(1 for r in recs if not r["ok"])
