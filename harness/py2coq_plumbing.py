"""Fail-closed translator for the array PLUMBING statements of bldfm.solver.steady_state_transport_solver
(tie B of property C11, shared by every solver-family property).

Reads the CURRENT  <src>/bldfm/solver.py  with `ast`, follows the data flow of the arrays through the function
body once per branch combination (footprint / dispersion with re-centring / dispersion without) and emits
GenPlumbing.v, terms of the description language of coq/Model/SolverArray.v (plumb_op, zexp):

  gen_fwd            srf_flx --> tfftq0 in dispersion mode: np.pad widths, fft2/ifft2 and its norm, fftshift /
                     ifftshift and their axes, the slice bounds, in source order
  gen_ones_shape/_divs   tfftq0 in footprint mode: np.ones(shape, dtype=np.complex128) / d1 / d2
  gen_conc fp rc     tfftp --> conc  (multiplication by `shift`, fftshift(axes), np.pad widths, ifftshift(axes),
                     fft2 | ifft2 with norm, .real, crop bounds), per branch
  gen_flx fp rc      tfftq --> flx
  gen_spec_shape     the (rows, cols) of the np.zeros((nlvls, ., .)) that create tfftp and tfftq
  gen_mesh           Lx, Ly = np.meshgrid(lx, ly): the fftfreq lengths the first and the second argument are built on
  gen_msk_shape/_false   msk = np.ones(shape, dtype=bool) and the entries set to False

coq/Bridge/PlumbingBridge.v proves on every run that these are interpreted (run_ops / run_ones) to exactly the
pipelines fwd_pipe / ones_arr / back_pipe . apply_shift that Model.SolverArray.solve_array is made of, for all
arrays and all sizes; Proofs/ArrayRefine.v proves solve_array = Model.Solver.solve cell by cell.

Accepted: exactly the statement and expression forms used for the plumbing today.  Names of intermediate arrays
are free (the data flow is followed), statements that do not touch a tracked array are ignored (they are pinned
by harness/skeleton.py and bridged by harness/solverslices.py).  Everything else raises TranslateError:
a plumbing call on an array whose history is not known, arithmetic on a tracked array other than `* shift`,
an in-place store into an array that has already been shifted / padded / transformed, a re-binding of the
truncated source spectrum after the per-mode computation read it, a re-binding of an index variable
(px, py, nxe, nye, nlx, nly, dlx, dly) beyond the ones the model has, different plumbing in the two arms of a
condition the model does not have, unknown keywords (mode=, constant_values=, axes=, norm=, indexing=)."""
import ast
import copy
import os

from py2coq import TranslateError

SST = "steady_state_transport_solver"
IVARS = {"py": "Vpy", "px": "Vpx", "nye": "Vnye", "nxe": "Vnxe", "nly": "Vnly", "nlx": "Vnlx", "dly": "Vdly", "dlx": "Vdlx"}
# how many times the model binds each index variable (nlx, nly: `nlx, nly = modes` and the clamp)
IVAR_BINDINGS = {"py": 1, "px": 1, "nye": 1, "nxe": 1, "dly": 1, "dlx": 1, "nly": 2, "nlx": 2}
NUMPY_FFT = {"fftshift", "ifftshift", "fftfreq"}
FFT_MANAGER = {"fft2", "ifft2"}
SPECTRA = ("tfftp", "tfftq")
SOURCE_SPECTRUM = "tfftq0"
OPAQUE = ("opaque",)


def _err(node, why):
    txt = ast.unparse(node) if isinstance(node, ast.AST) else str(node)
    raise TranslateError("plumbing: %s (line %s): %s" % (why, getattr(node, "lineno", "?"), " ".join(txt.split())[:160]))


def _is_doc(st):
    return isinstance(st, ast.Expr) and isinstance(st.value, ast.Constant) and isinstance(st.value.value, str)


def _is_logging(st):
    if isinstance(st, ast.Expr) and isinstance(st.value, ast.Call):
        f = st.value.func
        return isinstance(f, ast.Attribute) and isinstance(f.value, ast.Name) and f.value.id == "logger"
    return False


def _names(node):
    return {n.id for n in ast.walk(node) if isinstance(n, ast.Name)}


def _callee(node):
    """'np.pad' / 'fft2' / ... for a Call node, else None"""
    f = node.func
    if isinstance(f, ast.Name):
        return f.id
    if isinstance(f, ast.Attribute) and isinstance(f.value, ast.Name):
        return f.value.id + "." + f.attr
    return None


def _tracked(v):
    return v[0] in ("chain", "ones")


def zexp(node):
    """integer index expression over the index variables of the model"""
    if isinstance(node, ast.Name):
        if node.id not in IVARS:
            _err(node, "index expression mentions a name that is not an index variable of the model")
        return "ZV %s" % IVARS[node.id]
    if isinstance(node, ast.Constant) and type(node.value) is int and node.value >= 0:
        return "ZC %d" % node.value
    if isinstance(node, ast.BinOp) and type(node.op) in (ast.Add, ast.Sub, ast.Mult, ast.FloorDiv):
        c = {ast.Add: "ZAdd", ast.Sub: "ZSub", ast.Mult: "ZMul", ast.FloorDiv: "ZFloorDiv"}[type(node.op)]
        return "%s (%s) (%s)" % (c, zexp(node.left), zexp(node.right))
    _err(node, "index expression outside the accepted fragment (+ - * //, index variables, non-negative literals)")


def _kw(call, allowed):
    out = {}
    for k in call.keywords:
        if k.arg is None or k.arg not in allowed:
            _err(call, "unexpected keyword %r" % k.arg)
        out[k.arg] = k.value
    return out


def _const(node, values, what):
    if not (isinstance(node, ast.Constant) and node.value in values and type(node.value) in {type(v) for v in values}):
        _err(node, "%s must be one of %r" % (what, values))
    return node.value


class State:
    def __init__(self):
        self.env = {}
        self.frozen = set()
        self.binds = {k: 0 for k in IVARS}
        self.used = set()          # index variables already used by a plumbing statement
        self.msk_false = {}        # mask name -> entries set to False
        self.mesh = None
        self.spec_shape = {}
        self.dead = False          # the branch ended in raise / return
        self.result = None


class Walker:
    def __init__(self, fn, fp, rc):
        self.fn, self.fp, self.rc = fn, fp, rc
        self.shift_assigns = sorted((n.lineno, n.col_offset) for n in ast.walk(fn)
                                    if isinstance(n, ast.Assign) and len(n.targets) == 1
                                    and isinstance(n.targets[0], ast.Name) and n.targets[0].id == "shift")
        params = [a.arg for a in fn.args.args + fn.args.kwonlyargs]
        self.st = State()
        for p in params:
            self.st.env[p] = ("chain", "srf_flx", ()) if p == "srf_flx" else ("param", p)
        if "srf_flx" not in params or "footprint" not in params:
            _err(fn, "parameters srf_flx / footprint not found")

    # ---------------------------------------------------------------- expressions
    def use_ivars(self, node):
        for n in _names(node) & set(IVARS):
            self.st.used.add(n)

    def read(self, node):
        """an expression the model does not interpret reads these names"""
        for n in _names(node):
            v = self.st.env.get(n, OPAQUE)
            if v[0] == "ones" or (v[0] == "chain" and v[1] == "srf_flx"):
                self.st.frozen.add(n)

    def arr(self, node, what):
        v = self.eval(node)
        if v[0] != "chain":
            _err(node, "%s applied to an array whose history the translator does not know" % what)
        return v

    def eval(self, node):
        env = self.st.env
        if isinstance(node, ast.Name):
            return env.get(node.id, OPAQUE)
        if isinstance(node, ast.Attribute) and node.attr == "real":
            v = self.eval(node.value)
            if v[0] == "chain":
                return ("chain", v[1], v[2] + ("OpReal",))
            self.read(node)
            return OPAQUE
        if isinstance(node, ast.Attribute) and node.attr in ("shape", "ndim", "dtype"):
            return OPAQUE
        if isinstance(node, ast.Tuple):
            return ("tuple", tuple(self.eval(e) for e in node.elts))
        if isinstance(node, ast.Call):
            return self.call(node)
        if isinstance(node, ast.Subscript):
            v = self.eval(node.value)
            sl = node.slice
            if v[0] == "chain" and isinstance(sl, ast.Tuple) and all(isinstance(s, ast.Slice) for s in sl.elts):
                return self.slice(node, v, sl.elts)
            if v[0] == "chain" and isinstance(sl, ast.Slice):
                _err(node, "one-axis slice of a tracked array")
            self.read(node)
            return OPAQUE
        if isinstance(node, ast.BinOp):
            l, r = self.eval(node.left), self.eval(node.right)
            if isinstance(node.op, ast.Mult):
                for a, b in ((l, r), (r, l)):
                    if a[0] == "chain" and b[0] == "shift":
                        if a[1] not in SPECTRA:
                            _err(node, "multiplication by shift of an array that is not tfftp / tfftq")
                        return ("chain", a[1], a[2] + ("OpMulShift %s" % b[1],))
            if isinstance(node.op, ast.Div) and l[0] == "ones":
                self.use_ivars(node.right)
                return ("ones", l[1], l[2] + (zexp(node.right),))
            if _tracked(l) or _tracked(r):
                # arithmetic on a tracked array that the model does not have: the result is unknown (and any later
                # plumbing call on it fails closed); a spectrum that is still being filled may be read freely
                for v in (l, r):
                    if v[0] == "ones" or (v[0] == "chain" and (v[2] or v[1] == "srf_flx")):
                        _err(node, "arithmetic on a plumbing array that the model does not have")
            fr = [v for v in (l, r) if v[0] in ("freq", "lin")]
            if len(fr) == 1 and not any(_tracked(v) for v in (l, r)):
                return ("lin", fr[0][1])
            self.read(node)
            return OPAQUE
        self.read(node)
        return OPAQUE

    def slice(self, node, v, elts):
        def bounds(s):
            if s.step is not None or s.lower is None or s.upper is None:
                _err(node, "slice of a tracked array must be lo:hi on the last two axes")
            self.use_ivars(s.lower)
            self.use_ivars(s.upper)
            return "(%s) (%s)" % (zexp(s.lower), zexp(s.upper))
        if len(elts) == 2:
            return ("chain", v[1], v[2] + ("OpSlice2 %s %s" % (bounds(elts[0]), bounds(elts[1])),))
        if len(elts) == 3:
            f = elts[0]
            if not (f.lower is None and f.upper is None and f.step is None):
                _err(node, "the level axis of a tracked array is sliced")
            return ("chain", v[1], v[2] + ("OpSlice3 %s %s" % (bounds(elts[1]), bounds(elts[2])),))
        _err(node, "slice with %d axes" % len(elts))

    def call(self, node):
        name = _callee(node)
        if name == "np.pad":
            if len(node.args) != 2:
                _err(node, "np.pad(array, widths, mode='constant', constant_values=0.0) expected")
            kw = _kw(node, {"mode", "constant_values"})
            if "mode" in kw:
                _const(kw["mode"], ("constant",), "mode")
            if "constant_values" in kw:
                _const(kw["constant_values"], (0.0, 0), "constant_values")
            v = self.arr(node.args[0], "np.pad")
            w = node.args[1]
            if not (isinstance(w, ast.Tuple) and all(isinstance(p, ast.Tuple) and len(p.elts) == 2 for p in w.elts)):
                _err(node, "pad widths must be a tuple of (before, after) pairs")
            self.use_ivars(w)
            flat = ["(%s)" % zexp(e) for p in w.elts for e in p.elts]
            if len(w.elts) == 2:
                return ("chain", v[1], v[2] + ("OpPad2 " + " ".join(flat),))
            if len(w.elts) == 3:
                return ("chain", v[1], v[2] + ("OpPad3 " + " ".join(flat),))
            _err(node, "np.pad with %d axes" % len(w.elts))
        if name in ("fft2", "ifft2"):
            kw = _kw(node, {"norm"})
            nrm = None
            if len(node.args) == 2:
                nrm = node.args[1]
            elif len(node.args) != 1:
                _err(node, "fft2(array, norm=...) expected")
            if "norm" in kw:
                if nrm is not None:
                    _err(node, "norm given twice")
                nrm = kw["norm"]
            nv = "backward" if nrm is None else _const(nrm, ("forward", "backward"), "norm")
            v = self.arr(node.args[0], name)
            return ("chain", v[1], v[2] + ("OpFft2 %s %s" % ("true" if name == "ifft2" else "false",
                                                              {"forward": "NormForward", "backward": "NormBackward"}[nv]),))
        if name in ("fftshift", "ifftshift"):
            kw = _kw(node, {"axes"})
            if len(node.args) != 1:
                _err(node, "%s(array[, axes=(1, 2)]) expected" % name)
            axes = "AxesAll"
            if "axes" in kw:
                a = kw["axes"]
                if not (isinstance(a, ast.Tuple) and [getattr(e, "value", None) for e in a.elts] == [1, 2]):
                    _err(node, "axes must be (1, 2)")
                axes = "Axes12"
            v = self.arr(node.args[0], name)
            return ("chain", v[1], v[2] + ("OpShift %s %s" % ("true" if name == "ifftshift" else "false", axes),))
        if name in ("np.ones", "np.zeros"):
            kw = _kw(node, {"dtype"})
            if len(node.args) == 1 and isinstance(node.args[0], ast.Tuple) and "dtype" in kw:
                dt = ast.unparse(kw["dtype"])
                sh = node.args[0].elts
                if name == "np.ones" and dt == "np.complex128" and len(sh) == 2:
                    self.use_ivars(node.args[0])
                    return ("ones", (zexp(sh[0]), zexp(sh[1])), ())
                if name == "np.ones" and dt == "bool" and len(sh) == 2:
                    return ("mask", (zexp(sh[0]), zexp(sh[1])))
                if name == "np.zeros" and len(sh) == 3 and dt in ("np.complex64", "np.complex128"):
                    if not (isinstance(sh[0], ast.Name) and sh[0].id == "nlvls"):
                        _err(node, "the spectra must have shape (nlvls, rows, cols)")
                    self.use_ivars(node.args[0])
                    return ("zeros3", (zexp(sh[1]), zexp(sh[2])))
            self.read(node)
            return OPAQUE
        if name == "fftfreq":
            kw = _kw(node, {"d"})
            if len(node.args) != 1 or "d" not in kw:
                _err(node, "fftfreq(n, d=1.0 / n) expected")
            d = kw["d"]
            ok = (isinstance(d, ast.BinOp) and isinstance(d.op, ast.Div) and isinstance(d.left, ast.Constant)
                  and d.left.value in (1.0, 1) and ast.dump(d.right) == ast.dump(node.args[0]))
            if not ok:
                _err(node, "fftfreq spacing must be 1.0 / n (integer frequencies)")
            self.use_ivars(node.args[0])
            return ("freq", zexp(node.args[0]))
        if name == "np.meshgrid" and any(self.eval(a)[0] in ("lin", "freq") for a in node.args):
            _kw(node, set())
            if len(node.args) != 2:
                _err(node, "np.meshgrid(lx, ly) expected")
            a, b = self.eval(node.args[0]), self.eval(node.args[1])
            if a[0] != "lin" or b[0] != "lin":
                _err(node, "np.meshgrid arguments are not built on fftfreq arrays")
            return ("mesh", a[1], b[1])
        if name == "np.squeeze" and len(node.args) == 1 and not node.keywords:
            return ("squeeze", self.eval(node.args[0]))
        # any other call: if a tracked, already processed array is passed, fail closed
        for a in list(node.args) + [k.value for k in node.keywords]:
            for n in _names(a):
                v = self.st.env.get(n, OPAQUE)
                if v[0] == "chain" and v[2] and v[1] in SPECTRA and name not in ("np.shape",):
                    _err(node, "a plumbing array is passed to a call the model does not have")
        self.read(node)
        return OPAQUE

    # ---------------------------------------------------------------- statements
    def bind(self, node, name, v):
        st = self.st
        if name in NUMPY_FFT or name in FFT_MANAGER or name == "np":
            _err(node, "a plumbing function name is re-bound inside the solver")
        if name in IVARS:
            if name in st.used:
                _err(node, "index variable %s is re-bound after a plumbing statement used it" % name)
            st.binds[name] += 1
        if name in st.frozen and st.env.get(name) != v:
            _err(node, "%s is re-bound after the per-mode computation read it" % name)
        if v[0] == "zeros3":
            if name not in SPECTRA:
                _err(node, "a (nlvls, rows, cols) spectrum is created under a name other than tfftp / tfftq")
            if name in st.spec_shape and st.spec_shape[name] != v[1]:
                _err(node, "%s is created with two different shapes" % name)
            st.spec_shape[name] = v[1]
            v = ("chain", name, ())
        if v[0] == "mask":
            st.msk_false[name] = []
        st.env[name] = v

    def assign(self, s):
        st = self.st
        if len(s.targets) != 1:
            _err(s, "chained assignment")
        t = s.targets[0]
        if isinstance(t, ast.Name):
            if t.id == "shift":
                occ = self.shift_assigns.index((s.lineno, s.col_offset))
                if occ > 1:
                    _err(s, "a third assignment to shift")
                self.read(s.value)
                self.bind(s, t.id, ("shift", ("ShiftFp", "ShiftCtr")[occ]))
                return
            self.bind(s, t.id, self.eval(s.value))
            return
        if isinstance(t, ast.Tuple) and all(isinstance(e, ast.Name) for e in t.elts):
            v = self.eval(s.value)
            if v[0] == "mesh" and len(t.elts) == 2:
                st.mesh = (v[1], v[2])
                self.bind(s, t.elts[0].id, ("meshx", v[1]))
                self.bind(s, t.elts[1].id, ("meshy", v[2]))
                return
            if v[0] == "tuple" and len(v[1]) == len(t.elts):
                for e, x in zip(t.elts, v[1]):
                    self.bind(s, e.id, x if not _tracked(x) else _err(s, "a plumbing array is bound in a tuple assignment"))
                return
            for e in t.elts:
                self.bind(s, e.id, OPAQUE)
            return
        if isinstance(t, ast.Subscript) and isinstance(t.value, ast.Name):
            base = t.value.id
            v = st.env.get(base, OPAQUE)
            self.read(s.value)
            self.read(t.slice)
            if v[0] == "mask":
                idx = t.slice
                if not (isinstance(idx, ast.Tuple) and all(isinstance(e, ast.Constant) and type(e.value) is int for e in idx.elts)
                        and len(idx.elts) == 2 and isinstance(s.value, ast.Constant) and s.value.value is False):
                    _err(s, "the mask may only be cleared at constant entries")
                st.msk_false[base].append((idx.elts[0].value, idx.elts[1].value))
                return
            if v[0] == "ones" or (v[0] == "chain" and (v[2] or v[1] not in SPECTRA)):
                _err(s, "in-place store into an array of the plumbing pipeline")
            if v[0] in ("meshx", "meshy", "freq", "lin", "shift"):
                _err(s, "in-place store into a wavenumber / shift array")
            return
        _err(s, "assignment form outside the accepted fragment")

    def branch(self, stmts):
        saved = self.st
        self.st = copy.deepcopy(saved)
        self.block(stmts)
        out, self.st = self.st, saved
        return out

    def merge(self, node, a, b):
        if a.dead and b.dead:
            self.st.dead = True
            return
        if a.dead or b.dead:
            self.st = b if a.dead else a
            return
        m = a
        for k in set(a.env) | set(b.env):
            va, vb = a.env.get(k, OPAQUE), b.env.get(k, OPAQUE)
            if va != vb:
                if any(v[0] in ("chain", "ones", "shift", "mask", "mesh", "meshx", "meshy", "freq", "lin") for v in (va, vb)):
                    _err(node, "the plumbing of %s differs between the arms of a condition the model does not have" % k)
                m.env[k] = OPAQUE
        m.frozen = a.frozen | b.frozen
        m.used = a.used | b.used
        m.binds = {k: max(a.binds[k], b.binds[k]) for k in a.binds}
        if a.msk_false != b.msk_false or a.mesh != b.mesh or a.spec_shape != b.spec_shape:
            _err(node, "mask / meshgrid / spectrum shapes differ between the arms of a condition")
        self.st = m

    def block(self, stmts):
        for s in stmts:
            if self.st.dead:
                _err(s, "statement after raise / return")
            self.stmt(s)

    def stmt(self, s):
        st = self.st
        if _is_doc(s) or _is_logging(s) or isinstance(s, ast.Pass):
            return
        if isinstance(s, ast.Assign):
            return self.assign(s)
        if isinstance(s, ast.AugAssign):
            for n in _names(s.target):
                if n in IVARS or st.env.get(n, OPAQUE)[0] != "opaque":
                    _err(s, "augmented assignment to a plumbing name")
            self.read(s.value)
            return
        if isinstance(s, ast.Expr):
            if isinstance(s.value, ast.Call):
                for n in _names(s.value):
                    if st.env.get(n, OPAQUE)[0] in ("chain", "ones", "mask", "meshx", "meshy", "shift"):
                        _err(s, "a plumbing array is passed to a call statement")
                return
            _err(s, "expression statement")
        if isinstance(s, ast.Raise):
            st.dead = True
            return
        if isinstance(s, ast.Return):
            if s.value is None:
                _err(s, "bare return")
            st.result = self.eval(s.value)
            st.dead = True
            return
        if isinstance(s, ast.For):
            if s.orelse:
                _err(s, "for ... else")
            before = {k: v for k, v in st.env.items() if v[0] != "opaque" and v[0] != "param"}
            binds = dict(st.binds)
            for n in _names(s.target):
                self.bind(s, n, OPAQUE)
            self.block(s.body)
            after = {k: self.st.env.get(k) for k in before}
            if after != before or binds != self.st.binds or self.st.dead:
                _err(s, "a loop re-binds a plumbing array or an index variable")
            return
        if isinstance(s, ast.If):
            test = ast.unparse(s.test)
            if isinstance(s.test, ast.Name) and s.test.id == "footprint":
                return self.block(s.body if self.fp else s.orelse)
            if "cache" in _names(s.test):
                # the cache block (C15: harness/py2coq_cache.py): must not bind anything the plumbing uses
                for n in ast.walk(s):
                    if isinstance(n, ast.Name) and isinstance(n.ctx, ast.Store) and (n.id in IVARS or n.id in SPECTRA or n.id == SOURCE_SPECTRUM):
                        _err(s, "the cache block binds a plumbing name")
                return
            if {"xm", "ym"} <= _names(s.test) and not self.fp:
                return self.block(s.body if self.rc else s.orelse)
            a = self.branch(s.body)
            b = self.branch(s.orelse)
            return self.merge(s, a, b)
        _err(s, "statement form outside the accepted fragment (%s): %s" % (type(s).__name__, ""))

    def run(self):
        self.block(self.fn.body)
        return self.st


def _check_imports(tree):
    got = {}
    for st in tree.body:
        if isinstance(st, ast.ImportFrom):
            for a in st.names:
                got[a.asname or a.name] = ((st.module or ""), a.name, st.level)
        elif isinstance(st, ast.Import):
            for a in st.names:
                got[a.asname or a.name.split(".")[0]] = (a.name, None, 0)
        elif isinstance(st, (ast.Assign, ast.AugAssign, ast.FunctionDef, ast.ClassDef)):
            for n in ast.walk(st) if not isinstance(st, (ast.FunctionDef, ast.ClassDef)) else [st]:
                nm = n.name if isinstance(n, (ast.FunctionDef, ast.ClassDef)) else (n.id if isinstance(n, ast.Name) and isinstance(n.ctx, ast.Store) else None)
                if nm in NUMPY_FFT | FFT_MANAGER | {"np"}:
                    _err(st, "a plumbing function name is bound at module level by something other than its import")
    for n in NUMPY_FFT:
        if got.get(n) != ("numpy.fft", n, 0):
            raise TranslateError("plumbing: %s is not imported from numpy.fft" % n)
    for n in FFT_MANAGER:
        if got.get(n) != ("fft_manager", n, 1):
            raise TranslateError("plumbing: %s is not imported from .fft_manager" % n)
    if got.get("np") != ("numpy", None, 0):
        raise TranslateError("plumbing: np is not numpy")


def _coq_list(items):
    return "[" + ";\n   ".join(items) + "]"


def analyse(src_root):
    path = os.path.join(src_root, "bldfm", "solver.py")
    tree = ast.parse(open(path).read())
    _check_imports(tree)
    fns = [n for n in tree.body if isinstance(n, ast.FunctionDef) and n.name == SST]
    if len(fns) != 1:
        raise TranslateError("plumbing: %s not found exactly once" % SST)
    fn = fns[0]
    out = {}
    for fp, rc in ((True, False), (False, True), (False, False)):
        st = Walker(fn, fp, rc).run()
        if st.result is None:
            _err(fn, "no return value reached")
        r = st.result
        if not (r[0] == "tuple" and len(r[1]) == 3 and r[1][1][0] == "squeeze" and r[1][2][0] == "squeeze"):
            _err(fn, "the result is not (grid, np.squeeze(conc), np.squeeze(flx))")
        conc, flx = r[1][1][1], r[1][2][1]
        if conc[0] != "chain" or conc[1] != "tfftp":
            _err(fn, "the returned concentration is not derived from tfftp by plumbing statements the model has")
        if flx[0] != "chain" or flx[1] != "tfftq":
            _err(fn, "the returned flux is not derived from tfftq by plumbing statements the model has")
        tq0 = st.env.get(SOURCE_SPECTRUM, OPAQUE)
        if fp:
            if tq0[0] != "ones":
                _err(fn, "footprint mode: tfftq0 is not np.ones(...) / ... ")
        elif not (tq0[0] == "chain" and tq0[1] == "srf_flx"):
            _err(fn, "dispersion mode: tfftq0 is not derived from srf_flx by plumbing statements the model has")
        for k, want in IVAR_BINDINGS.items():
            if st.binds[k] != want:
                _err(fn, "index variable %s is bound %d times (the model has %d)" % (k, st.binds[k], want))
        if st.mesh is None:
            _err(fn, "np.meshgrid(lx, ly) not found")
        if len(st.msk_false) != 1:
            _err(fn, "exactly one boolean mask expected")
        if set(st.spec_shape) != set(SPECTRA) or st.spec_shape["tfftp"] != st.spec_shape["tfftq"]:
            _err(fn, "tfftp / tfftq are not both created as (nlvls, rows, cols) zeros of the same shape")
        msk_name = next(iter(st.msk_false))
        out[(fp, rc)] = dict(conc=conc[2], flx=flx[2], tq0=tq0, mesh=st.mesh, msk_shape=st.env[msk_name][1] if st.env.get(msk_name, OPAQUE)[0] == "mask" else None,
                             msk_false=tuple(st.msk_false[msk_name]), spec_shape=st.spec_shape["tfftp"])
    a, b, c = out[(True, False)], out[(False, True)], out[(False, False)]
    for k in ("mesh", "msk_shape", "msk_false", "spec_shape"):
        if not (a[k] == b[k] == c[k]) or a[k] is None:
            raise TranslateError("plumbing: %s differs between the branches" % k)
    if b["tq0"] != c["tq0"]:
        raise TranslateError("plumbing: the forward path depends on the re-centring guard")
    return out


def translate(src_root):
    out = analyse(src_root)
    a, b, c = out[(True, False)], out[(False, True)], out[(False, False)]
    L = ["(* generated by harness/py2coq_plumbing.py from bldfm/solver.py -- do not edit *)",
         "From Coq Require Import ZArith List Bool.",
         "From BL Require Import Model.SolverArray.",
         "Import ListNotations.",
         "Open Scope Z_scope.",
         "",
         "Definition gen_fwd : list plumb_op :=\n  %s." % _coq_list(b["tq0"][2]),
         "Definition gen_ones_shape : zexp * zexp := (%s, %s)." % a["tq0"][1],
         "Definition gen_ones_divs : list zexp := %s." % _coq_list(a["tq0"][2]),
         "Definition gen_conc (fp recentre : bool) : list plumb_op :=\n  if fp then %s\n  else if recentre then %s\n  else %s."
         % (_coq_list(a["conc"]), _coq_list(b["conc"]), _coq_list(c["conc"])),
         "Definition gen_flx (fp recentre : bool) : list plumb_op :=\n  if fp then %s\n  else if recentre then %s\n  else %s."
         % (_coq_list(a["flx"]), _coq_list(b["flx"]), _coq_list(c["flx"])),
         "Definition gen_spec_shape : zexp * zexp := (%s, %s)." % a["spec_shape"],
         "Definition gen_mesh : zexp * zexp := (%s, %s)." % a["mesh"],
         "Definition gen_msk_shape : zexp * zexp := (%s, %s)." % a["msk_shape"],
         "Definition gen_msk_false : list (Z * Z) := %s." % _coq_list(["(%d, %d)" % p for p in a["msk_false"]]),
         ""]
    return "\n".join(L)


N_TERMS = 9


def run(ctx):
    """translate the current source, compile GenPlumbing.v, re-prove coq/Bridge/PlumbingBridge.v against it (one
    obligation per lemma) and check that every bridge lemma is closed under the global context"""
    import re

    import core

    try:
        text = translate(core.SRC)
    except TranslateError as e:
        ctx.obligation("gen:GenPlumbing.v", False, "plumbing translator failed closed: %s" % e)
        return False
    except Exception as e:  # fail closed on anything unforeseen
        ctx.obligation("gen:GenPlumbing.v", False, "plumbing translator failed closed: %s: %s" % (type(e).__name__, e))
        return False
    ctx.cov["plumbing_terms_translated"] = N_TERMS
    if not core.run_bridge(ctx, {"GenPlumbing.v": text}, ["PlumbingBridge.v"]):
        return False
    src = core.strip_coq_comments(open(os.path.join(core.COQ, "Bridge", "PlumbingBridge.v")).read())
    names = re.findall(r"^\s*(?:Lemma|Theorem)\s+([\w']+)", src, re.M)
    ax = "From Gen Require Import PlumbingBridge.\n" + "".join(
        'Goal True. idtac "THEOREM %s". Abort. Print Assumptions %s.\n' % (n, n) for n in names)
    rc, o, e, dt = ctx.coqc(ctx.write("PlumbingBridgeAx.v", ax))
    got = core.parse_assumptions(o + "\n" + e)
    bad = ["%s: %s" % (n, sorted(got[n]) if isinstance(got.get(n), set) else got.get(n, "missing"))
           for n in names if got.get(n) != set()]
    ctx.obligation("closed:PlumbingBridge", rc == 0 and not bad,
                   "" if rc == 0 and not bad else "bridge lemmas not closed under the global context: %s %s" % (
                       "; ".join(bad), (o + e)[-600:] if rc else ""))
    return rc == 0 and not bad


if __name__ == "__main__":
    import sys

    print(translate(sys.argv[1] if len(sys.argv) > 1 else "/repo/src"))
