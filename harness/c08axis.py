"""C08, centroid clause on cardinal winds — the observable of Properties/C08Axis.v on the real code.

Theorems (C08_axis_symmetric_footprint*, C08_centroid_on_wind_axis*_partial): for a wind along a grid axis the
footprint is mirror-symmetric about the grid line through the tower — rows j, j' with (j + j') = m (mod nye),
m = 2*ym/dy — and its first moment across the wind about the tower over a centred window is zero.  Exact for the
returned array when the retained count along the mirrored axis is odd or equals the padded size (and the tower is
on a grid line); otherwise exact after removing the unpaired retained frequency.

Here the same is measured on bldfm through the public API: compute_wind_fields (cardinal direction) ->
vertical_profiles (any closure) -> steady_state_transport_solver(footprint=True), on small grids chosen from the
case splits of the proofs (halo none / default / px != py; odd or even padded size; full or truncated spectrum;
tower on a grid line or half way between two; anisotropic cells; both storage precisions).
Tolerances: 1e-9 (double) and 1e-4 (single storage) of the maximum / of sum |F| — measured on the unchanged tree:
<= 2e-11 over 2400 generated cases (bounded-growth regime, GROWTH_BOUND)."""
import os
import sys

import numpy as np

import core

TOL = {"double": 1e-9, "single": 1e-4}


def impl():
    if core.SRC not in sys.path:
        sys.path.insert(0, core.SRC)
    os.environ.setdefault("NUMBA_CACHE_DIR", os.path.join(core.VERIF, "build", "numba_cache"))
    import logging

    logging.disable(logging.CRITICAL)
    import bldfm.pbl_model as pbl
    import bldfm.solver as S
    import bldfm.utils as ut

    return ut, pbl, S


def gen(ctx):
    rng = ctx.rng
    n = 40 if ctx.thorough else 16
    cases = []
    for k in range(n):
        wd = [90.0, 0.0, 270.0, 180.0][k % 4]
        nx, ny = rng.choice([6, 8, 9, 12]), rng.choice([6, 7, 8, 10])
        dx, dy = rng.choice([2.0, 3.0, 4.0]), rng.choice([2.0, 2.5, 5.0])
        hk = ["none", "unequal-pads", "default"][(k // 4) % 3]
        if hk == "default" and max(nx * dx, ny * dy) / min(dx, dy) > 24:
            hk = "unequal-pads"  # keep the padded grid small
        halo = {"none": 0.0, "unequal-pads": 2.2 * max(dx, dy) if dx != dy else 1.3 * dx, "default": None}[hk]
        spectrum = "truncated" if (hk == "none" and k % 3 == 0) else "full"
        n_axis = ny if wd in (90.0, 270.0) else nx
        line = rng.randrange(1, n_axis - 1)
        half = spectrum == "truncated" and k % 2 == 1  # tower half way between two grid lines: without the unpaired row only
        other = rng.randrange(0, (nx if wd in (90.0, 270.0) else ny))
        cases.append({
            "wd": wd, "U": rng.choice([1.5, 4.0, 7.25]), "nx": nx, "ny": ny, "dx": dx, "dy": dy, "halo": halo, "halo_kind": hk,
            "spectrum": spectrum, "twice_line": 2 * line + (1 if half else 0), "other": other,
            "closure": rng.choice(["MOST", "MOSTM", "CONSTANT", "OAAHOC"]), "mol": rng.choice([1e9, -60.0, 120.0]),
            "zm": rng.choice([1.5, 2.0]), "nz": rng.choice([4, 6]), "ustar": rng.choice([0.25, 0.4]),
            "precision": "single" if k % 5 == 4 else "double", "nlevels": rng.choice([1, 2]),
        })
    return cases


def geometry(c):
    """padded sizes and retained counts as the solver derives them"""
    nx, ny, dx, dy = c["nx"], c["ny"], c["dx"], c["dy"]
    xmax, ymax = nx * dx, ny * dy
    halo = max(xmax, ymax) if c["halo"] is None else c["halo"]
    px, py = int(halo / (xmax / nx)), int(halo / (ymax / ny))
    nxe, nye = nx + 2 * px, ny + 2 * py
    if c["spectrum"] == "full":
        modes = (512, 512)
    else:
        modes = (max(2, (nxe - 1) // 2 * 2 - 2), max(2, (nye - 1) // 2 * 2 - 2))
    nlx, nly = modes
    if nxe < nlx or nye < nly:
        nlx, nly = nxe, nye
    return dict(xmax=xmax, ymax=ymax, px=px, py=py, nxe=nxe, nye=nye, modes=modes, nlx=nlx, nly=nly)


GROWTH_BOUND = 2.5


def growth(z, prof, dx, dy):
    """shooting growth exponent of the highest retained mode: sum_i Re sqrt(-T_i/Kz_i) dz_i (as solvercorr.growth).
    With a cross-wind component of 1e-16*U (cos(pi/2) in binary64 is 6e-17, not 0) the two mirror modes are no longer
    computed by identical operations, and the shooting method amplifies that difference by exp(2*growth): the
    observable is meaningful to 1e-9 only in the bounded-growth regime that the float correspondence of the solver
    family uses as well."""
    u, v, Kx, Ky, Kz = (np.asarray(p, float) for p in prof)
    dz = np.diff(np.asarray(z, float))
    g = 0.0
    for lx in (np.pi / dx, 0.0):
        for ly in (np.pi / dy, 0.0):
            T = -(Kx * lx**2 + Ky * ly**2) - 1j * u * lx - 1j * v * ly
            lam = np.sqrt(-T / Kz)
            g = max(g, float(np.sum(lam.real[:-1] * dz)))
    return g


def resolved(api, c):
    """the request with its cells enlarged (same aspect ratio, same pads) until the growth exponent is <= GROWTH_BOUND"""
    ut, pbl, S = api
    u, v = ut.compute_wind_fields(c["U"], c["wd"])
    kw = dict(n=c["nz"], meas_height=c["zm"], wind=(u, v), ustar=c["ustar"], mol=c["mol"], closure=c["closure"])
    z, prof = pbl.vertical_profiles(**kw)
    c = dict(c)
    for _ in range(6):
        g = growth(z, prof, c["dx"], c["dy"])
        if g <= GROWTH_BOUND:
            break
        f = float(np.ceil(g / GROWTH_BOUND * 1.05 * 4) / 4)
        c["dx"], c["dy"] = c["dx"] * f, c["dy"] * f
        if c["halo"] is not None:
            c["halo"] = c["halo"] * f
    c["growth"] = growth(z, prof, c["dx"], c["dy"])
    return c, z, prof


def run(api, c):
    """the footprint (flux) of the request, as (nlevels, ny, nx) float64, and what was handed to the solver"""
    ut, pbl, S = api
    c, z, prof = resolved(api, c)
    g = geometry(c)
    g["growth"], g["dx"], g["dy"] = c["growth"], c["dx"], c["dy"]
    rows = c["wd"] in (90.0, 270.0)
    along = c["twice_line"] / 2.0
    xm = c["other"] * c["dx"] if rows else along * c["dx"]
    ym = along * c["dy"] if rows else c["other"] * c["dy"]
    nz = len(z)
    levels = [nz - 1] if c["nlevels"] == 1 else [nz // 2, nz - 1]
    out = S.steady_state_transport_solver(np.ones((c["ny"], c["nx"])), z, prof, (g["xmax"], g["ymax"]), levels, modes=g["modes"],
                                          meas_pt=(xm, ym), footprint=True, halo=c["halo"], precision=c["precision"])
    F = np.asarray(out[2], dtype=float).reshape(len(levels), c["ny"], c["nx"])
    cross = np.asarray(prof[1] if rows else prof[0], float)
    return F, g, cross


def strip_unpaired(A, nl):
    """remove the Fourier components |k| = nl/2 along axis 1 of (levels, n, other): the contribution of the one
    retained frequency -nl/2 that has no partner (periodic domain only: n = padded size)"""
    n = A.shape[1]
    H = np.fft.fft(A, axis=1)
    k = np.fft.fftfreq(n, 1.0 / n)
    H[:, np.abs(k) == nl // 2, :] = 0
    return np.fft.ifft(H, axis=1).real


def measure(c, F, g):
    """returns dict(form, asym, moment, pairs, window) — asym relative to max |F|, moment relative to r * sum |F| over the window"""
    rows = c["wd"] in (90.0, 270.0)
    A = F if rows else np.transpose(F, (0, 2, 1))  # mirror axis = axis 1
    n = A.shape[1]
    n_e = g["nye"] if rows else g["nxe"]
    nl = g["nly"] if rows else g["nlx"]
    m = c["twice_line"]
    if nl % 2 == 1 or (nl == n_e and m % 2 == 0):
        form = "returned-array:" + ("odd-count" if nl % 2 == 1 else "full-spectrum")
    elif n == n_e:
        form = "without-unpaired-frequency"
        A = strip_unpaired(A, nl)
    else:
        return None  # even truncated count on a cropped domain: only the defect identity applies
    pairs = [(j, (m - j) % n_e) for j in range(n) if (m - j) % n_e < n]
    scale = float(np.abs(A).max())
    asym = max(float(np.abs(A[:, j] - A[:, jp]).max()) for j, jp in pairs) / scale
    res = {"form": form, "asym": asym, "pairs": len(pairs), "moment": None, "window": 0}
    # window of whole rows centred on the tower (C08_centroid_on_wind_axis_any_tower_partial): lo-r .. hi+r, lo + hi = m
    lo = m // 2
    hi = m - lo
    if lo % n_e < n and hi % n_e < n:
        r = 0
        while (hi - lo) + 2 * (r + 1) + 1 <= n_e and (hi + r + 1) % n_e < n and (lo - r - 1) % n_e < n:
            r += 1
        jj = np.arange(lo - r, hi + r + 1)
        if len(jj) >= 2:
            w = (2 * jj - m) / 2.0  # signed distance from the tower in cells
            W = A[:, jj % n_e, :]
            mom = np.abs((w[None, :, None] * W).sum(axis=(1, 2)))
            norm = np.abs(w).max() * np.abs(W).sum(axis=(1, 2))
            res["moment"] = float((mom / norm).max())
            res["window"] = len(jj)
    return res


def verdict(c, res, cross):
    """list of (signature, text)"""
    out = []
    tol = TOL[c["precision"]]
    axis = "rows" if c["wd"] in (90.0, 270.0) else "columns"
    if float(np.abs(cross).max()) > 1e-12 * c["U"]:
        out.append(("axis:cardinal-wind-has-cross-component",
                    "the %s-profile handed to the solver for wind_dir %g is not zero: max |.| = %.3g (speed %g, closure %s)"
                    % ("v" if axis == "rows" else "u", c["wd"], float(np.abs(cross).max()), c["U"], c["closure"])))
    if res is None:
        return out
    if not res["asym"] <= tol:
        out.append(("axis:footprint-not-symmetric-about-tower-%s" % axis,
                    "footprint for wind_dir %g (%s): mirror images about the tower's grid line differ by %.3g of the maximum (tolerance %g, %s, %d pairs)"
                    % (c["wd"], c["closure"], res["asym"], tol, res["form"], res["pairs"])))
    if res["moment"] is not None and not res["moment"] <= tol:
        out.append(("axis:centroid-off-the-wind-axis",
                    "footprint for wind_dir %g (%s): first moment across the wind about the tower over the centred window of %d %s is %.3g of r*sum|F| (tolerance %g, %s)"
                    % (c["wd"], c["closure"], res["window"], axis, res["moment"], tol, res["form"])))
    return out


def probe(api, c):
    F, g, cross = run(api, c)
    res = measure(c, F, g)
    return verdict(c, res, cross), res, g


def observe(ctx, api=None):
    """runs the generated cases; registers ctx.fail for every violation; returns coverage numbers"""
    api = api or impl()
    cases = gen(ctx)
    hist, worst, n_eval, n_bad = {}, {"double": 0.0, "single": 0.0}, 0, 0
    for i, c in enumerate(cases):
        try:
            bad, res, g = probe(api, c)
        except Exception as e:
            ctx.fail("correspondence", "C08:axis-raised-%d" % i, "the axis observable raised %r on %r" % (e, c), hint={"axis": c})
            n_bad += 1
            continue
        n_eval += 1
        key = "axis:" + (res["form"] if res else "defect-only") + ":" + c["halo_kind"] + (":half-cell" if c["twice_line"] % 2 else "")
        hist[key] = hist.get(key, 0) + 1
        if res:
            worst[c["precision"]] = max(worst[c["precision"]], res["asym"], res["moment"] or 0.0)
        if bad:
            n_bad += 1
            ctx.fail("correspondence", "C08:axis-%d-wd%g" % (i, c["wd"]), "; ".join(t for _, t in bad), hint={"axis": c})
    return {"cases": len(cases), "evaluated": n_eval, "violations": n_bad, "histogram": hist, "worst": worst, "sample": cases[0]}
