"""Validation of the whole-function translator of the kernel (harness/py2coq_kernel.py) by differential execution:
the functions of GenKernel.v - translated from the CURRENT solver.py for ONE horizontal mode - are run on IEEE doubles
(FloatOps, vm_compute) and compared with what the implementation computes

  * `ivp_solver` called directly (the numba kernel), mode by mode: final state and both recorded arrays, on level lists
    with repeats, unsorted, with entries beyond the top node (slots that must stay 0), columns of 1..5 nodes;
  * the mean-mode block through the public solver: with halo=0 the horizontal mean of the concentration at slot k is the
    mean-mode column entry tfftp[k, 0, 0].

This exercises what the bridge lemmas TRUST: the reading of the arrays (elementwise over modes, slots, nth-indexed profiles).
Obligation-like failures are reported as correspondence failures `kernel:<case>`."""
import random

import numpy as np

import core
import solvercorr as sc

HEADER = (
    "From Coq Require Import ZArith PrimFloat List Bool.\n"
    "From BL Require Import Base.Ops Base.FloatOps Model.Solver Model.SolverExec Model.KernelPy Model.KernelExec.\n"
    "From Gen Require Import GenKernel.\n"
    "Import ListNotations.\nOpen Scope float_scope.\n"
)
TOL = 1e-11


def fc(zc):
    return "(%s, %s)" % (core.flit(zc.real), core.flit(zc.imag))


def fcl(a):
    return "[" + "; ".join(fc(complex(x)) for x in a) + "]"


def column(rng, nz):
    z = np.cumsum([rng.uniform(0.5, 2.0)] + [rng.uniform(0.2, 1.2) for _ in range(nz - 1)])
    u = np.array([rng.uniform(-3, 3) for _ in range(nz)])
    v = np.array([rng.uniform(-3, 3) for _ in range(nz)])
    Kx = np.array([rng.uniform(0.5, 3) for _ in range(nz)])
    Ky = np.array([rng.uniform(0.5, 3) for _ in range(nz)])
    Kz = np.array([rng.uniform(0.5, 3) for _ in range(nz)])
    return z, (u, v, Kx, Ky, Kz)


def level_lists(rng, nz, n):
    out = [[nz, 0, nz + 1, nz - 1], [nz - 1, 0, nz - 1], list(range(nz))[::-1], list(range(nz))]
    while len(out) < n:
        out.append([rng.randrange(0, nz + 2) for _ in range(rng.randint(1, 5))])
    return out[:n]


def prof_term(prof):
    return "(" + ", ".join("R1 %s" % sc.l1(p) for p in prof) + ")"


def ivp_cases(ctx, rng):
    S = sc.impl()
    terms, info = [], {}
    n = 24 if ctx.thorough else 8
    k = 0
    for nz in ([1, 2, 3, 4, 5] if ctx.thorough else [1, 3, 5]):
        for lv in level_lists(rng, nz, max(3, n // 3)):
            nxy = rng.choice([1, 2, 3])
            z, prof = column(rng, nz)
            Lx = np.array([rng.uniform(-1.5, 1.5) for _ in range(nxy)])
            Ly = np.array([rng.uniform(-1.5, 1.5) for _ in range(nxy)])
            p0 = np.array([complex(rng.uniform(-1, 1), rng.uniform(-1, 1)) for _ in range(nxy)])
            q0 = np.array([complex(rng.uniform(-1, 1), rng.uniform(-1, 1)) for _ in range(nxy)])
            levels = np.array(lv, dtype=np.int64)
            pf, qf, rp, rq = S.ivp_solver((p0.copy(), q0.copy()), tuple(a.copy() for a in prof), z.copy(), levels.copy(), Lx.copy(), Ly.copy())
            rp = np.asarray(rp).reshape(len(lv), nxy)
            rq = np.asarray(rq).reshape(len(lv), nxy)
            for m in range(nxy):
                cid = "ivp%d" % k
                k += 1
                t = ("ivp_compare (gen_ivp_solver FloatOps (%s, %s) %s (R1 %s) %s (fr %s) (fr %s)) %s %s %s %s" % (
                    fc(complex(p0[m])), fc(complex(q0[m])), prof_term(prof), sc.l1(z), sc.nat_list(lv), core.flit(Lx[m]), core.flit(Ly[m]),
                    fc(complex(pf[m])), fc(complex(qf[m])), fcl(rp[:, m]), fcl(rq[:, m])))
                terms.append((cid, t))
                info[cid] = dict(kind="ivp_solver", nz=nz, levels=lv, mode=m, nxy=nxy,
                                 beyond_top=any(l >= nz for l in lv), repeats=len(set(lv)) < len(lv), unsorted=lv != sorted(lv))
    return terms, info


def mean_cases(ctx, rng):
    S = sc.impl()
    terms, info = [], {}
    n = 10 if ctx.thorough else 4
    for k in range(n):
        nz = rng.choice([2, 3, 4, 5])
        z, prof = column(rng, nz)
        lv = [rng.randrange(0, nz) for _ in range(rng.randint(1, 4))] if k else [nz - 1, 0, nz - 1]
        ny, nx = rng.choice([2, 3, 4]), rng.choice([2, 4])
        q0 = np.array([[rng.randint(-8, 8) / 4.0 for _ in range(nx)] for _ in range(ny)])
        bg = rng.randint(-4, 4) / 2.0
        _, conc, _ = S.steady_state_transport_solver(q0.copy(), z.copy(), tuple(a.copy() for a in prof), (float(nx), float(ny)),
                                                     np.array(lv), modes=(2, 2), srf_bg_conc=bg, halo=0.0, precision="double")
        conc = np.asarray(conc, float).reshape(len(lv), ny, nx)
        means = [float(np.mean(conc[s])) for s in range(len(lv))]
        q00 = float(np.sum(q0)) / (nx * ny)   # exact: quarter-integers
        col = [bg] + [0.0] * (len(lv) - 1)    # tfftp[0, 0, 0] = p000, zeros elsewhere
        cid = "mean%d" % k
        t = "mean_compare (gen_mean_mode FloatOps (fr %s) (fr %s) %s (R1 %s) %s (R1 %s)) %s" % (
            core.flit(bg), core.flit(q00), prof_term(prof), sc.l1(z), sc.nat_list(lv), sc.l1(col), sc.l1(means))
        terms.append((cid, t))
        info[cid] = dict(kind="mean-mode", nz=nz, levels=lv, repeats=len(set(lv)) < len(lv), unsorted=lv != sorted(lv))
    return terms, info


def run(ctx):
    """needs GenKernel.vo in ctx.build (solverslices.run_kernel)"""
    rng = random.Random(ctx.seed * 7919 + 4242)  # own stream: the cases of the solver correspondence stay what they were
    try:
        t1, i1 = ivp_cases(ctx, rng)
        t2, i2 = mean_cases(ctx, rng)
    except Exception as e:
        import traceback
        ctx.fail("correspondence", "kernel:implementation-raised", traceback.format_exc())
        return
    terms, info = t1 + t2, dict(i1, **i2)
    res = core.coq_eval_sharded(ctx, "kern", HEADER, terms, shard=30)
    if "__error__" in res:
        ctx.fail("correspondence", "kernel:coq-evaluation", res["__error__"])
    bad = 0
    worst = 0.0
    for cid, _ in terms:
        txt = res.get(cid)
        if txt is None:
            ctx.fail("correspondence", "kernel:%s" % cid, "no result from Coq for %r" % (info[cid],))
            bad += 1
            continue
        parts = [p.strip() for p in txt.strip().strip("()").split(",")]
        d, s, ok = sc.parse_float(parts[0]), sc.parse_float(parts[1]), parts[2] == "true"
        rel = d / max(s, 1e-300) if s > 0 else d
        if not (ok and (rel <= TOL or d <= 1e-300)):
            bad += 1
            ctx.fail("correspondence", "kernel:%s" % cid,
                     "translated kernel (GenKernel.v, FloatOps) and implementation differ: deviation %.3g of scale %.3g, same shape %s; %r" % (d, s, ok, info[cid]))
        else:
            worst = max(worst, rel)
    kc = ctx.cov.setdefault("kernel_translator_validation", {})
    kc.update({
        "evaluations": len(terms), "disagreements": bad, "worst_relative_deviation": worst, "tolerance": TOL,
        "rule": "gen_ivp_solver (FloatOps) vs bldfm.solver.ivp_solver called directly, per mode; gen_mean_mode vs horizontal means of the concentration (halo 0); level lists with repeats / unsorted / beyond the top node",
        "histogram": {
            "ivp_modes": sum(1 for v in info.values() if v["kind"] == "ivp_solver"),
            "mean_mode": sum(1 for v in info.values() if v["kind"] == "mean-mode"),
            "beyond_top": sum(1 for v in info.values() if v.get("beyond_top")),
            "repeats": sum(1 for v in info.values() if v.get("repeats")),
            "unsorted": sum(1 for v in info.values() if v.get("unsorted")),
            "single_node_column": sum(1 for v in info.values() if v.get("nz") == 1),
        },
    })
