"""C13, second part — utils.ideal_source against Model/IdealSource.v (tie A) and its own observable statement (oracle).

Correspondence (check):
  * indicator shapes ("diamond", "circle"), unknown shape strings and the default shape: the implementation's array must be
    float64 of shape (ny, nx) with entries exactly 0.0 / 1.0; its 0/1 pattern is compared INSIDE Coq with the rational twin
    q_source (Model/IdealSourceExec.v; `C13i_exec_sound` proves that twin equal to the real model for all arguments) through
    `ideal_disagreements ... = []`.  A comparison `R < R0` in IEEE doubles need not agree with the exact one when R and R0 are
    within rounding distance; a cell is therefore compared iff
        (a) the implementation's float evaluation of that cell is EXACT (every intermediate is representable: dyadic inputs,
            power-of-two node counts, Pythagorean offsets - this is where the boundary R = R0 is tested), or
        (b) the exact margin |R - R0| exceeds a rigorous bound on the accumulated rounding error (2^-50 * (|xmx|+|ymx|+|xs|+|ys|)
            for the diamond, 2^-46 * that squared for the squared circle comparison);
    other cells ("rounding toss-ups") are handed over as `2` = not compared, and counted in the evidence.
  * "point": every cell as an interval-certified goal  |ideal_source_cell "point" ... - y| <= 1e-12 * y  on the real model
    (inputs and y the exact rational values of the doubles), as in harness/rcorr.py.
  * array shape = ideal_shape, ZeroDivisionError <-> ideal_raises (nx = 0 or ny = 0), default arguments, positional /
    keyword / list / integer presentations, nx = 1 / ny = 1, nx != ny, negative and zero extents, repeated calls and
    argument immutability.
Oracle: the documented field recomputed with exact rationals (indicator shapes, same comparability rule) and with math.exp
(Gaussian, 1e-9 relative) straight from the definition - independent of the Coq model; signatures ideal_source:<what>."""
import json
import math
import os
import sys
from fractions import Fraction

import core

SHAPES_IND = ["diamond", "circle"]
UNKNOWN = ["square", "Diamond", "", "diamond ", "points"]

HEADER = ("From Coq Require Import QArith List ZArith String Bool.\nFrom BL Require Import Model.IdealSource Model.IdealSourceExec.\n"
          "Import ListNotations.\nOpen Scope Z_scope.\n")
IHEADER = ("From Coq Require Import Reals String List Arith.\nFrom Interval Require Import Tactic.\n"
           "From BL Require Import Model.IdealSource Proofs.IdealSourceProofs.\nOpen Scope R_scope.\n")
IUNFOLD = ("unfold ideal_source_cell, ideal_cell; rewrite value_point; unfold ideal_point, ideal_rsq, ideal_sigma, ideal_x, "
           "ideal_y, ideal_loc, np_linspace; cbn [fst snd]; simpl INR;")


# --------------------------------------------------------------------------------------------------
# exact reference (Fractions) and comparability of a cell

def fr(x):
    return Fraction(x)


def nodes_exact(mx, n):
    mx = fr(mx)
    if n <= 1:
        return [Fraction(0)] * n
    return [mx * i / (n - 1) for i in range(n)]


def nodes_float(mx, n):
    """the doubles numpy.linspace(0.0, mx, n) holds (same IEEE operations), without numpy"""
    mx = float(mx)
    if n <= 1:
        return [0.0] * n
    step = mx / (n - 1)
    if step == 0:
        out = [(i / (n - 1)) * mx + 0.0 for i in range(n)]
    else:
        out = [i * step + 0.0 for i in range(n)]
    out[-1] = mx
    return out


def loc_of(case):
    if case["loc"] is None:
        return fr(case["xmx"]) / 2, fr(case["ymx"]) / 2
    return fr(case["loc"][0]), fr(case["loc"][1])


def loc_float(case):
    if case["loc"] is None:
        return float(case["xmx"]) / 2, float(case["ymx"]) / 2
    return float(case["loc"][0]), float(case["loc"][1])


def exact(f, q):
    return math.isfinite(f) and Fraction(f) == q


def reference_pattern(case):
    """-> rows of (decision 0/1 from exact rational arithmetic, comparable?) for an indicator shape / unknown shape"""
    shape = case["shape"] if case["shape"] is not None else "diamond"
    nx, ny = case["nx"], case["ny"]
    xmx, ymx = fr(case["xmx"]), fr(case["ymx"])
    xs, ys = loc_of(case)
    X, Y = nodes_exact(xmx, nx), nodes_exact(ymx, ny)
    Xf, Yf = nodes_float(case["xmx"], nx), nodes_float(case["ymx"], ny)
    xsf, ysf = loc_float(case)
    loc_exact = exact(xsf, xs) and exact(ysf, ys)
    R0 = xmx / 12
    R0f = float(case["xmx"]) / 12
    M = abs(xmx) + abs(ymx) + abs(xs) + abs(ys)
    rows = []
    for j in range(ny):
        row = []
        for i in range(nx):
            if shape not in SHAPES_IND:
                row.append((0, True))
                continue
            a, b = X[i] - xs, Y[j] - ys
            af, bf = Xf[i] - xsf, Yf[j] - ysf
            ok = loc_exact and exact(Xf[i], X[i]) and exact(Yf[j], Y[j]) and exact(af, a) and exact(bf, b) and exact(R0f, R0)
            if shape == "diamond":
                L = abs(a) + abs(b)
                ok = ok and exact(abs(af) + abs(bf), L)
                dec = 1 if L < R0 else 0
                comparable = ok or abs(L - R0) > M / 2 ** 50
            else:
                s = a * a + b * b
                sf = af * af + bf * bf
                ok = ok and exact(af * af, a * a) and exact(bf * bf, b * b) and exact(sf, s)
                if ok:
                    rt = math.sqrt(sf)
                    ok = Fraction(rt) * Fraction(rt) == s
                dec = 1 if (R0 > 0 and s < R0 * R0) else 0
                comparable = ok or abs(s - R0 * R0) > M * M / 2 ** 46
            row.append((dec, bool(comparable)))
        rows.append(row)
    return rows


def reference_point(case, j, i):
    nx, ny = case["nx"], case["ny"]
    xmx, ymx = float(case["xmx"]), float(case["ymx"])
    xs, ys = (xmx / 2, ymx / 2) if case["loc"] is None else (float(case["loc"][0]), float(case["loc"][1]))
    X = 0.0 if nx <= 1 else xmx * i / (nx - 1)
    Y = 0.0 if ny <= 1 else ymx * j / (ny - 1)
    sig = 4.0 * xmx / nx
    return math.exp(-((X - xs) ** 2 + (Y - ys) ** 2) / (2.0 * sig * sig)) / (sig * math.sqrt(2.0 * math.pi))


# --------------------------------------------------------------------------------------------------
# cases

def dy8(rng, lo, hi):
    return rng.randrange(int(lo * 8), int(hi * 8)) / 8.0


def gen_cases(rng, thorough):
    cases = []

    def add(label, shape, nx, ny, xmx, ymx, loc, call="kw"):
        cases.append({"label": label, "shape": shape, "nx": nx, "ny": ny, "xmx": xmx, "ymx": ymx, "loc": loc, "call": call})

    calls = ["kw", "pos", "list"]
    # A. exact boundary families: every float operation of the implementation is exact, nodes at distance exactly R0
    for rep in range(6 if thorough else 3):
        k = rng.choice([-2, -1, 0, 1, 2, 3])
        u = 2.0 ** k
        xmx = 96 * u                                   # R0 = 8u
        nx = 1 + rng.choice([2, 3, 4, 6, 8, 12, 16])
        ymx = rng.choice([48, 96, 24, 72]) * u
        ny = 1 + rng.choice([2, 3, 4, 6, 8])
        a, b = rng.randrange(nx), rng.randrange(ny)
        Xa, Yb = xmx * a / (nx - 1), ymx * b / (ny - 1)
        sgn = rng.choice([-1, 1])
        add("diamond-boundary-x", "diamond", nx, ny, xmx, ymx, [Xa + sgn * 8 * u, Yb], rng.choice(calls))
        add("diamond-boundary-split", "diamond", nx, ny, xmx, ymx, [Xa + sgn * 3 * u, Yb - sgn * 5 * u], rng.choice(calls))
        add("circle-boundary-axis", "circle", nx, ny, xmx, ymx, [Xa, Yb + sgn * 8 * u], rng.choice(calls))
        add("default-loc-dyadic", rng.choice(SHAPES_IND), nx, ny, xmx, ymx, None, rng.choice(calls + ["omit-loc"]))
        # Pythagorean: xmx = 60u, R0 = 5u, location at offset (3u, 4u) from a node
        xmx2 = 60 * u
        nx2 = 1 + rng.choice([2, 3, 4, 5, 6, 10, 12, 15])
        ymx2 = rng.choice([60, 30, 120]) * u
        ny2 = 1 + rng.choice([2, 3, 4, 5, 6])
        while not (exact(xmx2 / (nx2 - 1), Fraction(xmx2) / (nx2 - 1)) and exact(ymx2 / (ny2 - 1), Fraction(ymx2) / (ny2 - 1))):
            nx2 = 1 + rng.choice([2, 3, 4, 5, 6, 10, 12, 15])
            ny2 = 1 + rng.choice([2, 3, 4, 5, 6])
        a, b = rng.randrange(nx2), rng.randrange(ny2)
        Xa, Yb = xmx2 * a / (nx2 - 1), ymx2 * b / (ny2 - 1)
        add("circle-boundary-345", "circle", nx2, ny2, xmx2, ymx2, [Xa - sgn * 3 * u, Yb + 4 * u], rng.choice(calls))
        add("diamond-inside-circle-345", "diamond", nx2, ny2, xmx2, ymx2, [Xa - sgn * 3 * u, Yb + 4 * u], rng.choice(calls))
    # B. dyadic random, C. decimal (non-dyadic) extents; wide sources so that the support has several cells
    for rep in range(40 if thorough else 10):
        nx, ny = rng.randrange(2, 13), rng.randrange(2, 13)
        if rep % 2:
            xmx, ymx = dy8(rng, 20, 200), dy8(rng, 20, 200)
            loc = [dy8(rng, 0, xmx), dy8(rng, 0, ymx)]
        else:
            xmx, ymx = round(rng.uniform(20, 200), 1), round(rng.uniform(20, 200), 2)
            loc = [round(rng.uniform(0, xmx), 2), round(rng.uniform(0, ymx), 1)]
        if rep % 3 == 0:
            loc = None
        add("random", SHAPES_IND[rep % 2], nx, ny, xmx, ymx, loc, rng.choice(calls if loc is not None else calls + ["omit-loc"]))
    # many nodes inside the support (fine grid against R0), location on / off nodes
    for rep in range(4 if thorough else 2):
        nx, ny = rng.randrange(25, 41), rng.randrange(18, 30)
        xmx = dy8(rng, 50, 90)
        add("fine", SHAPES_IND[rep % 2], nx, ny, xmx, dy8(rng, 20, 40), [dy8(rng, 20, 40), dy8(rng, 5, 15)] if rep < 2 else None)
    # D. special sizes / presentations
    add("nx=1", "diamond", 1, 5, 64.0, 32.0, [2.0, 16.0])
    add("ny=1", "circle", 7, 1, 64.0, 32.0, [32.0, 3.0])
    add("nx=ny=1", "diamond", 1, 1, 36.0, 36.0, [1.0, 1.0])
    add("nx=1-default", "diamond", 1, 4, 36.0, 36.0, None)
    add("integers", "diamond", 9, 5, 96, 48, [40, 24], "pos")
    add("integers-default", "circle", 9, 5, 96, 48, None, "omit-loc")
    add("negative-extent", "diamond", 5, 4, -96.0, 48.0, [-48.0, 24.0])
    add("negative-extent", "circle", 5, 4, -96.0, 48.0, None)
    add("zero-extent", "diamond", 4, 3, 0.0, 12.0, None)
    add("default-shape", None, 9, 7, 96.0, 72.0, None, "omit-shape")
    add("default-shape", None, 6, 4, 80.5, 33.25, [41.0, 17.0], "omit-shape")
    for s in UNKNOWN:
        add("unknown-shape", s, rng.randrange(2, 7), rng.randrange(2, 7), dy8(rng, 20, 90), dy8(rng, 20, 90), None)
    add("raises", "diamond", 0, 4, 50.0, 40.0, None)
    add("raises", "point", 4, 0, 50.0, 40.0, [1.0, 2.0])
    add("raises", "circle", 0, 0, 50.0, 40.0, None)
    # E. Gaussian
    for rep in range(10 if thorough else 4):
        nx, ny = rng.randrange(2, 9), rng.randrange(2, 9)
        if rep % 2:
            xmx, ymx = dy8(rng, 20, 200), dy8(rng, 20, 200)
        else:
            xmx, ymx = round(rng.uniform(20, 200), 1), round(rng.uniform(20, 200), 2)
        loc = None if rep % 3 == 0 else [round(rng.uniform(0, xmx), 2), round(rng.uniform(0, ymx), 2)]
        add("gauss", "point", nx, ny, xmx, ymx, loc, rng.choice(calls if loc is not None else calls + ["omit-loc"]))
    add("gauss-anisotropic", "point", 4, 9, 40.0, 360.0, None)          # sigma from dx only
    add("gauss-nx=1", "point", 1, 5, 64.0, 32.0, [0.0, 16.0])
    add("gauss-ny=1", "point", 6, 1, 64.5, 32.0, None)
    add("gauss-integers", "point", 6, 5, 60, 45, [20, 30], "pos")
    for j, c in enumerate(cases):
        c["id"] = j
    return cases


# --------------------------------------------------------------------------------------------------
# implementation side (sub-process)

def call_impl(ideal_source, case):
    nx, ny, xmx, ymx, loc, shape = case["nx"], case["ny"], case["xmx"], case["ymx"], case["loc"], case["shape"]
    mode = case["call"]
    nxy, dom = (nx, ny), (xmx, ymx)
    sl = None if loc is None else tuple(loc)
    if mode == "list":
        nxy, dom = [nx, ny], [xmx, ymx]
        sl = None if loc is None else list(loc)
    keep = json.dumps([nxy, dom, sl])
    if mode == "omit-shape":
        out = ideal_source(nxy, dom, sl)
    elif mode == "omit-loc":
        out = ideal_source(nxy, dom, shape=shape)
    elif mode == "pos":
        out = ideal_source(nxy, dom, sl, shape)
    else:
        out = ideal_source(nxy, dom, src_loc=sl, shape=shape)
    return out, keep == json.dumps([nxy, dom, sl])


def observe(ideal_source, case):
    import numpy as np

    try:
        a, untouched = call_impl(ideal_source, case)
    except Exception as e:
        return {"raise": type(e).__name__}
    try:
        b, _ = call_impl(ideal_source, case)
        again = isinstance(b, np.ndarray) and b.dtype == a.dtype and b.shape == a.shape and b.tobytes() == a.tobytes() and b is not a
    except Exception:
        again = False
    if not isinstance(a, np.ndarray):
        return {"type": type(a).__name__}
    return {"dtype": str(a.dtype), "shape": list(a.shape), "again": bool(again), "untouched": bool(untouched),
            "values": [[float(v).hex() for v in row] for row in a.tolist()] if a.ndim == 2 else None}


def job_main(argv):
    spec = json.load(open(argv[2]))
    sys.path.insert(0, core.SRC)
    import bldfm
    import bldfm.interface
    from bldfm.utils import ideal_source

    out = [observe(ideal_source, c) for c in spec["cases"]]
    # the function the package exports and the one the single run calls are this very function
    same = bldfm.ideal_source is ideal_source and bldfm.interface.ideal_source is ideal_source
    json.dump({"obs": out, "same_object": bool(same)}, open(argv[3], "w"))
    return 0


# --------------------------------------------------------------------------------------------------
# check

def qopt(loc):
    return "None" if loc is None else "(Some (%s, %s))" % (core.qlit(fr(loc[0])), core.qlit(fr(loc[1])))


def ropt(loc):
    import rcorr

    return "None" if loc is None else "(Some (%s, %s))" % (rcorr.rlit(loc[0]), rcorr.rlit(loc[1]))


def coq_shape(case):
    return "ideal_default_shape" if case["shape"] is None else '"%s"%%string' % case["shape"]


def hint_of(case):
    return {"ideal": {k: case[k] for k in ("label", "shape", "nx", "ny", "xmx", "ymx", "loc", "call")}}


def check(ctx):
    import rcorr

    cases = gen_cases(ctx.rng, ctx.thorough)
    d = os.path.join(ctx.build, "ideal_job")
    os.makedirs(d, exist_ok=True)
    json.dump({"cases": cases}, open(os.path.join(d, "in.json"), "w"))
    rc, out, err, dt = core.run([core.PY, os.path.abspath(__file__), "job", os.path.join(d, "in.json"), os.path.join(d, "out.json")],
                                timeout=600, cwd=d, env=core.pyenv())
    if rc != 0 or not os.path.exists(os.path.join(d, "out.json")):
        raise core.CheckFailure("ideal_source implementation job failed (rc=%s): %s" % (rc, (out + err)[-1500:]))
    res = json.load(open(os.path.join(d, "out.json")))
    obs = res["obs"]
    if not res["same_object"]:
        ctx.fail("correspondence", "C13:ideal:exported-object", "bldfm.ideal_source / bldfm.interface.ideal_source is not bldfm.utils.ideal_source")
    terms, icases, meta = [], [], {}
    n_cells = n_skipped = n_ones = n_boundary = 0
    hist = {}
    for case, o in zip(cases, obs):
        cid = "i%d" % case["id"]
        nx, ny = case["nx"], case["ny"]
        hist[case["label"]] = hist.get(case["label"], 0) + 1
        name = "C13:ideal:%s:%s" % (case["label"], cid)
        # outcome class: ZeroDivisionError <-> ideal_raises
        terms.append((cid + "r", "Bool.eqb (ideal_raises %d%%nat %d%%nat) %s" % (nx, ny, "true" if "raise" in o else "false")))
        meta[cid + "r"] = (case, "outcome %s differs from ideal_raises" % (o.get("raise") or "array"))
        if "raise" in o:
            if o["raise"] != "ZeroDivisionError":
                ctx.fail("correspondence", name, "raises %s" % o["raise"], hint=hint_of(case))
            continue
        if o.get("dtype") != "float64" or o.get("values") is None:
            ctx.fail("correspondence", name, "returned %r, expected a 2-d float64 array" % ({k: o.get(k) for k in ("type", "dtype", "shape")},),
                     hint=hint_of(case))
            continue
        if not o["again"] or not o["untouched"]:
            ctx.fail("correspondence", name, "a second identical call differs / returns the same object, or the arguments were edited (again=%s untouched=%s)"
                     % (o["again"], o["untouched"]), hint=hint_of(case))
        terms.append((cid + "s", "let s := ideal_shape %d%%nat %d%%nat in (Nat.eqb (fst s) %d && Nat.eqb (snd s) %d)%%bool"
                      % (nx, ny, o["shape"][0], o["shape"][1])))
        meta[cid + "s"] = (case, "array shape %s differs from ideal_shape" % o["shape"])
        vals = [[float.fromhex(v) for v in row] for row in o["values"]]
        if o["shape"] != [ny, nx]:
            continue  # reported through the shape term; cell comparison needs the grid
        if case["shape"] == "point":
            for j in range(ny):
                for i in range(nx):
                    y = vals[j][i]
                    if not (math.isfinite(y) and y > 0):
                        ctx.fail("correspondence", name, "cell (%d,%d) = %r, the Gaussian is positive" % (j, i, y), hint=hint_of(case))
                        continue
                    prop = 'Rabs (ideal_source_cell "point" %d %d %s %s %s %d %d - %s) <= %s / 1000000000000' % (
                        nx, ny, rcorr.rlit(case["xmx"]), rcorr.rlit(case["ymx"]), ropt(case["loc"]), j, i, rcorr.rlit(y), rcorr.rlit(y))
                    icases.append(("%s_%d_%d" % (cid, j, i), prop))
                    meta["%s_%d_%d" % (cid, j, i)] = (case, "cell (%d,%d) = %r is not within 1e-12 (relative) of the real model" % (j, i, y))
                    n_cells += 1
            continue
        ref = reference_pattern(case)
        rows = []
        bad_value = None
        for j in range(ny):
            r = []
            for i in range(nx):
                v = vals[j][i]
                if v not in (0.0, 1.0):
                    bad_value = (j, i, v)
                dec, comparable = ref[j][i]
                n_cells += 1
                if not comparable:
                    n_skipped += 1
                    r.append(2)
                else:
                    r.append(int(v) if v in (0.0, 1.0) else 3)
                    n_ones += int(v == 1.0)
            rows.append(r)
        if bad_value:
            ctx.fail("correspondence", name, "cell (%d,%d) = %r is neither 0.0 nor 1.0" % bad_value, hint=hint_of(case))
            continue
        if "boundary" in case["label"]:
            n_boundary += 1
        obs_term = "[%s]" % "; ".join("[%s]" % "; ".join(str(z) for z in r) for r in rows)
        terms.append((cid + "p", "ideal_disagreements %s %d%%nat %d%%nat %s %s %s %s" % (
            coq_shape(case), nx, ny, core.qlit(fr(case["xmx"])), core.qlit(fr(case["ymx"])), qopt(case["loc"]), obs_term)))
        meta[cid + "p"] = (case, "0/1 pattern differs from the model at (row, column)")
    res = core.coq_eval_sharded(ctx, "c13ideal", HEADER, terms, shard=40, timeout=600, jobs=8)
    if res.get("__error__"):
        ctx.fail("correspondence", "C13:ideal:coq-eval", res["__error__"])
    n_bad = 0
    for tid, _ in terms:
        r = res.get(tid)
        ok = r is not None and (r.strip() in ("true", "[]"))
        if not ok:
            n_bad += 1
            case, what = meta[tid]
            if n_bad <= 12:
                ctx.fail("correspondence", "C13:ideal:%s:%s" % (case["label"], tid), "%s: %s (case %s)" % (what, r, {k: case[k] for k in ("shape", "nx", "ny", "xmx", "ymx", "loc", "call")}),
                         hint=hint_of(case))
    failing, ierr = rcorr.certify(ctx, "c13idealpt", IHEADER, IUNFOLD, icases, shard=40, jobs=10, timeout=600)
    if ierr:
        ctx.fail("correspondence", "C13:ideal:interval", ierr)
    seen = set()
    for cid in sorted(failing):
        case, what = meta[cid]
        if case["id"] in seen:
            continue
        seen.add(case["id"])
        ctx.fail("correspondence", "C13:ideal:%s:%s" % (case["label"], cid), "%s (case %s)" % (what, {k: case[k] for k in ("shape", "nx", "ny", "xmx", "ymx", "loc", "call")}),
                 hint=hint_of(case))
    ctx.cov["evaluations"] = ctx.cov.get("evaluations", 0) + len(terms) + len(icases)
    ctx.cov["ideal_source"] = {
        "cases": len(cases), "in_coq_comparisons": len(terms), "interval_certified_cells": len(icases),
        "cells": n_cells, "cells_one": n_ones, "rounding_toss_ups_not_compared": n_skipped,
        "exact_boundary_cases": n_boundary, "mismatching_terms": n_bad, "failing_interval_cells": len(failing),
        "histogram": hist,
        "rule": "exact families (all float operations exact; nodes at taxicab / Euclidean distance exactly R0, 3-4-5 offsets), "
                "dyadic and decimal random extents and locations, fine grids, nx = 1 / ny = 1, integers, negative / zero extent, "
                "default shape and location, positional / keyword / list presentations, unknown shape strings, nx = 0 / ny = 0; "
                "a cell of an indicator shape is compared iff its float evaluation is exact or the exact margin exceeds the "
                "rounding bound; Gaussian cells: |model - y| <= 1e-12 y by `interval` on the real model",
        "samples": [{k: c[k] for k in ("label", "shape", "nx", "ny", "xmx", "ymx", "loc", "call")} for c in cases[::max(1, len(cases) // 5)]][:6],
    }


# --------------------------------------------------------------------------------------------------
# oracle: the documented field on the real code, independent of the Coq model

def oracle_case(ideal_source, case):
    """-> (signature, what) or None"""
    import numpy as np

    shape = case["shape"] if case["shape"] is not None else "diamond"
    tag = shape if shape in ("diamond", "circle", "point") else "unknown-shape"
    nx, ny = case["nx"], case["ny"]
    desc = "ideal_source((%r, %r), (%r, %r), src_loc=%r%s)" % (nx, ny, case["xmx"], case["ymx"], None if case["loc"] is None else tuple(case["loc"]),
                                                              "" if case["shape"] is None else ", shape=%r" % case["shape"])
    # the field is a function of the arguments of THIS call: a sibling request (same sizes, extents and shape, another
    # location) is made first and discarded, so that a memo keyed too coarsely shows up in a single replay as well
    try:
        xs0, ys0 = loc_float(case)
        call_impl(ideal_source, dict(case, loc=[xs0 + float(case["xmx"]) / 4 + 1.0, ys0 - float(case["ymx"]) / 8 - 0.5], call="kw",
                                     shape=shape))
    except Exception:
        pass
    try:
        a, untouched = call_impl(ideal_source, case)
    except ZeroDivisionError:
        if nx == 0 or ny == 0:
            return None
        return ("ideal_source:raises", "%s raises ZeroDivisionError" % desc)
    except Exception as e:
        return ("ideal_source:raises", "%s raises %s" % (desc, type(e).__name__))
    if nx == 0 or ny == 0:
        return ("ideal_source:empty-grid-accepted", "%s returns an array of shape %s instead of raising" % (desc, getattr(a, "shape", None)))
    if not isinstance(a, np.ndarray) or a.shape != (ny, nx) or a.dtype != np.float64:
        return ("ideal_source:array-shape", "%s returns %s of shape %s dtype %s, expected float64 (ny, nx) = (%d, %d)"
                % (desc, type(a).__name__, getattr(a, "shape", None), getattr(a, "dtype", None), ny, nx))
    if not untouched:
        return ("ideal_source:arguments-edited", "%s edits the sequences it was given" % desc)
    if tag == "point":
        for j in range(ny):
            for i in range(nx):
                e = reference_point(case, j, i)
                if not (abs(a[j, i] - e) <= 1e-9 * e):
                    return ("ideal_source:point:value", "%s[%d, %d] = %r, the Gaussian exp(-r^2/(2 sig^2))/(sig sqrt(2 pi)), sig = 4 xmx/nx, on the nodes "
                            "linspace(0, xmx, nx) x linspace(0, ymx, ny) gives %r" % (desc, j, i, float(a[j, i]), e))
        return None
    ref = reference_pattern(dict(case, shape=shape))
    for j in range(ny):
        for i in range(nx):
            dec, comparable = ref[j][i]
            v = float(a[j, i])
            if v not in (0.0, 1.0):
                return ("ideal_source:%s:value" % tag, "%s[%d, %d] = %r is neither 0 nor 1" % (desc, j, i, v))
            if comparable and v != dec:
                X, Y = nodes_exact(case["xmx"], nx)[i], nodes_exact(case["ymx"], ny)[j]
                xs, ys = loc_of(case)
                if tag == "unknown-shape":
                    why = "an unknown shape gives zeros"
                elif tag == "diamond":
                    why = "|X - xs| + |Y - ys| = %s against R0 = xmx/12 = %s (strict <)" % (float(abs(X - xs) + abs(Y - ys)), float(fr(case["xmx"]) / 12))
                else:
                    why = "sqrt((X - xs)^2 + (Y - ys)^2) = %s against R0 = xmx/12 = %s (strict <)" % (
                        math.sqrt(float((X - xs) ** 2 + (Y - ys) ** 2)), float(fr(case["xmx"]) / 12))
                return ("ideal_source:%s:pattern" % tag, "%s[%d, %d] = %r but node (x, y) = (%s, %s), location (%s, %s): %s"
                        % (desc, j, i, v, float(X), float(Y), float(xs), float(ys), why))
    return None


def oracle(ctx, hints):
    import random

    sys.path.insert(0, core.SRC)
    from bldfm.utils import ideal_source

    pool = [h["ideal"] for h in hints if h and "ideal" in h]
    rng = random.Random(ctx.seed + 1313)
    pool += gen_cases(rng, ctx.thorough)
    found = {}
    for case in pool:
        case = dict(case)
        case.setdefault("call", "kw")
        try:
            r = oracle_case(ideal_source, case)
        except Exception as e:
            r = ("ideal_source:oracle-exception", repr(e))
        if r:
            size = case["nx"] * case["ny"]
            if r[0] not in found or size < found[r[0]][0]:
                found[r[0]] = (size, r[1], {"ideal": {k: case.get(k) for k in ("label", "shape", "nx", "ny", "xmx", "ymx", "loc", "call")}})
    return [{"signature": sig, "what": what, "replay": rp} for sig, (size, what, rp) in found.items()]


def replay(body):
    sys.path.insert(0, core.SRC)
    from bldfm.utils import ideal_source

    case = dict(body["ideal"])
    case.setdefault("call", "kw")
    r = oracle_case(ideal_source, case)
    print("case     =", json.dumps(case))
    print("measured =", r)
    print("FAILS" if r else "holds")
    return 1 if r else 0


if __name__ == "__main__":
    if len(sys.argv) >= 4 and sys.argv[1] == "job":
        sys.exit(job_main(sys.argv))
