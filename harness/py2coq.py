"""Fail-closed slice translator: Python scalar kernels -> Gallina definitions.

A slice is (source file, function, target variable, occurrence, declared parameter list,
names to inline).  The translator walks the function body in source order, remembers the
right-hand side of every simple assignment, and emits

    Definition gen_<name> (p1 ... pn : T) : T := <expr>.

for the requested occurrence of the target, with the names listed in `inline` substituted by
their most recent right-hand sides.  Everything outside the accepted syntax raises
TranslateError (the check then reports the obligation as not discharged).  The free names of
the emitted expression must be exactly the declared parameters, so a changed operand or index
(`Kx[i+1]` instead of `Kx[i]`) fails closed as well.

Two backends: "ops" (abstract complex field of Base/Ops.v; literals become exact rationals)
and "R" (Coq reals with Rtrigo/Rpower functions).

Inlining is SSA-correct: every remembered right-hand side carries the environment that was
current *before* its assignment, and is expanded in that environment.  So `w = f(w); u = g(w)`
(re-assignment of a parameter, as in compute_wind_fields) expands to g(f(w_param)); a name that
is listed in `inline` but has no binding in the environment of the right-hand side being
expanded is the function's own parameter and stays free (it must then be declared in `params`).
Optional slice keys: `elt` (select one component when the target's right-hand side is a tuple,
e.g. target "return" of `return x, y`), `module_consts` (names of module-level numeric constants,
e.g. `_EARTH_RADIUS = 6_371_000.0`, to be replaced by their literal value read from the module)."""
import ast
from fractions import Fraction
import re


class TranslateError(Exception):
    pass


def _san(s):
    s = re.sub(r"\s+", "", s)
    s = s.replace("+", "_plus_").replace("-", "_minus_").replace("*", "_times_")
    s = s.replace("(", "").replace(")", "")
    s = re.sub(r"[^A-Za-z0-9_]", "_", s)
    s = re.sub(r"_+", "_", s).strip("_")
    return s


class Emitter:
    def __init__(self, backend, env, inline, consts=None, modconsts=None, calls=None, masks=None):
        self.calls = dict(calls or {})  # user function name -> already generated Gallina function
        self.masks = set(masks or ())  # names of boolean mask arrays: `a[mask]` means `a`, elementwise
        self.backend = backend
        self.env = env  # name -> (ast node of the most recent rhs, environment before that assignment)
        self.inline = set(inline)
        self.free = []
        self.consts = consts or {}
        self.modconsts = modconsts or {}  # name -> ast Constant node (module-level numeric literal)
        self.depth = 0

    # --- literals
    def lit(self, v, text=None):
        if isinstance(v, bool):
            raise TranslateError("boolean literal in arithmetic")
        if isinstance(v, int):
            fr = Fraction(v)
        elif isinstance(v, float):
            fr = Fraction(text) if text is not None else Fraction(repr(v))
        elif isinstance(v, complex):
            if v.real != 0:
                raise TranslateError("complex literal with real part")
            im = Fraction(repr(v.imag))
            i = "(ci O)" if self.backend == "ops" else None
            if i is None:
                raise TranslateError("complex literal in R backend")
            return i if im == 1 else "(%s * %s)" % (self.lit(float(im)), i)
        else:
            raise TranslateError("literal %r" % (v,))
        if self.backend == "Z":
            if fr.denominator != 1:
                raise TranslateError("non-integer literal in integer arithmetic")
            return "(%d)" % fr.numerator
        if self.backend == "ops":
            if fr.denominator == 1:
                return "(cofZ O (%d)%%Z)" % fr.numerator
            return "(cofQ O (%d)%%Z (%d)%%Z)" % (fr.numerator, fr.denominator)
        if fr.denominator == 1:
            return "(%d)" % fr.numerator if fr.numerator >= 0 else "(- %d)" % -fr.numerator
        return "(%d / %d)" % (fr.numerator, fr.denominator) if fr.numerator >= 0 else "(- %d / %d)" % (-fr.numerator, fr.denominator)

    def name(self, n):
        if n in self.inline:
            if n not in self.env and self.depth == 0:
                raise TranslateError("name %s to inline has no earlier assignment" % n)
            if n in self.env:
                self.depth += 1
                if self.depth > 50:
                    raise TranslateError("inline recursion")
                node, before = self.env[n]
                saved = self.env
                self.env = before  # SSA: expand the rhs in the environment of its own assignment
                try:
                    r = self.expr(node)
                finally:
                    self.env = saved
                self.depth -= 1
                return r
            # inside an inlined rhs and unbound there: the function's own parameter -> free name
        if n in self.modconsts:
            if n in self.env:
                raise TranslateError("module constant %s is shadowed by a local assignment" % n)
            return self.expr(self.modconsts[n])
        if n in self.consts:
            return self.consts[n]
        if n not in self.free:
            self.free.append(n)
        return n

    def call(self, node):
        f = ast.unparse(node.func)
        a = node.args
        R = self.backend == "R"
        # --- KM additions (hook): helper calls, np.asarray([x]), np.arctan2
        r = _km_call(self, node, f, a)
        if r is not None:
            return r
        # --- end KM additions
        un = {
            "np.sqrt": "sqrt" if R else "csqrt O", "math.sqrt": "sqrt" if R else "csqrt O",
            "np.exp": "exp" if R else "cexp O", "math.exp": "exp" if R else "cexp O",
        }
        if R:
            un.update({"np.log": "ln", "math.log": "ln", "np.sin": "sin", "np.cos": "cos", "math.sin": "sin",
                       "math.cos": "cos", "np.arctan": "atan", "math.atan": "atan", "np.abs": "Rabs", "abs": "Rabs",
                       "np.tan": "tan", "math.tan": "tan", "spsp.gamma": "Gamma"})
        if f in un and len(a) == 1 and not node.keywords:
            return "(%s %s)" % (un[f], self.expr(a[0]))
        if R and f in ("np.deg2rad", "math.radians", "np.radians") and len(a) == 1:
            return "(%s * PI / 180)" % self.expr(a[0])
        if R and f in ("np.degrees", "math.degrees", "np.rad2deg") and len(a) == 1:
            return "(%s * 180 / PI)" % self.expr(a[0])
        if R and f == "np.power" and len(a) == 2:
            kws = {k.arg: ast.unparse(k.value) for k in node.keywords}
            if kws not in ({}, {"dtype": "complex"}):
                raise TranslateError("np.power keywords %r" % kws)
            return "(Rpower %s %s)" % (self.expr(a[0]), self.expr(a[1]))
        if R and f == "np.where" and len(a) == 3:
            return "(if %s then %s else %s)" % (self.cond(a[0]), self.expr(a[1]), self.expr(a[2]))
        if f in ("max",) and len(a) == 2:
            return "(%s %s %s)" % ("Rmax" if R else "cmax O", self.expr(a[0]), self.expr(a[1]))
        if f in ("float", "np.float64") and len(a) == 1:
            return self.expr(a[0])
        if f in self.calls and a and not node.keywords:
            # a scalar helper of the same module, translated by an earlier slice of the same file
            return "(%s %s)" % (self.calls[f], " ".join(self.expr(x) for x in a))
        if R and f == "np.ones" and len(a) == 1 and not node.keywords and isinstance(a[0], ast.Call) \
                and ast.unparse(a[0].func) == "len" and len(a[0].args) == 1 and isinstance(a[0].args[0], ast.Name):
            return "1"  # np.ones(len(z)): the constant 1 at every node (elementwise reading)
        raise TranslateError("call %s not in the accepted syntax" % f)

    def cond(self, node):
        if isinstance(node, ast.Compare) and len(node.ops) == 1:
            l, r = self.expr(node.left), self.expr(node.comparators[0])
            op = node.ops[0]
            if isinstance(op, ast.Gt):
                return "(Rlt_dec %s %s)" % (r, l)
            if isinstance(op, ast.Lt):
                return "(Rlt_dec %s %s)" % (l, r)
            if isinstance(op, ast.GtE):
                return "(Rle_dec %s %s)" % (r, l)
            if isinstance(op, ast.LtE):
                return "(Rle_dec %s %s)" % (l, r)
        raise TranslateError("condition %s" % ast.unparse(node))

    def boolexpr(self, node):
        """conditions of if-statements as Coq booleans (backends Z and ops)"""
        if isinstance(node, ast.BoolOp):
            op = "||" if isinstance(node.op, ast.Or) else "&&"
            return "(" + (" %s " % op).join(self.boolexpr(v) for v in node.values) + ")%bool"
        if isinstance(node, ast.UnaryOp) and isinstance(node.op, ast.Not):
            return "(negb %s)" % self.boolexpr(node.operand)
        if isinstance(node, ast.Compare) and len(node.ops) == 1:
            l, r = self.expr(node.left), self.expr(node.comparators[0])
            op = node.ops[0]
            if self.backend == "Z":
                tab = {ast.Gt: "(%s <? %s)" % (r, l), ast.Lt: "(%s <? %s)" % (l, r), ast.GtE: "(%s <=? %s)" % (r, l),
                       ast.LtE: "(%s <=? %s)" % (l, r), ast.Eq: "(%s =? %s)" % (l, r), ast.NotEq: "(negb (%s =? %s))" % (l, r)}
            elif self.backend == "ops":
                tab = {ast.Gt: "(cltb O %s %s)" % (r, l), ast.Lt: "(cltb O %s %s)" % (l, r)}
            else:
                tab = {}
            for k, v in tab.items():
                if isinstance(op, k):
                    return v
        if self.backend == "Z" and isinstance(node, (ast.BinOp, ast.Name)):
            # truth value of a Python int: non-zero (`if a % 2 or b % 2:`); the bridge lemma still has to prove the
            # resulting boolean equal to the model's for all arguments
            return "(negb (%s =? 0))" % self.expr(node)
        raise TranslateError("condition %s not in the accepted syntax" % ast.unparse(node))

    def expr(self, node):
        if isinstance(node, ast.Constant):
            text = None
            if isinstance(node.value, float):
                seg = getattr(node, "_src", None)
                text = seg
            return self.lit(node.value, text)
        if isinstance(node, ast.Name):
            return self.name(node.id)
        if isinstance(node, ast.Attribute):
            full = ast.unparse(node)
            if full in ("np.pi", "math.pi"):
                return "PI" if self.backend == "R" else "(cpi O)"
            if full == "np.nan" and self.backend == "R":
                return "0"  # only ever the unselected branch of an np.where; see the bridge lemma
            if node.attr == "real" and self.backend == "R":
                return self.expr(node.value)
            if full in self.consts:
                return self.consts[full]
            raise TranslateError("attribute %s" % full)
        if isinstance(node, ast.Subscript):
            # --- KM additions (hook): x[mask] inside a masked assignment, helper(...)[0]
            r = _km_subscript(self, node)
            if r is not None:
                return r
            # --- end KM additions
            base = ast.unparse(node.value)
            idx = ast.unparse(node.slice)
            nm = "%s_%s" % (_san(base), _san(idx))
            if not isinstance(node.value, ast.Name):
                raise TranslateError("subscript of non-name %s" % base)
            if isinstance(node.slice, ast.Name) and node.slice.id in self.masks:
                return self.name(node.value.id)  # a[mask] inside a masked store: the element itself
            if nm not in self.free:
                self.free.append(nm)
            return nm
        if isinstance(node, ast.UnaryOp):
            if isinstance(node.op, ast.USub):
                return "(- %s)" % self.expr(node.operand)
            if isinstance(node.op, ast.UAdd):
                return self.expr(node.operand)
            raise TranslateError("unary op")
        if isinstance(node, ast.BinOp):
            if isinstance(node.op, ast.Pow):
                base = self.expr(node.left)
                e = node.right
                if isinstance(e, ast.Constant) and isinstance(e.value, int) and 1 <= e.value <= 8:
                    return "(" + " * ".join([base] * e.value) + ")"
                if isinstance(e, ast.UnaryOp) and isinstance(e.op, ast.USub) and isinstance(e.operand, ast.Constant) and isinstance(e.operand.value, int):
                    one = self.lit(1)
                    return "(%s / (%s))" % (one, " * ".join([base] * e.operand.value))
                if self.backend == "R":
                    return "(Rpower %s %s)" % (base, self.expr(e))
                raise TranslateError("power with non-integer exponent in ops backend")
            if self.backend == "Z":
                zops = {ast.Add: "+", ast.Sub: "-", ast.Mult: "*", ast.FloorDiv: "/", ast.Mod: "mod"}
                for k, sym in zops.items():
                    if isinstance(node.op, k):
                        return "(%s %s %s)" % (self.expr(node.left), sym, self.expr(node.right))
                raise TranslateError("operator %s in integer arithmetic" % type(node.op).__name__)
            ops = {ast.Add: "+", ast.Sub: "-", ast.Mult: "*", ast.Div: "/"}
            for k, s in ops.items():
                if isinstance(node.op, k):
                    return "(%s %s %s)" % (self.expr(node.left), s, self.expr(node.right))
            raise TranslateError("binary operator %s" % type(node.op).__name__)
        if isinstance(node, ast.Call):
            return self.call(node)
        raise TranslateError("expression %s not in the accepted syntax" % ast.unparse(node))


def _assignments(fn):
    """all simple assignments of a function body, in source order: (name, rhs node)"""
    out = []

    def visit(stmts):
        for st in stmts:
            if isinstance(st, ast.Assign):
                if len(st.targets) != 1:
                    continue
                t = st.targets[0]
                if isinstance(t, ast.Name):
                    out.append((t.id, st.value))
                elif isinstance(t, ast.Tuple) and isinstance(st.value, ast.Tuple) and len(t.elts) == len(st.value.elts):
                    for a, b in zip(t.elts, st.value.elts):
                        if isinstance(a, ast.Name):
                            out.append((a.id, b))
                elif isinstance(t, ast.Subscript):
                    out.append((ast.unparse(t), st.value))
            elif isinstance(st, ast.Return) and st.value is not None:
                out.append(("return", st.value))
            for attr in ("body", "orelse", "finalbody"):
                sub = getattr(st, attr, None)
                if isinstance(sub, list) and not isinstance(st, (ast.FunctionDef, ast.ClassDef)):
                    visit(sub)

    visit(fn.body)
    return out


def _annotate_float_text(tree, src):
    """keep the source text of float literals so that 0.1 means 1/10, not the nearest double"""
    for node in ast.walk(tree):
        if isinstance(node, ast.Constant) and isinstance(node.value, float):
            seg = ast.get_source_segment(src, node)
            if seg is not None:
                seg = seg.replace("_", "")
                try:
                    Fraction(seg)
                    node._src = seg
                except Exception:
                    node._src = None


def follow_path(node, path):
    """descend into the right-hand side: steps ("slice", k, "lower"|"upper"), ("arg", i), ("elt", i), ("kw", name)"""
    for step in path:
        kind = step[0]
        if kind == "slice":
            if not isinstance(node, ast.Subscript):
                raise TranslateError("path: expected a subscript, got %s" % type(node).__name__)
            sl = node.slice
            dims = list(sl.elts) if isinstance(sl, ast.Tuple) else [sl]
            if step[1] >= len(dims) or not isinstance(dims[step[1]], ast.Slice):
                raise TranslateError("path: dimension %d is not a slice in %s" % (step[1], ast.unparse(node)))
            node = getattr(dims[step[1]], step[2])
            if node is None:
                raise TranslateError("path: slice bound %s missing" % step[2])
        elif kind == "arg":
            if not isinstance(node, ast.Call) or step[1] >= len(node.args):
                raise TranslateError("path: no positional argument %d" % step[1])
            node = node.args[step[1]]
        elif kind == "kw":
            if not isinstance(node, ast.Call):
                raise TranslateError("path: expected a call")
            kws = {k.arg: k.value for k in node.keywords}
            if step[1] not in kws:
                raise TranslateError("path: no keyword %s" % step[1])
            node = kws[step[1]]
        elif kind == "elt":
            if not isinstance(node, (ast.Tuple, ast.List)) or step[1] >= len(node.elts):
                raise TranslateError("path: no element %d in %s" % (step[1], ast.unparse(node)))
            node = node.elts[step[1]]
        elif kind == "base":
            if not isinstance(node, ast.Subscript):
                raise TranslateError("path: expected a subscript")
            node = node.value
        else:
            raise TranslateError("path step %r" % (step,))
    return node


def if_tests(fn):
    out = []
    for node in ast.walk(fn):
        if isinstance(node, ast.If):
            out.append(node.test)
    return out


def find_function(tree, qual):
    parts = qual.split(".")
    body = tree.body
    node = None
    for p in parts:
        node = None
        for st in body:
            if isinstance(st, (ast.FunctionDef, ast.ClassDef)) and st.name == p:
                node = st
                break
        if node is None:
            raise TranslateError("function %s not found" % qual)
        body = node.body
    return node


def _masked(fn, sl, backend, consts):
    """Masked stores (R backend):

        t = np.zeros_like(..);  m = <cmp>;  [aux = <expr>;]  t[m] = <rhs>;  m = <cmp'>;  t[m] = <rhs'>;  return t

    The value of an element of t is the fold of the stores in source order (a later store wins where
    its mask holds), starting from 0:  if cmp' then rhs' else (if cmp then rhs else 0).
    Every store is translated in the environment current AT that store (so a mask name that is
    re-assigned denotes the right comparison); `a[m]` with m the store's mask denotes the element."""
    if backend != "R":
        raise TranslateError("masked slices need the R backend")
    target = sl["target"]
    env = {}
    init = None
    stores = []
    ret = None
    for name, rhs in _assignments(fn):
        if name == target:
            if init is not None or stores:
                raise TranslateError("slice %s: %s re-initialised" % (sl["name"], target))
            if not (isinstance(rhs, ast.Call) and ast.unparse(rhs.func) in ("np.zeros_like", "np.zeros")):
                raise TranslateError("slice %s: %s is not initialised with zeros" % (sl["name"], target))
            init = "0"
            continue
        m = re.match(r"^%s\[([A-Za-z_]\w*)\]$" % re.escape(target), name)
        if m:
            mask = m.group(1)
            if init is None:
                raise TranslateError("slice %s: store before initialisation" % sl["name"])
            if mask not in env or not isinstance(env[mask][0], ast.Compare):
                raise TranslateError("slice %s: mask %s is not a comparison" % (sl["name"], mask))
            stores.append((mask, env[mask][0], rhs, dict(env)))
            continue
        if name.startswith(target + "["):
            raise TranslateError("slice %s: store %s not in the accepted syntax" % (sl["name"], name))
        if name == "return":
            ret = rhs
            continue
        env[name] = (rhs, dict(env))
    if init is None or not stores:
        raise TranslateError("slice %s: no masked stores to %s found" % (sl["name"], target))
    if not (isinstance(ret, ast.Name) and ret.id == target):
        raise TranslateError("slice %s: the function does not return %s" % (sl["name"], target))
    body = init
    free = []
    for mask, cmp_node, rhs, env_at in stores:
        em = Emitter(backend, env_at, sl.get("inline", []), consts=dict(consts or {}, **sl.get("consts", {})),
                     calls=sl.get("calls"), masks=[mask])
        em.free = free
        c = em.cond(cmp_node)
        r = em.expr(rhs)
        body = "(if %s then %s else %s)" % (c, r, body)
    if sorted(free) != sorted(sl["params"]):
        raise TranslateError("slice %s: free names %r differ from the declared parameters %r" % (sl["name"], sorted(free), sorted(sl["params"])))
    return body


def translate(path, slices, backend, consts=None, **km):
    """slices: list of dicts {name, func, target, occ (0-based, default 0), params [..], inline [..]}.
    Returns Coq text with one definition per slice."""
    # --- KM additions (hook): keyword options select the SSA / masked-assignment / Section-variable path
    if km:
        return _km_translate(path, slices, backend, consts, **km)
    # --- end KM additions
    src = open(path).read()
    import astnorm
    tree = astnorm.parse_file(path)  # dict(k=v) = {'k': v}; NEW single-use temporaries are substituted forward (harness/astnorm.py)
    _annotate_float_text(tree, src)
    defs = []
    for sl in slices:
        fn = find_function(tree, sl["func"])
        if sl.get("masked"):
            body = _masked(fn, sl, backend, consts)
            ps = " ".join(sl["params"])
            defs.append("Definition gen_%s %s: R :=\n  %s." % (sl["name"], ("(%s : R) " % ps) if ps else "", body))
            continue
        if sl.get("iftest"):
            # the condition of the unique if/elif whose source matches the given pattern
            pat = re.compile(sl["iftest"])
            cands = [t for t in if_tests(fn) if pat.search(ast.unparse(t))]
            if len(cands) != 1:
                raise TranslateError("slice %s: %d if-conditions match %r" % (sl["name"], len(cands), sl["iftest"]))
            em = Emitter(backend, {}, [], consts=dict(consts or {}, **sl.get("consts", {})))
            body = em.boolexpr(cands[0])
            if sorted(em.free) != sorted(sl["params"]):
                raise TranslateError("slice %s: free names %r differ from the declared parameters %r" % (sl["name"], sorted(em.free), sorted(sl["params"])))
            ty = "C O" if backend == "ops" else ("Z" if backend == "Z" else "R")
            ps = " ".join(sl["params"])
            defs.append("Definition gen_%s %s: bool :=\n  %s." % (sl["name"], ("(%s : %s) " % (ps, ty)) if ps else "", body))
            continue
        env = {}
        occ = sl.get("occ", 0)
        seen = -1
        found = None
        for name, rhs in _assignments(fn):
            if name == sl["target"]:
                seen += 1
                if seen == occ:
                    found = rhs
                    break
            before = env
            env = dict(env)
            env[name] = (rhs, before)
        if found is None:
            raise TranslateError("slice %s: assignment #%d to %s not found in %s" % (sl["name"], occ, sl["target"], sl["func"]))
        if sl.get("path"):
            found = follow_path(found, sl["path"])
        if "elt" in sl:
            if not isinstance(found, ast.Tuple) or not (0 <= sl["elt"] < len(found.elts)):
                raise TranslateError("slice %s: %s is not a tuple with a component %r" % (sl["name"], ast.unparse(found), sl["elt"]))
            if "arity" in sl and len(found.elts) != sl["arity"]:
                raise TranslateError("slice %s: tuple %s has not %d components" % (sl["name"], ast.unparse(found), sl["arity"]))
            found = found.elts[sl["elt"]]
        elif isinstance(found, ast.Tuple):
            raise TranslateError("slice %s: tuple-valued right-hand side %s needs `elt`" % (sl["name"], ast.unparse(found)))
        modconsts = {}
        for mc in sl.get("module_consts", []):
            nodes = [st.value for st in tree.body if isinstance(st, ast.Assign) and len(st.targets) == 1
                     and isinstance(st.targets[0], ast.Name) and st.targets[0].id == mc]
            if len(nodes) != 1 or not isinstance(nodes[0], ast.Constant) or isinstance(nodes[0].value, bool) \
                    or not isinstance(nodes[0].value, (int, float)):
                raise TranslateError("slice %s: module constant %s is not a single numeric literal assignment" % (sl["name"], mc))
            modconsts[mc] = nodes[0]
        em = Emitter(backend, env, sl.get("inline", []), consts=dict(consts or {}, **sl.get("consts", {})), modconsts=modconsts,
                     calls=sl.get("calls"))
        body = em.expr(found)
        if sorted(em.free) != sorted(sl["params"]):
            raise TranslateError("slice %s: free names %r differ from the declared parameters %r" % (sl["name"], sorted(em.free), sorted(sl["params"])))
        ty = "C O" if backend == "ops" else ("Z" if backend == "Z" else "R")
        ps = " ".join(sl["params"])
        defs.append("Definition gen_%s %s: %s :=\n  %s." % (sl["name"], ("(%s : %s) " % (ps, ty)) if ps else "", ty, body))
    if backend == "ops":
        head = ("From Coq Require Import ZArith.\nFrom BL Require Import Base.Ops.\nSection Gen.\nVariable O : Ops.\n"
                'Infix "+" := (cadd O) : ops_scope. Infix "*" := (cmul O) : ops_scope.\n'
                'Infix "-" := (csub O) : ops_scope. Infix "/" := (cdiv O) : ops_scope.\n'
                'Notation "- x" := (copp O x) : ops_scope.\nLocal Open Scope ops_scope.\n')
        tail = "\nEnd Gen.\n"
    elif backend == "Z":
        head = "From Coq Require Import ZArith.\nOpen Scope Z_scope.\n"
        tail = "\n"
    else:
        head = "From Coq Require Import Reals.\nOpen Scope R_scope.\n"
        tail = "\n"
    return head + "\n".join(defs) + tail


# =============================================================================================
# --- KM additions (begin): used by harness/kmslices.py (property C19); R backend only.
#
#  * translate(..., ssa=True, helpers={py_func: gen_name}, section_vars=[(name, type)], prelude="...")
#      - proper SSA substitution: every assignment remembers the environment *at assignment time*
#        (the base translator substitutes in the environment at the target, which loops on
#        `x = rho*cos(t)` following `rho = sqrt(x**2 + ...)`);
#      - `func: "<module>"` slices module-level constants (von_karman = 0.4);
#      - slice kind "masked": `v = np.zeros_like(..)` / `v = w.copy()` followed by masked assignments
#        `v[mask] = e` (mask a name bound to a comparison, or an inline comparison), each possibly nested
#        in `if`/`elif`/`else` on scalar comparisons, becomes nested `if .. then .. else ..`;
#        inside `e`, `a[mask]` is the element `a`;
#      - slice kind "iftest": the test of an early-exit `if <text>: ... return <expr>` becomes a Coq bool;
#      - slice kind "cond": a boolean mask (`a < b`, `np.logical_and(c1, c2)`) becomes a Coq bool;
#      - `helper(np.asarray([a]), ...)[0]` and `helper(a, ...)` for helpers defined by earlier slices
#        become `(gen_helper a ...)`; the slice option `signature: True` checks that the declared
#        parameters are exactly the Python function's parameters, in order;
#      - slice option `unique: True`: the target is assigned exactly once in the function (so that the
#        by-name plumbing between step slices is sound);
#      - `np.arctan2(y, x)` -> `(atan2 y x)` (defined in the prelude, BL.Model.KM);
#      - `spsp.gamma` -> `Gamma`, a Section variable of the generated file.
#  Everything else still raises TranslateError.


def _km_call(em, node, f, a):
    if em.backend != "R":
        return None
    helpers = getattr(em, "helpers", None) or {}
    if f in helpers and not node.keywords:
        args = []
        for x in a:
            args.append(em.expr(_km_unwrap_asarray(x)))
        want = getattr(em, "helper_arity", {}).get(f)
        if want is not None and want != len(args):
            raise TranslateError("helper %s called with %d arguments, defined with %d" % (f, len(args), want))
        return "(%s %s)" % (helpers[f], " ".join(args))
    if f == "np.arctan2" and len(a) == 2 and not node.keywords and getattr(em, "km", False):
        return "(atan2 %s %s)" % (em.expr(a[0]), em.expr(a[1]))
    return None


def _km_unwrap_asarray(x):
    """np.asarray([e]) -> e"""
    if (isinstance(x, ast.Call) and ast.unparse(x.func) in ("np.asarray", "np.array") and len(x.args) == 1
            and not x.keywords and isinstance(x.args[0], ast.List) and len(x.args[0].elts) == 1):
        return x.args[0].elts[0]
    return x


def _km_subscript(em, node):
    if not getattr(em, "km", False):
        return None
    helpers = getattr(em, "helpers", None) or {}
    # helper(...)[0]
    if (isinstance(node.value, ast.Call) and ast.unparse(node.value.func) in helpers
            and isinstance(node.slice, ast.Constant) and node.slice.value == 0):
        return em.expr(node.value)
    # a[mask] inside a masked assignment with that very mask
    mask = getattr(em, "mask_text", None)
    if mask is not None and ast.unparse(node.slice) == mask and isinstance(node.value, ast.Name):
        return em.name(node.value.id)
    return None


def _km_inline_ssa(em, n):
    node, snap = em.env[n]
    saved = em.env
    em.env = snap
    try:
        return em.expr(node)
    finally:
        em.env = saved


def _km_walk(stmts, guards=()):
    """all assignments in source order with the chain of enclosing `if` tests:
    yields (target_node, value_node, guards) where guards = ((test_node, polarity), ...).
    Tuple assignments are split.  Loop bodies are walked once (the loop variable stays a free name)."""
    for st in stmts:
        if isinstance(st, ast.Assign):
            if len(st.targets) != 1:
                raise TranslateError("chained assignment")
            t = st.targets[0]
            if isinstance(t, ast.Tuple):
                if not (isinstance(st.value, ast.Tuple) and len(t.elts) == len(st.value.elts)):
                    # e.g. `a, b = f(...)`: the names become opaque (cannot be inlined)
                    for e in t.elts:
                        yield e, None, guards
                    continue
                for a_, b_ in zip(t.elts, st.value.elts):
                    yield a_, b_, guards
            else:
                yield t, st.value, guards
        elif isinstance(st, ast.AugAssign):
            yield st.target, None, guards
        elif isinstance(st, ast.If):
            yield from _km_walk(st.body, guards + ((st.test, True),))
            yield from _km_walk(st.orelse, guards + ((st.test, False),))
        elif isinstance(st, (ast.For, ast.While, ast.With, ast.Try)):
            for attr in ("body", "orelse", "finalbody"):
                sub = getattr(st, attr, None)
                if isinstance(sub, list):
                    yield from _km_walk(sub, guards)
        elif isinstance(st, (ast.FunctionDef, ast.ClassDef)):
            continue


def _km_cond(em, node):
    """comparison or np.logical_and of comparisons -> Coq bool"""
    if isinstance(node, ast.Call) and ast.unparse(node.func) == "np.logical_and" and len(node.args) == 2 and not node.keywords:
        return "(if %s then %s else false)" % (_km_sumbool(em, node.args[0]), _km_cond(em, node.args[1]))
    return "(if %s then true else false)" % _km_sumbool(em, node)


def _km_sumbool(em, node):
    if isinstance(node, ast.Name) and node.id in em.env:
        v = em.env[node.id]
        if isinstance(v, tuple):
            nd, snap = v
            saved = em.env
            em.env = snap
            try:
                return _km_sumbool(em, nd)
            finally:
                em.env = saved
    return em.cond(node)


def _km_guarded(em, guards, then, acc):
    out = then
    for test, pol in reversed(guards):
        c = em.cond(test)
        out = "(if %s then %s else %s)" % ((c, out, acc) if pol else (c, acc, out))
    return out


def _km_target_name(t):
    if isinstance(t, ast.Name):
        return t.id
    return ast.unparse(t)


def _km_translate(path, slices, backend, consts=None, ssa=True, helpers=None, section_vars=None, prelude="",
                  section_name="Gen"):
    if backend != "R":
        raise TranslateError("KM options need the R backend")
    src = open(path).read()
    import astnorm
    tree = astnorm.parse_file(path)  # see translate()
    _annotate_float_text(tree, src)
    helpers = dict(helpers or {})
    arity = {}
    defs = []
    for sl in slices:
        fn = tree if sl["func"] == "<module>" else find_function(tree, sl["func"])
        kind = sl.get("kind", "expr")
        occ = sl.get("occ", 0)
        allc = dict(consts or {}, **sl.get("consts", {}))
        if sl.get("signature"):
            if sl["func"] == "<module>":
                raise TranslateError("signature on module slice")
            pyargs = [a_.arg for a_ in fn.args.args]
            if pyargs != list(sl["params"]):
                raise TranslateError("slice %s: declared parameters %r are not the signature %r of %s" % (sl["name"], sl["params"], pyargs, sl["func"]))
            arity[sl["func"]] = len(pyargs)
        if sl.get("unique"):
            cnt = sum(1 for t, v, g in _km_walk(fn.body) if _km_target_name(t) == sl["target"])
            if cnt != 1:
                raise TranslateError("slice %s: %s is assigned %d times in %s (expected exactly once)" % (sl["name"], sl["target"], cnt, sl["func"]))
        env = {}
        em = Emitter(backend, env, sl.get("inline", []), consts=allc)
        em.km = True
        em.helpers = helpers
        em.helper_arity = arity
        ty = "R"
        body = None
        if kind in ("expr", "cond"):
            seen = -1
            for t, v, g in _km_walk(fn.body):
                nm = _km_target_name(t)
                if nm == sl["target"]:
                    seen += 1
                    if seen == occ:
                        if v is None:
                            raise TranslateError("slice %s: target has no translatable right-hand side" % sl["name"])
                        em.env = env
                        if kind == "cond":
                            ty = "bool"
                            if isinstance(t, ast.Subscript) and isinstance(t.slice, ast.Compare) and sl.get("mask_of_target"):
                                body = _km_cond(em, t.slice)
                            else:
                                body = _km_cond(em, v)
                        else:
                            body = em.expr(v)
                        break
                if v is not None:
                    env[nm] = (v, dict(env))
                else:
                    env.pop(nm, None)
            if body is None:
                if kind == "cond" and sl.get("mask_of_target"):
                    pass
                raise TranslateError("slice %s: assignment #%d to %s not found in %s" % (sl["name"], occ, sl["target"], sl["func"]))
        elif kind == "masked":
            acc = None
            nmask = 0
            for t, v, g in _km_walk(fn.body):
                nm = _km_target_name(t)
                if isinstance(t, ast.Name) and nm == sl["target"]:
                    if acc is not None:
                        raise TranslateError("slice %s: %s re-initialised" % (sl["name"], nm))
                    if g:
                        raise TranslateError("slice %s: conditional initialisation" % sl["name"])
                    if isinstance(v, ast.Call) and ast.unparse(v.func) == "np.zeros_like" and len(v.args) == 1:
                        kws = {k_.arg: ast.unparse(k_.value) for k_ in v.keywords}
                        if kws not in ({}, {"dtype": "float"}, {"dtype": "np.float64"}):
                            raise TranslateError("slice %s: zeros_like keywords %r" % (sl["name"], kws))
                        acc = "0"
                    elif (isinstance(v, ast.Call) and isinstance(v.func, ast.Attribute) and v.func.attr == "copy"
                          and not v.args and isinstance(v.func.value, ast.Name)):
                        em.env = env
                        acc = em.name(v.func.value.id)
                    else:
                        raise TranslateError("slice %s: initialisation %s not accepted" % (sl["name"], ast.unparse(v) if v is not None else "?"))
                    continue
                if isinstance(t, ast.Subscript) and isinstance(t.value, ast.Name) and t.value.id == sl["target"]:
                    if acc is None:
                        raise TranslateError("slice %s: masked assignment before initialisation" % sl["name"])
                    if v is None:
                        raise TranslateError("slice %s: augmented masked assignment" % sl["name"])
                    em.env = env
                    em.mask_text = ast.unparse(t.slice)
                    c = _km_sumbool(em, t.slice)
                    rhs = em.expr(v)
                    em.mask_text = None
                    acc = _km_guarded(em, g, "(if %s then %s else %s)" % (c, rhs, acc), acc)
                    nmask += 1
                    continue
                if v is not None:
                    env[nm] = (v, dict(env))
                else:
                    env.pop(nm, None)
            if acc is None or nmask == 0:
                raise TranslateError("slice %s: no masked assignments to %s in %s" % (sl["name"], sl["target"], sl["func"]))
            body = acc
        elif kind == "iftest":
            # the test of the occ-th `if <target text>:` whose body ends in `return` (an early exit)
            seen = -1
            for st in ast.walk(fn):
                if isinstance(st, ast.If) and ast.unparse(st.test) == sl["target"]:
                    seen += 1
                    if seen == occ:
                        if not isinstance(st.body[-1], ast.Return):
                            raise TranslateError("slice %s: `if %s` does not end in return" % (sl["name"], sl["target"]))
                        if sl.get("returns") is not None and ast.unparse(st.body[-1].value) != sl["returns"]:
                            raise TranslateError("slice %s: early exit returns %s, expected %s" % (sl["name"], ast.unparse(st.body[-1].value), sl["returns"]))
                        ty = "bool"
                        body = _km_cond(em, st.test)
                        break
            if body is None:
                raise TranslateError("slice %s: `if %s` not found in %s" % (sl["name"], sl["target"], sl["func"]))
        else:
            raise TranslateError("slice kind %r" % kind)
        if sorted(em.free) != sorted(sl["params"]):
            raise TranslateError("slice %s: free names %r differ from the declared parameters %r" % (sl["name"], sorted(em.free), sorted(sl["params"])))
        ps = " ".join(sl["params"])
        defs.append("Definition gen_%s %s: %s :=\n  %s." % (sl["name"], ("(%s : R) " % ps) if ps else "", ty, body))
        if sl.get("helper_for"):
            helpers[sl["helper_for"]] = "gen_" + sl["name"]
    head = "From Coq Require Import Reals.\n" + prelude + "Open Scope R_scope.\n"
    tail = "\n"
    if section_vars:
        head += "Section %s.\n" % section_name + "".join("Variable %s : %s.\n" % (n_, t_) for n_, t_ in section_vars)
        tail = "\nEnd %s.\n" % section_name
    return head + "\n".join(defs) + tail
# --- KM additions (end)
# =============================================================================================
