"""Whole-function, fail-closed translation of bldfm/utils.py::ideal_source into Gallina (tie B of C13, second part),
re-done from the CURRENT source on every run, and the bridge file Bridge/IdealBridge.v that re-proves for ALL arguments

    gen_ideal_source_cell shape nx ny xmx ymx src_loc j i = Model.IdealSource.ideal_source_cell shape nx ny xmx ymx src_loc j i
    gen_ideal_shape nx ny = (ny, nx)        gen_ideal_default_shape = "diamond"

The function is read statement by statement as an elementwise program over typed values; EVERY statement must be in the
fragment below (there is no statement the translator skips, so no separate statement skeleton is needed):

  signature   exactly (nxy, domain, src_loc=None, shape=<string literal>), no decorator / *args / **kw / annotations needed
  values      nat (nx, ny) | scalar R | pair | optional pair (src_loc) | string (shape) | vector (1-d array) | grid (2-d array:
              its cell (j_, i_) and its shape (rows, columns))
  statements  a, b = <pair-valued name>                     unpacking of nxy, domain, src_loc
              name = <scalar or grid expression>
              if <name> is None: <name> = (e1, e2)          for the optional pair only; afterwards the name is a pair
              name = np.linspace(e1, e2, <nat name>)        no keywords (endpoint=False fails closed)
              A, B = np.meshgrid(<vector name>, <vector name>)   A[j,i] = first[i], B[j,i] = second[j] (default / indexing='xy');
                                                            indexing='ij': A[j,i] = first[j], B[j,i] = second[i]
              name = np.zeros([<nat name>, <nat name>])
              if shape == "<literal>": <assignments>        no else; a name bound before the `if` becomes
                                                            (if shape =? lit then new else old), names first bound inside are
                                                            local to the block
              return <name>                                 last statement, a grid
  expressions + - * /, ** <integer literal>, unary -, int/float literals (source text -> exact rational), names,
              np.abs, np.sqrt, np.exp, np.pi, np.where(a < b | a <= b | a > b | a >= b, e1, e2); grid op scalar broadcasts,
              grid op grid needs textually equal shapes.
Anything else raises TranslateError -> broken obligation gen:GenIdeal.v."""
import ast
import os

import core
import py2coq
from py2coq import TranslateError

UTILS = lambda: os.path.join(core.SRC, "bldfm", "utils.py")
FUNC = "ideal_source"
SIG = ["nxy", "domain", "src_loc", "shape"]


class V:
    def __init__(self, kind, coq=None, shape=None, elems=None, at=None, length=None):
        self.kind = kind      # nat | scalar | pair | optpair | str | vec | grid
        self.coq = coq        # nat / scalar / optpair / str: Coq text; grid: Coq text of cell (j_, i_)
        self.shape = shape    # grid: (rows, cols) as Coq nat texts
        self.elems = elems    # pair: (V, V)
        self.at = at          # vec: index text -> Coq text
        self.length = length  # vec: Coq nat text


def _lit(node):
    em = py2coq.Emitter("R", {}, [])
    text = getattr(node, "_src", None) if isinstance(node.value, float) else None
    return em.lit(node.value, text)


def _src(node):
    return ast.unparse(node).splitlines()[0][:90]


class Tr:
    def __init__(self):
        self.env = {}

    # ---- expressions (scalar / grid) --------------------------------------------------------
    def as_real(self, v, node):
        if v.kind == "nat":
            return V("scalar", "(INR %s)" % v.coq)
        if v.kind in ("scalar", "grid"):
            return v
        raise TranslateError("`%s` is a %s, not a number or an array" % (_src(node), v.kind))

    def join(self, a, b, node):
        """shape of a binary elementwise operation"""
        if a.kind == "grid" and b.kind == "grid":
            if a.shape != b.shape:
                raise TranslateError("`%s`: operands of shapes %r and %r" % (_src(node), a.shape, b.shape))
            return a.shape
        return a.shape if a.kind == "grid" else (b.shape if b.kind == "grid" else None)

    def mk(self, coq, shape):
        return V("grid", coq, shape=shape) if shape is not None else V("scalar", coq)

    def expr(self, node):
        if isinstance(node, ast.Constant):
            if isinstance(node.value, bool) or not isinstance(node.value, (int, float)):
                raise TranslateError("literal `%s` in arithmetic" % _src(node))
            return V("scalar", _lit(node))
        if isinstance(node, ast.Name):
            if node.id not in self.env:
                raise TranslateError("name `%s` is not bound here" % node.id)
            return self.env[node.id]
        if isinstance(node, ast.Attribute):
            if ast.unparse(node) in ("np.pi", "math.pi"):
                return V("scalar", "PI")
            raise TranslateError("attribute `%s`" % _src(node))
        if isinstance(node, ast.UnaryOp):
            if isinstance(node.op, ast.USub):
                a = self.as_real(self.expr(node.operand), node.operand)
                return self.mk("(- %s)" % a.coq, a.shape)
            if isinstance(node.op, ast.UAdd):
                return self.as_real(self.expr(node.operand), node.operand)
            raise TranslateError("unary operator in `%s`" % _src(node))
        if isinstance(node, ast.BinOp):
            if isinstance(node.op, ast.Pow):
                a = self.as_real(self.expr(node.left), node.left)
                e = node.right
                if isinstance(e, ast.Constant) and isinstance(e.value, int) and not isinstance(e.value, bool) and 1 <= e.value <= 8:
                    return self.mk("(" + " * ".join([a.coq] * e.value) + ")", a.shape)
                raise TranslateError("power `%s`: only ** <integer literal 1..8>" % _src(node))
            ops = {ast.Add: "+", ast.Sub: "-", ast.Mult: "*", ast.Div: "/"}
            for k, s in ops.items():
                if isinstance(node.op, k):
                    a = self.as_real(self.expr(node.left), node.left)
                    b = self.as_real(self.expr(node.right), node.right)
                    return self.mk("(%s %s %s)" % (a.coq, s, b.coq), self.join(a, b, node))
            raise TranslateError("operator in `%s`" % _src(node))
        if isinstance(node, ast.Call):
            f = ast.unparse(node.func)
            un = {"np.abs": "Rabs", "abs": "Rabs", "np.absolute": "Rabs", "np.sqrt": "sqrt", "np.exp": "exp"}
            if f in un and len(node.args) == 1 and not node.keywords:
                a = self.as_real(self.expr(node.args[0]), node.args[0])
                return self.mk("(%s %s)" % (un[f], a.coq), a.shape)
            if f == "np.where" and len(node.args) == 3 and not node.keywords:
                c, cshape = self.cond(node.args[0])
                a = self.as_real(self.expr(node.args[1]), node.args[1])
                b = self.as_real(self.expr(node.args[2]), node.args[2])
                shape = cshape
                for v in (a, b):
                    if v.kind == "grid":
                        if shape is not None and v.shape != shape:
                            raise TranslateError("`%s`: shapes differ" % _src(node))
                        shape = v.shape
                return self.mk("(if %s then %s else %s)" % (c, a.coq, b.coq), shape)
            raise TranslateError("call `%s` not in the accepted syntax" % _src(node))
        raise TranslateError("expression `%s` not in the accepted syntax" % _src(node))

    def cond(self, node):
        if isinstance(node, ast.Compare) and len(node.ops) == 1:
            l = self.as_real(self.expr(node.left), node.left)
            r = self.as_real(self.expr(node.comparators[0]), node.comparators[0])
            shape = self.join(l, r, node)
            op = node.ops[0]
            if isinstance(op, ast.Lt):
                return "(Rlt_dec %s %s)" % (l.coq, r.coq), shape
            if isinstance(op, ast.Gt):
                return "(Rlt_dec %s %s)" % (r.coq, l.coq), shape
            if isinstance(op, ast.LtE):
                return "(Rle_dec %s %s)" % (l.coq, r.coq), shape
            if isinstance(op, ast.GtE):
                return "(Rle_dec %s %s)" % (r.coq, l.coq), shape
        raise TranslateError("condition `%s` not in the accepted syntax" % _src(node))

    # ---- right-hand sides that build arrays -------------------------------------------------
    def nat_name(self, node):
        if isinstance(node, ast.Name) and node.id in self.env and self.env[node.id].kind == "nat":
            return self.env[node.id].coq
        raise TranslateError("`%s` must be one of the integer sizes" % _src(node))

    def rhs(self, node):
        if isinstance(node, ast.Call):
            f = ast.unparse(node.func)
            if f == "np.linspace":
                if node.keywords or len(node.args) != 3:
                    raise TranslateError("`%s`: np.linspace(start, stop, num) without keywords expected" % _src(node))
                a = self.expr(node.args[0])
                b = self.expr(node.args[1])
                if a.kind not in ("scalar", "nat") or b.kind not in ("scalar", "nat"):
                    raise TranslateError("`%s`: scalar end points expected" % _src(node))
                a, b = self.as_real(a, node), self.as_real(b, node)
                n = self.nat_name(node.args[2])
                return V("vec", at=(lambda idx, a=a.coq, b=b.coq, n=n: "(np_linspace %s %s %s %s)" % (a, b, n, idx)), length=n)
            if f == "np.zeros":
                if node.keywords or len(node.args) != 1 or not isinstance(node.args[0], (ast.List, ast.Tuple)) \
                        or len(node.args[0].elts) != 2:
                    raise TranslateError("`%s`: np.zeros([rows, cols]) expected" % _src(node))
                r, c = (self.nat_name(e) for e in node.args[0].elts)
                return V("grid", "0", shape=(r, c))
        v = self.expr(node)
        if v.kind == "nat":
            v = self.as_real(v, node)
        if v.kind not in ("scalar", "grid"):
            raise TranslateError("`%s`: a %s cannot be assigned whole" % (_src(node), v.kind))
        return v

    # ---- statements ---------------------------------------------------------------------------
    def assign(self, st):
        if len(st.targets) != 1:
            raise TranslateError("chained assignment `%s`" % _src(st))
        t = st.targets[0]
        if isinstance(t, ast.Name):
            if t.id in self.env and self.env[t.id].kind in ("nat", "str", "optpair"):
                raise TranslateError("`%s` re-binds %s" % (_src(st), t.id))
            self.env[t.id] = self.rhs(st.value)
            return [t.id]
        if isinstance(t, ast.Tuple) and len(t.elts) == 2 and all(isinstance(e, ast.Name) for e in t.elts) \
                and t.elts[0].id != t.elts[1].id:
            names = [e.id for e in t.elts]
            for n in names:
                if n in self.env and self.env[n].kind in ("nat", "str", "optpair", "pair"):
                    raise TranslateError("`%s` re-binds %s" % (_src(st), n))
            v = st.value
            if isinstance(v, ast.Name) and v.id in self.env and self.env[v.id].kind == "pair":
                a, b = self.env[v.id].elems
                self.env[names[0]], self.env[names[1]] = a, b
                return names
            if isinstance(v, ast.Call) and ast.unparse(v.func) == "np.meshgrid":
                kws = {k.arg: (k.value.value if isinstance(k.value, ast.Constant) else None) for k in v.keywords}
                if kws not in ({}, {"indexing": "xy"}, {"indexing": "ij"}) or len(v.args) != 2 or not all(
                        isinstance(a, ast.Name) and a.id in self.env and self.env[a.id].kind == "vec" for a in v.args):
                    raise TranslateError("`%s`: np.meshgrid(<vector>, <vector>[, indexing='xy'|'ij']) expected" % _src(st))
                x, y = (self.env[a.id] for a in v.args)
                if kws.get("indexing", "xy") == "xy":     # result[j, i] = (first[i], second[j]), shape (len second, len first)
                    shape = (y.length, x.length)
                    self.env[names[0]] = V("grid", x.at("i_"), shape=shape)
                    self.env[names[1]] = V("grid", y.at("j_"), shape=shape)
                else:                                      # 'ij': result[j, i] = (first[j], second[i]), shape (len first, len second)
                    shape = (x.length, y.length)
                    self.env[names[0]] = V("grid", x.at("j_"), shape=shape)
                    self.env[names[1]] = V("grid", y.at("i_"), shape=shape)
                return names
            if isinstance(v, ast.Tuple) and len(v.elts) == 2:
                a, b = self.rhs(v.elts[0]), self.rhs(v.elts[1])   # simultaneous: both read before either is bound
                self.env[names[0]], self.env[names[1]] = a, b
                return names
        raise TranslateError("assignment `%s` not in the accepted syntax" % _src(st))

    def if_none(self, st):
        """if <optpair> is None: <same name> = (e1, e2)"""
        t = st.test
        if not (isinstance(t, ast.Compare) and len(t.ops) == 1 and isinstance(t.ops[0], ast.Is) and isinstance(t.left, ast.Name)
                and isinstance(t.comparators[0], ast.Constant) and t.comparators[0].value is None):
            return False
        nm = t.left.id
        if nm not in self.env or self.env[nm].kind != "optpair":
            raise TranslateError("`if %s`: only the optional location may be tested for None" % _src(t))
        if st.orelse or len(st.body) != 1:
            raise TranslateError("`if %s`: exactly one statement, no else expected" % _src(t))
        b = st.body[0]
        if not (isinstance(b, ast.Assign) and len(b.targets) == 1 and isinstance(b.targets[0], ast.Name) and b.targets[0].id == nm
                and isinstance(b.value, ast.Tuple) and len(b.value.elts) == 2):
            raise TranslateError("`if %s`: body `%s` is not `%s = (e1, e2)`" % (_src(t), _src(b), nm))
        opt = self.env[nm].coq
        comps = []
        for k, e in enumerate(b.value.elts):
            v = self.expr(e)
            if v.kind == "nat":
                v = self.as_real(v, e)
            if v.kind != "scalar":
                raise TranslateError("default location component `%s` is not a scalar" % _src(e))
            comps.append(V("scalar", "(match %s with None => %s | Some p_ => %s p_ end)" % (opt, v.coq, ("fst", "snd")[k])))
        self.env[nm] = V("pair", elems=tuple(comps))
        return True

    def if_shape(self, st):
        """if <str name> == "<literal>": assignments"""
        t = st.test
        if not (isinstance(t, ast.Compare) and len(t.ops) == 1 and isinstance(t.ops[0], ast.Eq) and isinstance(t.left, ast.Name)
                and t.left.id in self.env and self.env[t.left.id].kind == "str"
                and isinstance(t.comparators[0], ast.Constant) and isinstance(t.comparators[0].value, str)):
            return False
        lit = t.comparators[0].value
        if not lit.isascii() or '"' in lit or "\\" in lit or not lit.isprintable():
            raise TranslateError("shape literal %r" % lit)
        if st.orelse:
            raise TranslateError("`if %s` has an else branch" % _src(t))
        c = '(String.eqb %s "%s")' % (self.env[t.left.id].coq, lit)
        outer = dict(self.env)
        assigned = []
        for b in st.body:
            if not isinstance(b, ast.Assign):
                raise TranslateError("statement `%s` inside `if %s` is not an assignment" % (_src(b), _src(t)))
            for n in self.assign(b):
                if n not in assigned:
                    assigned.append(n)
        inner = self.env
        self.env = outer
        for n in assigned:
            new = inner[n]
            if n not in outer:
                continue  # first bound inside the block: local to it
            old = outer[n]
            if old.kind not in ("scalar", "grid") or new.kind not in ("scalar", "grid"):
                raise TranslateError("`%s` is re-bound conditionally with a %s" % (n, new.kind))
            shape = old.shape if old.kind == "grid" else None
            if new.kind == "grid":
                if shape is not None and new.shape != shape:
                    raise TranslateError("`%s` changes its shape conditionally: %r vs %r" % (n, new.shape, shape))
                shape = new.shape
            self.env[n] = self.mk("(if %s then %s else %s)" % (c, new.coq, old.coq), shape)
        return True

    def function(self, fn):
        a = fn.args
        if fn.decorator_list or a.vararg or a.kwarg or a.kwonlyargs or a.kw_defaults or getattr(a, "posonlyargs", []):
            raise TranslateError("signature of %s: decorator / *args / **kwargs / keyword-only parameters" % FUNC)
        if [x.arg for x in a.args] != SIG:
            raise TranslateError("signature of %s is %r, expected %r" % (FUNC, [x.arg for x in a.args], SIG))
        if len(a.defaults) != 2 or not (isinstance(a.defaults[0], ast.Constant) and a.defaults[0].value is None) \
                or not (isinstance(a.defaults[1], ast.Constant) and isinstance(a.defaults[1].value, str)):
            raise TranslateError("defaults of %s: expected src_loc=None, shape=<string literal>" % FUNC)
        default_shape = a.defaults[1].value
        if not default_shape.isascii() or '"' in default_shape or not default_shape.isprintable():
            raise TranslateError("default shape literal %r" % default_shape)
        self.env = {
            "nxy": V("pair", elems=(V("nat", "nxy_0"), V("nat", "nxy_1"))),
            "domain": V("pair", elems=(V("scalar", "domain_0"), V("scalar", "domain_1"))),
            "src_loc": V("optpair", "src_loc"),
            "shape": V("str", "shape"),
        }
        body = list(fn.body)
        if body and isinstance(body[0], ast.Expr) and isinstance(body[0].value, ast.Constant) and isinstance(body[0].value.value, str):
            body = body[1:]
        if not body or not isinstance(body[-1], ast.Return):
            raise TranslateError("%s does not end in a return statement" % FUNC)
        for st in body[:-1]:
            if isinstance(st, ast.Assign):
                self.assign(st)
            elif isinstance(st, ast.If):
                if not (self.if_none(st) or self.if_shape(st)):
                    raise TranslateError("`if %s`: not `<src_loc> is None` / `shape == \"literal\"`" % _src(st.test))
            else:
                raise TranslateError("statement `%s` not in the accepted syntax" % _src(st))
        ret = body[-1].value
        if ret is None:
            raise TranslateError("bare return")
        v = self.expr(ret)
        if v.kind != "grid":
            raise TranslateError("%s returns a %s, not a 2-d array" % (FUNC, v.kind))
        return default_shape, v


def _bound_names(st):
    """names a module-level statement binds"""
    out = []
    if isinstance(st, (ast.FunctionDef, ast.AsyncFunctionDef, ast.ClassDef)):
        out.append(st.name)
    elif isinstance(st, (ast.Import, ast.ImportFrom)):
        for a in st.names:
            out.append((a.asname or a.name).split(".")[0])
    else:
        for node in ast.walk(st):
            if isinstance(node, ast.Name) and isinstance(node.ctx, (ast.Store, ast.Del)):
                out.append(node.id)
            elif isinstance(node, (ast.Global, ast.Nonlocal)):
                out.extend(node.names)
    return out


def _module_bindings(tree, fn):
    """`ideal_source` is bound exactly once at module level (this def), `np` exactly once (import numpy as np); no function
    of the module declares either name global"""
    n_fn = n_np = 0
    for st in tree.body:
        names = _bound_names(st) if not isinstance(st, (ast.FunctionDef, ast.AsyncFunctionDef, ast.ClassDef)) else [st.name]
        n_fn += names.count(FUNC)
        n_np += names.count("np")
        if "np" in names and not (isinstance(st, ast.Import) and any(a.name == "numpy" and a.asname == "np" for a in st.names)):
            raise TranslateError("module-level statement `%s` binds np" % _src(st))
        if isinstance(st, (ast.FunctionDef, ast.AsyncFunctionDef, ast.ClassDef)):
            for node in ast.walk(st):
                if isinstance(node, (ast.Global, ast.Nonlocal)) and (FUNC in node.names or "np" in node.names):
                    raise TranslateError("`%s` in %s" % (_src(node), st.name))
    if n_fn != 1:
        raise TranslateError("%s is bound %d times at module level" % (FUNC, n_fn))
    if n_np != 1:
        raise TranslateError("np is bound %d times at module level (expected: import numpy as np)" % n_np)
    for node in ast.walk(fn):
        if isinstance(node, ast.Name) and isinstance(node.ctx, ast.Store) and node.id in ("np", "abs", FUNC):
            raise TranslateError("%s re-binds %s locally" % (FUNC, node.id))


def generate(path=None):
    path = path or UTILS()
    src = open(path).read()
    tree = ast.parse(src)
    py2coq._annotate_float_text(tree, src)
    fn = py2coq.find_function(tree, FUNC)
    if not isinstance(fn, ast.FunctionDef):
        raise TranslateError("%s is not a plain function" % FUNC)
    _module_bindings(tree, fn)
    default_shape, v = Tr().function(fn)
    return ("From Coq Require Import Reals String.\nFrom BL Require Import Model.IdealSource.\nOpen Scope R_scope.\n"
            "(* generated from %s::%s by harness/idealslices.py *)\n"
            'Definition gen_ideal_default_shape : string := "%s"%%string.\n'
            "Definition gen_ideal_shape (nxy_0 nxy_1 : nat) : nat * nat := (%s, %s).\n"
            "Definition gen_ideal_source_cell (shape : string) (nxy_0 nxy_1 : nat) (domain_0 domain_1 : R)\n"
            "    (src_loc : option (R * R)) (j_ i_ : nat) : R :=\n  %s.\n"
            % (os.path.basename(path), FUNC, default_shape, v.shape[0], v.shape[1], v.coq))


def run(ctx):
    try:
        text = generate()
    except TranslateError as e:
        ctx.obligation("gen:GenIdeal.v", False, "ideal_source translator failed closed: %s" % e)
        return False
    except (OSError, SyntaxError) as e:
        ctx.obligation("gen:GenIdeal.v", False, "cannot read/parse utils.py: %s" % e)
        return False
    ctx.cov["ideal_source_statements_translated"] = "whole function"
    return core.run_bridge(ctx, {"GenIdeal.v": text}, ["IdealBridge.v"])


if __name__ == "__main__":
    import sys
    print(generate(sys.argv[1] if len(sys.argv) > 1 else None))
