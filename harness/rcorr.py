"""Interval-certified correspondence for models over Coq's R (DESIGN.md 4.A, regime 3).

A case is a closed proposition about the real-number model, e.g.
    Rabs (fst (latlon_to_xy (a/b) (c/d) (e/f) (g/h)) - (p/q)) <= 1 / 1000000
where every input is the EXACT rational value of the IEEE double that was handed to the Python
function and p/q is the exact rational value of the double it returned.  The proposition is proved by
the `interval` tactic (rigorous interval arithmetic, 80-bit precision) and closed with Qed, i.e. the
kernel checks that the real-number model evaluated at exactly these inputs lies within tol of what the
implementation returned.

Phase 1 compiles every shard with `Lemma ... Qed.`; a shard that fails is re-run in diagnostic
mode (one `tryif assert_succeeds` per case) to list every failing case."""
import re
from concurrent.futures import ThreadPoolExecutor
from fractions import Fraction

import core

HEADER = ("From Coq Require Import Reals.\nFrom Interval Require Import Tactic.\n"
          "Open Scope R_scope.\n")


def rlit(x):
    """exact rational value of a Python float / int as a Coq R term"""
    fr = Fraction(x)
    n, d = fr.numerator, fr.denominator
    if d == 1:
        return "(%d)" % n if n >= 0 else "(- %d)" % -n
    return "(%d / %d)" % (n, d) if n >= 0 else "(- %d / %d)" % (-n, d)


def _shard_text(header, unfold, cases, diagnostic):
    lines = [header]
    tac = "%s interval with (i_prec 80)" % unfold
    for k, (cid, prop) in enumerate(cases):
        if diagnostic:
            lines.append('Goal True. tryif assert_succeeds (assert (%s) by (%s)) then idtac "CASE %s OK" else idtac "CASE %s FAIL". Abort.'
                         % (prop, tac, cid, cid))
        else:
            lines.append("Lemma case_%d : %s.\nProof. %s. Qed." % (k, prop, tac))
    return "\n".join(lines) + "\n"


def certify(ctx, prefix, header, unfold, cases, shard=60, jobs=12, timeout=600):
    """cases: [(case_id, prop_text)].  Returns (set of failing ids, error text or None).
    `unfold` is a tactic prefix ending in ';' that exposes the arithmetic to `interval`."""
    shards = [cases[i:i + shard] for i in range(0, len(cases), shard)]
    failing = set()
    errs = []

    def one(k):
        p = ctx.write("%s_%03d.v" % (prefix, k), _shard_text(header, unfold, shards[k], False))
        rc, out, err, dt = ctx.coqc(p, timeout=timeout)
        if rc == 0:
            return k, [], None
        # diagnostic pass: which cases fail
        p2 = ctx.write("%s_%03d_diag.v" % (prefix, k), _shard_text(header, unfold, shards[k], True))
        rc2, out2, err2, dt2 = ctx.coqc(p2, timeout=timeout)
        res = {}
        for line in (out2 + "\n" + err2).splitlines():
            m = re.match(r"^CASE (\S+) (OK|FAIL)$", line.strip())
            if m:
                res[m.group(1)] = m.group(2)
        bad = [cid for cid, _ in shards[k] if res.get(cid) != "OK"]
        msg = None
        if rc2 != 0 or not bad:
            msg = "shard %d: coqc rc=%d/%d: %s" % (k, rc, rc2, (out + err)[-600:] + (out2 + err2)[-600:])
            if not bad:
                bad = [cid for cid, _ in shards[k]]
        return k, bad, msg

    with ThreadPoolExecutor(max_workers=jobs) as ex:
        for k, bad, msg in ex.map(one, range(len(shards))):
            failing.update(bad)
            if msg:
                errs.append(msg)
    return failing, ("\n".join(errs)[-3000:] if errs else None)
