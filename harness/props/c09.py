"""C09 — closure profiles are self-consistent with similarity theory and the grid.

check():  (1) Print Assumptions of the theorems in Properties/C09.v (over R: stdlib real axioms allowed);
          (2) slices of pbl_model.py / ffm_kormann_meixner.py re-extracted -> Gen/GenPbl.v, bridge lemmas
              re-proved (Bridge/PblBridge.v), plus the fail-closed structure check of the statements that are
              not scalar formulas (harness/pblslices.py);
          (2b) the WHOLE bodies of vertical_profiles / psi / phi re-translated (harness/py2coq_pbl.py) -> Gen/GenPblFun.v, and
              Bridge/PblFunBridge.v re-proved: interpreted description = Model/Pbl.v for ALL arguments (control structure,
              defaults, raises, grid, aliasing); compiled in a worker thread while (3) runs;
          (3) INTERVAL-CERTIFIED correspondence: vertical_profiles / psi / phi / _psiM / _phiM / _phiC are run
              on generated binary64 inputs; for every case a Coq lemma is emitted and proved (kernel-checked,
              Qed) stating, on the EXACT rationals of the inputs,
                  make_env <inputs> = Some E,   e_nnodes E = len(z)   (exact),
                  |model entry - exact rational of the Python entry| <= tol     for z,u,v,Kx,Ky,Kz, node by node.
              Tolerances (documented, justified by binary64 rounding; the property text gives none for this tie):
                  z:        1e-9 * zm                        (rounding error is a few ulp of h = 2 zm, ~1e-15 zm)
                  u, v:     1e-9 * max(|value|, |wind|)      (ln(z/z0) near the lowest node cancels: absolute
                                                              error ~ eps * h/z0 * ustar/kap  <= 1e-11 |wind| for
                                                              the generated h/z0 <= 4e4)
                  K's:      1e-9 * max(|value|, max|Kz|)
                  psi:      1e-9 * |value| (+ 1e-14 on the unstable side: the branch formula sums four terms of
                            size up to pi/2, each rounded to ~2e-16, while psi itself is ~4|x| down to 4e-9)
                  phi, km:  same rule as psi for _psiM, 1e-9 relative for phi/_phiM/_phiC
              Generators keep 0 < z0 <= 0.9 zm (derived z0 from stable L with small ustar can exceed zm -> NaN,
              outside the property's quantifier), derived ustar > 0, and the real arange quotient at distance
              > 1e-6 from the integers (numpy takes the ceiling of the binary64 quotient).
oracle(): the property's own statement on the real code through the public API, independent of the model.
"""
import logging
import math
import os
import re
import sys
from concurrent.futures import ThreadPoolExecutor
from fractions import Fraction

import core
import pblslices
import py2coq
import py2coq_pbl

THEOREMS = [
    "C09_wind_at_zm", "C09_direction", "C09_direction_orientation", "C09_direction_refuted_unstable",
    "C09_psi_negative_when_unstable", "C09_speed_increasing", "C09_K_positive", "C09_grid",
    "C09_grid_any_stretch", "C09_roundtrip", "C09_psi_is_integral", "C09_continuity", "C09_km_copies",
    "C09_interface_level",
]
TRUSTED = [
    "Model/Pbl.v is hand-written over Coq's reals; every scalar formula of it is re-proved equal to the formula re-extracted from the current pbl_model.py / ffm_kormann_meixner.py (39 bridge lemmas, one per slice), the non-scalar statements (np.arange, aliasing Kx = Ky = Kz = K, branch structure, the interface's call n=dom.nz, meas_height=tower.z_m, default level dom.nz) by a fail-closed comparison of their unparsed AST, and the whole function by interval-certified correspondence of its outputs",
    "function-level tie: harness/py2coq_pbl.py translates the WHOLE current bodies of vertical_profiles, psi, phi (fail closed outside its fragment) into the deep embedding of Model/PblDesc.v; Bridge/PblFunBridge.v proves for ALL arguments (any closure string, any combination of given/omitted ustar, z0, mol, prsc, closure, domain_height, stretch, z0_min, z0_max, tke, any n, any wind) that the interpreted description raises exactly when Model/Pbl.make_env is None (with the exception the code raises: ValueError for an unknown closure or both z0 and ustar given, TypeError for a missing one, ZeroDivisionError for n = 0, IndexError for an empty grid) and otherwise returns (z, (u, v, Kx, Ky, Kz)) with e_nnodes entries equal to the model's node functions at every index, Kx, Ky, Kz being one array object except for MOSTM. Trusted there: the interpreter's reading of numpy (elementwise ufuncs and broadcasting of a number against a 1-d array, np.where as if-then-else, np.ones(len(z)), np.squeeze(x).item() and np.array(x)[..., np.newaxis] of a number as that number, logger calls evaluate their arguments and do nothing else, max/min/z[0] raise on an empty array), exact total real arithmetic (no ZeroDivisionError for a Python-float divisor such as mol = 0.0, no overflow/NaN), arguments being numbers (not arrays / explicit None for mol, prsc)",
    "numpy's arange is modelled as: length = exact ceiling of the REAL quotient (zetamx+dzeta)/dzeta, element i = i*dzeta; numpy evaluates the quotient in binary64 (cases within 1e-6 of an integer are not generated)",
    "np.power(b, e, dtype=complex).real with b > 0 and b ** e are modelled by Rpower; np.where by if-then-else on Rlt_dec (np.nan of the unselected branch is never used: bridge lemma)",
    "Coq Interval library (interval, interval_intro) — its proofs are re-checked by the kernel at Qed; they use primitive 63-bit integers / floats of the Coq kernel",
    "Coquelicot (is_derive, is_RInt, filterlim) for the statements about derivative, integral and limits of psi/phi",
]
ASSUMPTIONS = [
    "exact real arithmetic: the theorems do not cover IEEE rounding (e.g. z[n] == zm holds to ~1e-15 in binary64, checked by the oracle at 1e-12)",
    "hypotheses of the theorems, all inside the property's quantifier: n >= 1, 0 < z0 < zm (for a ustar-given call: the DERIVED z0 is below zm), non-zero wind, ustar > 0 (z0-given: ln(zm/z0)+psi(zm/L) <> 0, i.e. the derived ustar is finite), prsc > 0, tke > 0, L <> 0; C09_grid/C09_interface_level: default stretch and domain height (what the interface uses); C09_grid_any_stretch needs one zeta-step to fit between zetamx and aa (otherwise numpy's log gets a non-positive argument at the last node)",
    "wind direction is formalised as collinearity u*vm = v*um; for negative Obukhov length the wind speed at the lowest node ustar/kap*psi(z0/L) is slightly NEGATIVE (anti-parallel, about 4 z0/|L| ustar/kap; the code omits the +Psi(z0/L) term) — proved as Example C09_unstable_node0_reversed, orientation proved for L > 0, CONSTANT, OAAHOC (C09_direction_orientation)",
    "MOSTM: Kx + Ky = Kz holds wherever the wind does not vanish (0/0 otherwise)",
    "OAAHOC ignores a supplied z0 (always derives it from ustar and tke): no round trip exists for it",
    "psi is the code's sign convention: the quantity ADDED to ln(z/z0), i.e. minus the usual Psi_m; the theorem is d/dx psi = (phi_m - 1)/x with phi_m the Businger-Dyer momentum function (= _phiM of the reference model; pbl_model.phi is phi_c = _phiC)",
]

_IMPL = None
JOBS = 12


# ---------------------------------------------------------------------------------------------
# tie (B) at function level: whole bodies of vertical_profiles / psi / phi -> Gen/GenPblFun.v -> Bridge/PblFunBridge.v


class _Recorder:
    """stands in for ctx inside the worker thread: compiles through ctx, keeps the obligations for the main thread"""

    def __init__(self, ctx):
        self.ctx, self.build, self.obligations = ctx, ctx.build, []

    def write(self, name, text):
        return self.ctx.write(name, text)

    def coqc(self, path, timeout=300, extra_q=()):
        return self.ctx.coqc(path, timeout=min(timeout, 240), extra_q=extra_q)

    def obligation(self, name, ok, detail=""):
        self.obligations.append((name, ok, detail))


def function_bridge_start(ctx):
    """translate now (fail closed), compile generated file + bridge in a worker thread while the certified
    correspondence runs; function_bridge_finish registers the obligations"""
    rec = _Recorder(ctx)
    try:
        text, stats = py2coq_pbl.translate(os.path.join(core.SRC, "bldfm", "pbl_model.py"))
    except py2coq.TranslateError as e:
        rec.obligation("gen:GenPblFun.v", False, "whole-function translator failed closed: %s" % e)
        return rec, None, None
    except Exception as e:  # fail closed
        rec.obligation("gen:GenPblFun.v", False, "whole-function translator crashed: %r" % (e,))
        return rec, None, None
    ex = ThreadPoolExecutor(max_workers=1)
    fut = ex.submit(core.run_bridge, rec, {"GenPblFun.v": text}, ["PblFunBridge.v"])
    ex.shutdown(wait=False)
    return rec, fut, stats


def function_bridge_finish(ctx, handle):
    rec, fut, stats = handle
    ok = False
    if fut is not None:
        try:
            ok = bool(fut.result())
        except Exception as e:  # fail closed
            rec.obligation("bridge:bridge_fun_vertical_profiles", False, "bridge compilation crashed: %r" % (e,))
    for name, good, detail in rec.obligations:
        ctx.obligation(name, good, detail)
    if stats:
        ctx.cov["function_level_tie"] = dict(stats, functions=["vertical_profiles", "psi", "phi"], bridged=ok)
    return ok


def impl():
    global _IMPL
    if _IMPL is None:
        if core.SRC not in sys.path:
            sys.path.insert(0, core.SRC)
        logging.disable(logging.CRITICAL)
        import numpy as np
        import bldfm.pbl_model as pm
        import bldfm.ffm_kormann_meixner as km

        np.seterr(all="ignore")
        _IMPL = (np, pm, km)
    return _IMPL


# ---------------------------------------------------------------------------------------------
# literals


def ql(x):
    """exact rational of a binary64 value as a Coq real literal"""
    f = Fraction(float(x))
    if f >= 0:
        return "(%d / %d)" % (f.numerator, f.denominator)
    return "(- %d / %d)" % (-f.numerator, f.denominator)


def qf(f):
    f = Fraction(f)
    assert f >= 0
    return "(%d / %d)" % (f.numerator, f.denominator)


HEADER = ("From Coq Require Import Reals ZArith Lra.\nFrom Interval Require Import Tactic.\n"
          "From BL Require Import Model.Pbl Proofs.PblProofs Proofs.PblCorr.\nOpen Scope R_scope.\n")
REL = Fraction(1, 10 ** 9)

# ---------------------------------------------------------------------------------------------
# generated inputs

CLOSURES = ["MOST", "MOSTM", "CONSTANT", "OAAHOC"]


def call_impl(case):
    np, pm, km = impl()
    kw = dict(n=case["n"], meas_height=case["zm"], wind=(case["um"], case["vm"]), mol=case["mol"],
              prsc=case["prsc"], closure=case["closure"])
    if case.get("ustar") is not None:
        kw["ustar"] = case["ustar"]
    if case.get("z0") is not None:
        kw["z0"] = case["z0"]
    if case["closure"] == "OAAHOC":
        kw["tke"] = case["tke"]
    if case.get("stretch") is not None:
        kw["stretch"] = case["stretch"]
    if case.get("domain_height") is not None:
        kw["domain_height"] = case["domain_height"]
    z, (u, v, Kx, Ky, Kz) = pm.vertical_profiles(**kw)
    f = lambda a: [float(x) for x in np.asarray(a, dtype=float).ravel()]
    return f(z), f(u), f(v), f(Kx), f(Ky), f(Kz)


def admissible(case, out):
    """inside the property's quantifier and away from the rounding boundary of the node count"""
    z, u, v, Kx, Ky, Kz = out
    if not all(math.isfinite(x) for a in out for x in a):
        return False
    zm, n = case["zm"], case["n"]
    z0 = z[0]
    if not (0 < z0 <= 0.9 * zm) or zm / z0 > 2e4:
        return False
    if len(z) <= n or len({len(a) for a in out}) != 1:
        return True  # a length defect: let the correspondence see it
    h = case.get("stretch") or 2.0 * zm
    zmx = case.get("domain_height") or 2.0 * zm
    bb = zm / (math.exp(-z0 / h) - math.exp(-zm / h))
    q = (bb * math.exp(-z0 / h) - bb * math.exp(-zmx / h)) / (zm / n) + 1.0
    if abs(q - round(q)) < 1e-6:
        return False
    # derived ustar must be positive (z0-given): the wind speed at zm has the sign of ustar
    if case.get("ustar") is None:
        D = math.log(zm / case["z0"]) + float(impl()[1].psi(zm / case["mol"]))
        if D < 0.2:
            return False
    return True


def gen_cases(ctx):
    rng = ctx.rng
    mols = [-20.0, -1e9, 1e9, 50.0, -3.5, 400.0] if not ctx.thorough else [-20.0, -1e9, 1e9, 50.0, -3.5, 400.0, -150.0, 12.0, -1e3, 1e5]
    ns = [1, 2, 5, 11] if not ctx.thorough else [1, 2, 3, 5, 8, 13, 24, 40]
    cases = []
    k = 0
    for cl in CLOSURES:
        for mol in mols:
            for given in ("ustar", "z0"):
                if cl == "OAAHOC" and given == "z0":
                    continue
                reps = 1 if not ctx.thorough else 2
                for r in range(reps):
                    n = ns[k % len(ns)]
                    k += 1
                    for attempt in range(30):
                        zm = rng.choice([2.0, 3.7, 10.0, 25.0, 61.3])
                        ang = rng.uniform(0, 2 * math.pi)
                        sp = rng.uniform(0.8, 9.0)
                        case = dict(closure=cl, n=n, zm=zm, um=sp * math.cos(ang), vm=sp * math.sin(ang), mol=mol,
                                    prsc=rng.choice([1.0, 0.8, 0.71, 1.3]), tke=rng.choice([1.0, 0.35, 2.6]))
                        if given == "ustar":
                            case["ustar"] = rng.uniform(0.12, 0.9) if cl != "OAAHOC" else rng.uniform(0.25, 0.9)
                        else:
                            case["z0"] = zm * rng.choice([0.0008, 0.003, 0.01, 0.05, 0.2])
                        if (k + attempt) % 7 == 3:  # a non-default stretch / domain height now and then
                            case["stretch"] = zm * rng.choice([1.5, 3.0])
                            case["domain_height"] = zm * rng.choice([1.5, 2.5])
                        try:
                            out = call_impl(case)
                        except Exception:
                            continue
                        if admissible(case, out):
                            case["out"] = out
                            cases.append(case)
                            break
    return cases


def raising_cases():
    """argument combinations for which the model says the call raises (make_env = None)"""
    base = dict(n=3, zm=10.0, um=3.0, vm=1.0, mol=-50.0, prsc=1.0, tke=1.0)
    out = []
    for cl in CLOSURES:
        if cl != "OAAHOC":
            out.append(dict(base, closure=cl, ustar=0.4, z0=0.1))
        out.append(dict(base, closure=cl))
    out.append(dict(base, closure="OAAHOC", z0=0.1))
    out.append(dict(base, closure="OAAHOC", ustar=0.4, z0=0.1))  # does NOT raise: a supplied z0 is ignored
    out.append(dict(base, closure="MOST", ustar=0.4))  # does not raise
    return out


# ---------------------------------------------------------------------------------------------
# Coq text of one case


def node_subset(case, N, thorough):
    n = case["n"]
    want = {0, 1, n - 1, n, n + 1, N - 2, N - 1}
    if N <= (16 if thorough else 8):
        want |= set(range(N))
    elif thorough:
        want |= set(range(0, N, max(1, N // 12)))
    return sorted(i for i in want if 0 <= i < N)


def case_lemma(name, case, thorough):
    cl, n, zm, um, vm, mol, prsc, tke = (case[k] for k in ("closure", "n", "zm", "um", "vm", "mol", "prsc", "tke"))
    z, u, v, Kx, Ky, Kz = case["out"]
    N = len(z)
    dh = "None" if case.get("domain_height") is None else "(Some %s)" % ql(case["domain_height"])
    st = "None" if case.get("stretch") is None else "(Some %s)" % ql(case["stretch"])
    if case.get("ustar") is not None:
        us = case["ustar"]
        z0t = ("(z0_of_ustar %s A %s %s)" % (ql(zm), ql(us), ql(mol))) if cl != "OAAHOC" else \
              ("(z0_oaahoc %s A %s %s)" % (ql(zm), ql(tke), ql(us)))
        binders = "forall A, A = absum %s %s -> forall US, US = %s -> forall Z0, Z0 = %s ->" % (ql(um), ql(vm), ql(us), z0t)
        intro, encs = "intros A HA US HUS Z0 HZ0", "c09_enc HA; c09_enc HUS; c09_enc HZ0"
        args = "(Some %s) None" % ql(us)
    else:
        z0 = case["z0"]
        binders = "forall A, A = absum %s %s -> forall Z0, Z0 = %s -> forall US, US = (ustar_of_z0 %s A Z0 %s) ->" % (
            ql(um), ql(vm), ql(z0), ql(zm), ql(mol))
        intro, encs = "intros A HA Z0 HZ0 US HUS", "c09_enc HA; c09_enc HZ0; c09_enc HUS"
        args = "None (Some %s)" % ql(z0)
    E = "(mkEnv %s %s %s Z0 US %s %s %s (opt_default %s (h_default %s)) (opt_default %s (zmx_default %s)) %d)" % (
        ql(zm), ql(um), ql(vm), ql(mol), ql(prsc), ql(tke), st, ql(zm), dh, ql(zm), n)
    conj = ["make_env %s %d %s %s %s %s %s %s %s %s %s = Some E" % (cl, n, ql(zm), ql(um), ql(vm), args, ql(mol), ql(prsc), ql(tke), dh, st),
            "e_nnodes E = %d%%Z" % N]
    nodes = node_subset(case, N, thorough)
    wind = math.hypot(um, vm)
    kmax = max(abs(x) for x in Kz)
    nineq = 0
    for i in nodes:
        g = []
        for nm, arr, sc in (("e_znode", z, zm), ("u_node %s" % cl, u, wind), ("v_node %s" % cl, v, wind),
                            ("Kx_node %s" % cl, Kx, kmax), ("Ky_node %s" % cl, Ky, kmax), ("Kz_node %s" % cl, Kz, kmax)):
            tol = REL * max(abs(Fraction(arr[i])), Fraction(sc))
            g.append("Rabs (%s E %d - %s) <= %s" % (nm, i, ql(arr[i]), qf(tol)))
            nineq += 1
        conj.append(" /\\ ".join(g))
    txt = ["Lemma %s : %s\n  let E := %s in\n  %s." % (name, binders, E, " /\\\n  ".join("(%s)" % c for c in conj)),
           "Proof.", "  %s E." % intro,
           "  split; [first [ solve [unfold E; rewrite HUS, HZ0, HA; reflexivity] | (idtac \"C09FAIL\" 0 \"env\"; fail 2) ]|].",
           "  %s; subst E; c09_stage." % encs,
           "  split; [first [ solve [c09_count] | (idtac \"C09FAIL\" 0 \"count\"; fail 2) ]|]."]
    for i in nodes[:-1]:
        txt.append("  split; [c09_node %d%%Z|]." % i)
    txt.append("  c09_node %d%%Z." % nodes[-1])
    txt.append("Qed.")
    return "\n".join(txt) + "\n", nineq + 1, nodes


def describe(case):
    d = {k: case[k] for k in ("closure", "n", "zm", "um", "vm", "mol", "prsc", "tke") if k in case}
    for k in ("ustar", "z0", "stretch", "domain_height"):
        if case.get(k) is not None:
            d[k] = case[k]
    return d


def run_coq_file(ctx, fname, text, timeout=900):
    p = ctx.write(fname, HEADER + text)
    rc, out, err, dt = ctx.coqc(p, timeout=timeout)
    return rc, out + "\n" + err, dt


def certify_cases(ctx, cases, prefix, per_file=3):
    """returns {index: (ok, detail)}"""
    lem = {}
    for i, c in enumerate(cases):
        lem[i] = case_lemma("case_%d" % i, c, ctx.thorough)
    groups = [list(range(i, min(i + per_file, len(cases)))) for i in range(0, len(cases), per_file)]
    res = {}

    def run_group(g, tag):
        text = "\n".join(lem[i][0] for i in g)
        return run_coq_file(ctx, "%s_%s.v" % (prefix, tag), text)

    def one(g):
        rc, log, dt = run_group(g, "g%03d" % g[0])
        if rc == 0:
            return {i: (True, "") for i in g}
        if len(g) == 1:
            return {g[0]: (False, log)}
        r = {}
        for i in g:  # isolate
            rc1, log1, _ = run_group([i], "s%03d" % i)
            r[i] = (rc1 == 0, "" if rc1 == 0 else log1)
        return r

    with ThreadPoolExecutor(max_workers=JOBS) as ex:
        for r in ex.map(one, groups):
            res.update(r)
    return res, lem


def fail_tag(log):
    m = re.search(r'C09FAIL\s+\(?(-?\d+)\)?%?Z?\s+"?(\w+)"?', log)
    if m:
        return "node %s field %s" % (m.group(1), m.group(2))
    if "TIMEOUT" in log:
        return "timeout"
    return (log.strip().splitlines() or ["?"])[-1][:200]


# ---------------------------------------------------------------------------------------------
# psi / phi / km lattice


def lattice(ctx):
    xs = []
    steps = [k / 2.0 for k in range(-18, 3)]  # 1e-9 .. 1e1 in half decades
    for e in steps:
        for s in (1.0, -1.0):
            xs.append(s * 10.0 ** e)
    for _ in range(20 if not ctx.thorough else 120):
        xs.append(ctx.rng.choice([-1.0, 1.0]) * 10.0 ** ctx.rng.uniform(-9, 1))
    xs += [0.0, -0.0625, 0.0625, -1.0, 1.0, 2.5, -7.0]
    return xs


def point_lemmas(ctx):
    np, pm, km = impl()
    items = []  # (id, kind, statement, hint)
    for j, x in enumerate(lattice(ctx)):
        p = float(pm.psi(np.float64(x)))
        f = float(pm.phi(np.float64(x)))
        tol_psi = REL * abs(Fraction(p)) + (Fraction(1, 10 ** 14) if x <= 0 else 0)
        if tol_psi == 0:
            tol_psi = Fraction(1, 10 ** 14)
        items.append(("psi_%d" % j, "psi", "Rabs (psi %s - %s) <= %s" % (ql(x), ql(p), qf(tol_psi)), {"fn": "psi", "x": x}))
        items.append(("phi_%d" % j, "phi", "Rabs (phi %s - %s) <= %s" % (ql(x), ql(f), qf(REL * abs(Fraction(f)))), {"fn": "phi", "x": x}))
        if x != 0.0:
            # reference model's copies at (zm, L) with zm/L = x up to rounding: take zm a float, L = zm/x
            zm = ctx.rng.choice([2.0, 10.0, 33.5])
            L = zm / x
            a, b = np.asarray([zm], dtype=float), np.asarray([L], dtype=float)
            pm_, pc_, ps_ = float(km._phiM(a, b)[0]), float(km._phiC(a, b)[0]), float(km._psiM(a, b)[0])
            tol = REL * abs(Fraction(ps_)) + (Fraction(1, 10 ** 14) if L < 0 else 0)
            items.append(("kmpsi_%d" % j, "km", "Rabs (km_psiM %s %s - %s) <= %s" % (ql(zm), ql(L), ql(ps_), qf(tol)), {"fn": "_psiM", "zm": zm, "L": L}))
            items.append(("kmphic_%d" % j, "km", "Rabs (km_phiC %s %s - %s) <= %s" % (ql(zm), ql(L), ql(pc_), qf(REL * abs(Fraction(pc_)))), {"fn": "_phiC", "zm": zm, "L": L}))
            items.append(("kmphim_%d" % j, "km", "Rabs (km_phiM %s %s - %s) <= %s" % (ql(zm), ql(L), ql(pm_), qf(REL * abs(Fraction(pm_)))), {"fn": "_phiM", "zm": zm, "L": L}))
    return items


def certify_points(ctx, items, shard=40):
    groups = [items[i:i + shard] for i in range(0, len(items), shard)]
    bad = []

    def one(k):
        g = groups[k]
        out = []
        todo = list(g)
        rounds = 0
        while todo and rounds < 4:
            rounds += 1
            text = "\n".join("Lemma %s : %s.\nProof. first [ solve [c09_point] | (idtac \"C09FAIL\" %d \"pt\"; fail 2) ]. Qed." % (it[0], it[2], idx)
                             for idx, it in enumerate(todo))
            rc, log, dt = run_coq_file(ctx, "c09pts_%03d_%d.v" % (k, rounds), text)
            if rc == 0:
                return out
            m = re.search(r"C09FAIL\s+\(?(\d+)", log)
            if not m:
                out.append((todo[0], "coqc failed: " + log[-400:]))
                return out
            idx = int(m.group(1))
            out.append((todo[idx], "interval could not certify the bound"))
            todo = todo[idx + 1:]
        for it in todo:
            out.append((it, "not reached (earlier points of the shard failed)"))
        return out

    with ThreadPoolExecutor(max_workers=JOBS) as ex:
        for r in ex.map(one, range(len(groups))):
            bad += r
    return bad


# ---------------------------------------------------------------------------------------------
# check


def check(ctx):
    # coqchk on this file re-checks Interval, Flocq and Coquelicot (three theorems bound exp(-1/2), exp(-1) with `interval`): it does
    # not finish within 40 minutes on this machine (measured in the round-4 thorough pass), so it is not part of the thorough tier
    # (as for Properties/C19Num.v); Print Assumptions of every theorem is still compared with the allow-list on every run.
    core.check_properties_file(ctx, "Properties/C09.v", THEOREMS, core.AX_REALS, coqchk=False)
    pblslices.run(ctx)
    fb = function_bridge_start(ctx)
    np, pm, km = impl()
    cases = gen_cases(ctx)
    res, lem = certify_cases(ctx, cases, "c09case")
    nfail = 0
    nineq = 0
    for i, c in enumerate(cases):
        ok, log = res.get(i, (False, "no result"))
        if ok:
            nineq += lem[i][1]
        else:
            nfail += 1
            if nfail <= 12:
                ctx.fail("correspondence", "C09:case-%d" % i, "model and vertical_profiles disagree (%s) on %r" % (fail_tag(log), describe(c)),
                         hint={"case": describe(c), "where": fail_tag(log)})
    # raising combinations: model None <-> implementation raises
    rtext = []
    rbad = []
    for j, c in enumerate(raising_cases()):
        try:
            call_impl(c)
            raised = False
        except Exception:
            raised = True
        us = "None" if c.get("ustar") is None else "(Some %s)" % ql(c["ustar"])
        z0 = "None" if c.get("z0") is None else "(Some %s)" % ql(c["z0"])
        term = "make_env %s %d %s %s %s %s %s %s %s %s None None" % (c["closure"], c["n"], ql(c["zm"]), ql(c["um"]), ql(c["vm"]), us, z0, ql(c["mol"]), ql(c["prsc"]), ql(c["tke"]))
        rtext.append("Lemma raise_%d : %s %s None.\nProof. %s Qed." % (j, term, "=" if raised else "<>", "reflexivity." if raised else "discriminate."))
    rc, log, dt = run_coq_file(ctx, "c09raise.v", "\n".join(rtext))
    if rc != 0:
        ctx.fail("correspondence", "C09:raising-combinations", log[-600:], hint={"raising": True})
    # stability functions on the lattice
    items = point_lemmas(ctx)
    pbad = certify_points(ctx, items)
    for it, why in pbad[:12]:
        ctx.fail("correspondence", "C09:point-%s" % it[0], "%s: %s" % (why, it[2][:300]), hint={"point": it[3]})
    function_bridge_finish(ctx, fb)
    hist = {}
    for c in cases:
        key = "%s/%s/%s" % (c["closure"], "ustar" if c.get("ustar") is not None else "z0",
                            "neutral" if abs(c["mol"]) >= 1e8 else ("stable" if c["mol"] > 0 else "unstable"))
        hist[key] = hist.get(key, 0) + 1
    ctx.cov.update({
        "evaluations": nineq + len(items) - len(pbad) + len(rtext),
        "distinct_nontrivial": sum(1 for i, c in enumerate(cases) if res.get(i, (False,))[0] and len(c["out"][0]) > c["n"] + 1),
        "rule": "vertical_profiles on random binary64 inputs over closures x Obukhov lengths (both signs, |L|=1e9 neutral) x ustar-given/z0-given x layer counts (x non-default stretch/domain height now and then); per case: exact len(z), and z,u,v,Kx,Ky,Kz at nodes {0,1,n-1,n,n+1,N-2,N-1} (all nodes when N<=8, thorough: when N<=16, else every (N//12)-th in addition) certified by Coq interval proofs on the exact rationals; psi/phi/_psiM/_phiC/_phiM on a log lattice |x| = 1e-9..10 of both signs plus random points; non-trivial = certified case with more than n+1 nodes",
        "cases": len(cases), "cases_certified": len(cases) - nfail, "inequalities_certified": nineq,
        "lattice_points": len(items), "lattice_failed": len(pbad), "raising_combinations": len(rtext),
        "samples": [describe(c) for c in cases[:: max(1, len(cases) // 5)]][:6],
        "histogram": hist,
    })


# ---------------------------------------------------------------------------------------------
# oracle: the property's own statement on the real code


def phim_ref(t):
    return (1.0 - 16.0 * t) ** -0.25 if t < 0 else 1.0 + 5.0 * t


def phic_ref(t):
    return (1.0 - 16.0 * t) ** -0.5 if t < 0 else 1.0 + 5.0 * t


def psi_ref(x):
    if x > 0:
        return 5.0 * x
    xi = (1.0 - 16.0 * x) ** 0.25
    return -2.0 * math.log(0.5 * (1.0 + xi)) - math.log(0.5 * (1.0 + xi * xi)) + 2.0 * math.atan(xi) - 0.5 * math.pi


def in_quantifier(c):
    """the property's quantifier, decided from the INPUTS with textbook formulas (not from the code's output):
    roughness length (given or implied by ustar) in (0, 0.95 zm), friction velocity (given or implied) positive"""
    zm, wind = c["zm"], math.hypot(c["um"], c["vm"])
    if c["closure"] == "OAAHOC":
        if c.get("ustar") is None:
            return False
        z0 = zm * math.exp(-0.0856 * 0.845 * wind * math.sqrt(c["tke"]) / c["ustar"] ** 2)
    elif c.get("ustar") is not None and c.get("z0") is None:
        z0 = zm * math.exp(-0.4 * wind / c["ustar"] + psi_ref(zm / c["mol"]))
    elif c.get("z0") is not None and c.get("ustar") is None:
        z0 = c["z0"]
        if math.log(zm / z0) + psi_ref(zm / c["mol"]) < 0.05:
            return False
    else:
        return False
    return math.isfinite(z0) and 0 < z0 < 0.95 * zm and zm / z0 < 1e5 and wind > 0


def probe_profiles(case):
    """list of (signature, detail)"""
    np, pm, km = impl()
    out = []
    try:
        z, u, v, Kx, Ky, Kz = (np.asarray(a) for a in call_impl(case))
    except Exception as e:
        return [("raises:" + type(e).__name__, str(e)[:200])]
    n, zm, um, vm = case["n"], case["zm"], case["um"], case["vm"]
    cl = case["closure"]
    if not all(np.all(np.isfinite(a)) for a in (z, u, v, Kx, Ky, Kz)):
        return [("grid:nan", "non-finite entries: z0=%r" % (z[0],))]
    if len({len(a) for a in (z, u, v, Kx, Ky, Kz)}) != 1:
        out.append(("len-mismatch", "lengths %r" % [len(a) for a in (z, u, v, Kx, Ky, Kz)]))
    if len(z) <= n:
        out.append(("grid:zm-not-at-index-n", "only %d nodes for n=%d" % (len(z), n)))
        return out
    wind = math.hypot(um, vm)
    if abs(z[n] - zm) > 1e-12 * zm:
        out.append(("grid:zm-not-at-index-n", "z[n]=%.17g, zm=%.17g" % (z[n], zm)))
    if abs(u[n] - um) > 1e-12 * wind or abs(v[n] - vm) > 1e-12 * wind:
        out.append(("wind-at-zm", "wind at index n (%.17g, %.17g) vs supplied (%.17g, %.17g)" % (u[n], v[n], um, vm)))
    cross = np.abs(u * vm - v * um)
    if cross.max() > 1e-12 * wind * max(wind, np.abs(u).max(), np.abs(v).max()):
        out.append(("direction:not-collinear", "max |u*vm - v*um| = %.3g" % cross.max()))
    # orientation: the wind at every node must point the way the measured wind does (dot product >= 0)
    dot = u * um + v * vm
    # (tolerance as in the correspondence: the rounding of z[0] against z0 is amplified by h/z0 in ln(z[0]/z0))
    rev = [int(i) for i in np.nonzero(dot < -1e-9 * wind * wind)[0]]
    if rev:
        if rev == list(range(len(rev))) and len(rev) <= n and cl in ("MOST", "MOSTM") and case["mol"] < 0:
            # one root cause: the speed ustar/kap*(ln(z/z0) + psi(z/L)) is negative at z0 for every L < 0 and stays
            # negative up to the height where ln(z/z0) = -psi(z/L), always below the measurement height
            out.append(("direction:reversed-below-zm-unstable",
                        "wind at the lowest node%s %r, e.g. (%.6g, %.6g), is anti-parallel to the measured wind (%.6g, %.6g)" % ("s" if len(rev) > 1 else "", rev[:6], u[0], v[0], um, vm)))
        else:
            out.append(("direction:reversed", "wind at nodes %r is anti-parallel to the measured wind, e.g. (%.6g, %.6g) vs (%.6g, %.6g)" % (rev[:5], u[rev[0]], v[rev[0]], um, vm)))
    if not (np.all(Kz > 0) and np.all(Kx >= 0) and np.all(Ky >= 0) and (cl == "MOSTM" or (np.all(Kx > 0) and np.all(Ky > 0)))):
        out.append(("K:nonpositive", "min Kx,Ky,Kz = %.3g %.3g %.3g" % (Kx.min(), Ky.min(), Kz.min())))
    if not np.all(np.diff(z) > 0):
        out.append(("grid:not-increasing", "min dz = %.3g" % np.diff(z).min()))
    z0 = case.get("z0")
    ust = case.get("ustar")
    h = case.get("stretch") or 2.0 * zm
    if z0 is not None and cl != "OAAHOC":
        if abs(z[0] - z0) > 1e-12 * h:
            out.append(("grid:z0-not-first", "z[0]=%.17g, z0=%.17g" % (z[0], z0)))
    zmx = case.get("domain_height") or 2.0 * zm
    if z[-1] < zmx * (1 - 1e-12):
        out.append(("grid:top-below-domain", "z[-1]=%.17g < domain height %.17g" % (z[-1], zmx)))
    # similarity formula (independent textbook phi_c)
    kap = 0.4
    if ust is None and cl != "OAAHOC":
        ust = wind * kap / (math.log(zm / z0) + float(pm.psi(zm / case["mol"])))
    if cl in ("MOST", "MOSTM"):
        ref = np.array([kap * ust * zz / (phic_ref(zz / case["mol"]) * case["prsc"]) for zz in z])
        if np.abs(Kz - ref).max() > 1e-10 * np.abs(ref).max():
            out.append(("K:not-similarity-formula", "max |Kz - kap ustar z/(phi Pr)| = %.3g" % np.abs(Kz - ref).max()))
        if cl == "MOSTM":
            if np.abs(Kx + Ky - Kz).max() > 1e-10 * Kz.max():
                out.append(("K:mostm-split", "max |Kx+Ky-Kz| = %.3g" % np.abs(Kx + Ky - Kz).max()))
        elif not (np.array_equal(Kx, Kz) and np.array_equal(Ky, Kz)):
            out.append(("K:not-isotropic", "Kx, Ky differ from Kz"))
    elif cl == "CONSTANT":
        ref = kap * ust * zm / case["prsc"]
        if np.abs(Kz - ref).max() > 1e-12 * ref or not (np.array_equal(Kx, Kz) and np.array_equal(Ky, Kz)):
            out.append(("K:not-similarity-formula", "CONSTANT K differs from kap ustar zm/Pr by %.3g" % np.abs(Kz - ref).max()))
    # round trip ustar -> z0 -> ustar
    if case.get("ustar") is not None and cl != "OAAHOC":
        c2 = dict(case)
        c2.pop("ustar")
        c2["z0"] = float(z[0])
        try:
            r2 = [np.asarray(a) for a in call_impl(c2)]
            if len(r2[0]) != len(z):
                out.append(("roundtrip", "lengths differ %d vs %d" % (len(r2[0]), len(z))))
            else:
                scales = [zm, wind, wind, Kz.max(), Kz.max(), Kz.max()]
                d = max(float(np.abs(a - b).max()) / s for a, b, s in zip(r2, (z, u, v, Kx, Ky, Kz), scales))
                # amplification of the rounding of z[0] by the conditioning h/z0 of the first node
                if d > 1e-10 * max(1.0, 1e-3 * h / z[0]):
                    out.append(("roundtrip", "profiles from ustar and from the z0 it yields differ by %.3g (relative)" % d))
        except Exception as e:
            out.append(("roundtrip", "second call raises %r" % (e,)))
    return out


def probe_functions(rng, npts):
    np, pm, km = impl()
    from scipy.integrate import quad

    out = []
    xs = [s * 10.0 ** rng.uniform(-6, 1) for s in (1, -1) for _ in range(npts)] + [-2.0, -0.5, 0.3, 2.0, 1e-3, -1e-3]
    for x in xs:
        I, err = quad(lambda t: (phim_ref(t) - 1.0) / t, 0.0, x, epsabs=1e-13, epsrel=1e-12, limit=200)
        p = float(pm.psi(x))
        if abs(p - I) > 1e-9 * max(abs(I), 1e-6) + 10 * err:
            out.append(("psi-not-integral", "psi(%r)=%.15g, integral of (phi_m-1)/t = %.15g" % (x, p, I)))
        zm = rng.choice([2.0, 10.0, 33.5])
        L = zm / x
        a, b = np.asarray([zm], dtype=float), np.asarray([L], dtype=float)
        xx = zm / L
        for nm, got, want in (("_psiM", float(km._psiM(a, b)[0]), float(pm.psi(xx))), ("_phiC", float(km._phiC(a, b)[0]), float(pm.phi(xx)))):
            if abs(got - want) > 1e-12 * max(abs(want), 1e-3):
                out.append(("km-copy-mismatch", "%s(%r,%r)=%.15g vs pbl_model %.15g" % (nm, zm, L, got, want)))
        if abs(float(km._phiM(a, b)[0]) - phim_ref(xx)) > 1e-12 * phim_ref(xx):
            out.append(("km-copy-mismatch", "_phiM(%r,%r) differs from Businger-Dyer phi_m" % (zm, L)))
        if abs(float(pm.phi(x)) - phic_ref(x)) > 1e-12 * phic_ref(x):
            out.append(("phi-not-businger-dyer", "phi(%r)=%.15g vs %.15g" % (x, float(pm.phi(x)), phic_ref(x))))
    for eps in (1e-12, -1e-12, 0.0):
        if abs(float(pm.psi(eps))) > 1e-11 or abs(float(pm.phi(eps)) - 1.0) > 1e-10:
            out.append(("continuity", "psi(%g)=%.3g phi(%g)=%.15g" % (eps, float(pm.psi(eps)), eps, float(pm.phi(eps)))))
    return out


def probe_interface():
    """default output level of run_bldfm_single is z_m"""
    np, pm, km = impl()
    try:
        import bldfm.config_parser as cp
        import bldfm.interface as itf
    except Exception as e:
        return [("interface:import", repr(e))]
    out = []
    for nz, z_m, met in ((4, 10.0, {"ustar": 0.4, "mol": -50.0, "wind_speed": 4.0, "wind_dir": 250.0}),
                         (7, 3.5, {"z0": 0.05, "mol": 80.0, "wind_speed": 3.0, "wind_dir": 30.0})):
        raw = {"domain": {"nx": 8, "ny": 8, "xmax": 40.0, "ymax": 40.0, "nz": nz},
               "towers": [{"name": "A", "lat": 0.0, "lon": 0.0, "z_m": z_m}], "met": met}
        try:
            cfg = cp.parse_config_dict(raw)
            r = itf.run_bldfm_single(cfg, cfg.towers[0])
            Z = np.asarray(r["grid"][2], dtype=float)
            if np.abs(Z - z_m).max() > 1e-12 * z_m:
                out.append(("interface:level-not-zm", "nz=%d z_m=%r: returned heights %r" % (nz, z_m, np.unique(Z)[:4])))
        except Exception as e:
            out.append(("interface:raises", "%r" % (e,)))
    return out


KNOWN_WITNESSES = [  # inputs of the open known findings, replayed on the implementation in every run (both tiers)
    dict(closure="MOST", n=4, zm=10.0, um=3.0, vm=-1.5, mol=-20.0, prsc=1.0, tke=1.0, ustar=0.45),
    dict(closure="MOSTM", n=8, zm=3.7, um=-2.0, vm=0.7, mol=-150.0, prsc=0.8, tke=1.0, z0=0.05),
]


def probe_known(ctx):
    out, seen = [], set()
    for c in KNOWN_WITNESSES:
        for sig, detail in probe_profiles(dict(c)):
            if sig not in seen:
                seen.add(sig)
                out.append({"signature": sig, "what": "C09 %s: %s on %r" % (sig, detail, c), "replay": {"case": dict(c), "detail": detail}})
    ctx.cov["known_finding_witnesses"] = len(KNOWN_WITNESSES)
    return out


def oracle(ctx, hints):
    found = {}

    def add(sig, detail, replay):
        if sig not in found:
            found[sig] = (detail, replay)

    pool = []
    for h in hints:
        if h and "case" in h:
            pool.append(dict(h["case"]))
    rng = ctx.rng
    nrand = 6000 if ctx.thorough else 600
    for _ in range(nrand):
        zm = rng.choice([2.0, 3.7, 10.0, 25.0, 61.3])
        ang = rng.uniform(0, 2 * math.pi)
        sp = rng.uniform(0.5, 10.0)
        cl = rng.choice(CLOSURES)
        c = dict(closure=cl, n=rng.choice([1, 2, 3, 5, 8, 16, 32]), zm=zm, um=sp * math.cos(ang), vm=sp * math.sin(ang),
                 mol=rng.choice([-1.0, 1.0]) * 10.0 ** rng.uniform(0.5, 9), prsc=rng.choice([1.0, 0.8, 0.71, 1.3]), tke=rng.choice([1.0, 0.35, 2.6]))
        if cl == "OAAHOC" or rng.random() < 0.5:
            c["ustar"] = rng.uniform(0.1, 1.0)
        else:
            c["z0"] = zm * 10.0 ** rng.uniform(-3.5, -0.3)
        pool.append(c)
    for c in pool:
        if not in_quantifier(c):
            continue
        for sig, detail in probe_profiles(c):
            add(sig, detail, {"case": describe(c)})
    for sig, detail in probe_functions(rng, 60 if ctx.thorough else 15):
        add(sig, detail, {"functions": True})
    for sig, detail in probe_interface():  # the oracle only runs on a failure or in the thorough tier
        add(sig, detail, {"interface": True})
    return [{"signature": sig, "what": "C09 %s: %s%s" % (sig, d, (" on %r" % r["case"]) if "case" in r else ""), "replay": dict(r, detail=d)}
            for sig, (d, r) in found.items()]


def replay(body):
    import random

    res = []
    if "case" in body:
        res = probe_profiles(dict(body["case"]))
    elif body.get("functions"):
        res = probe_functions(random.Random(1), 20)
    elif body.get("interface"):
        res = probe_interface()
    for sig, d in res:
        print("FAILS", sig, d)
    if not res:
        print("holds on this input")
    return 1 if res else 0
