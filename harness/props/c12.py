"""C12 — a solve is a pure function: history, threads and precision do not matter.

check = Properties/C12.v  +  state-access census of the source  +  HISTORY CORRESPONDENCE:
random op sequences (<= 8 ops) over an alphabet of small solves (shapes, modes, precisions,
footprint/dispersion, analytic, and calls that raise at each of the three possible points),
`bldfm.config.NUM_THREADS = n` (1..8) and `reset_fft_manager()`,
each executed in ONE fresh Python subprocess (harness/c12_worker.py) which records per op
  (a) the result arrays as bytes,
  (b) the observable bookkeeping (config.NUM_THREADS, numba.get_num_threads(), the live
      FFTManager's num_threads, pyfftw.config.NUM_THREADS, keys of parallelize's _compiled,
      number of FFTManager creations) and, per solve, the state-reading calls in source order
      (every transform with the pyfftw thread count in force, every ivp_solver call with the
      variant flag and the numba thread count in force).
(b) is compared EXACTLY with Model/Runtime.v evaluated by vm_compute on the same op list.
(a) is compared
   - bit for bit with the first call of the same (solve, thread setting) in the same process
     [the property's hard clause],
   - bit for bit with the same call made alone in a fresh process with the same thread setting
     [tie], and with the call made alone with ONE thread [this is the model's kernel oracle
     hypothesis `kernel par n = kernel false 1`, exercised bit for bit; the property itself only
     demands 1e-12 here],
   - to 1e-12 (relative to the field maximum, double precision) with every other result of the
     same solve in any process, including processes that load FFTW wisdom planted by a
     FFTW_MEASURE run (planner effects: rounding-level differences are legitimate there),
   - single vs double precision to 1e-5 of the field maximum.
Runtime regimes exercised: numba disk cache populated serial-first / parallel-first (numba's cache
index does not contain the parallel flag, so the variant compiled first serves BOTH flags) /
private cold cache; environment thread counts NUMBA_NUM_THREADS, PYFFTW_NUM_THREADS; wisdom file."""
import ast
import hashlib
import re
import json
import os
import pickle
import shutil
import sys
from concurrent.futures import ThreadPoolExecutor

import numpy as np

import core
import solvercorr as sc

THEOREMS = ["C12_history_independent", "C12_history_independent_reachable", "C12_bookkeeping",
            "C12_precision_is_storage_only"]
TRUSTED = [
    "Model/Runtime.v is hand-written (state machine over config.NUM_THREADS, numba thread count, FFTManager singleton, pyfftw thread count, parallelize's _compiled); tied to the source on every run (A) by exact differential execution of states and state-reading calls over random histories and by an AST census of every read/write of process-global state in solver.py, utils.parallelize and fft_manager.py, and (B) by harness/py2coq_runtime.py + coq/Bridge/RuntimeBridge.v: the state handling is re-translated from the current source into the description language of Model/RuntimeDesc.v and its interpretation is re-proved equal to Runtime.step / Runtime.run for all worlds, ops and histories",
    "harness/py2coq_runtime.py (fail-closed `ast` translator: name resolution through the import tables and Python's scoping rule, which statements are numerical and dropped, whitelist of pure / extern callees) and the interpreter of Model/RuntimeDesc.v (Python's call binding, truthiness, and/or operand semantics, dict with the keys False/True, `global`) are trusted as the reading of the source",
    "harness/c12_worker.py observes the bookkeeping through module attributes, ivp_solver.__closure__ and wrappers around FFTManager.__init__/fft2/ifft2 and solver.ivp_solver installed from the harness process (no source hooks)",
    "numba code generation, numba/FFTW thread schedules and FFTW planning are NOT modelled: they enter the theorems as the oracle hypotheses kernel par n = kernel false 1 and fft t = fft 1",
]
ASSUMPTIONS = [
    "oracle hypothesis (exercised bit for bit, not proved): both numba variants of ivp_solver (parallel=True/False, whichever machine code the on-disk cache serves) return the same arrays for every numba thread count",
    "oracle hypothesis (needed only from unreachable states; from reachable states the model proves every transform runs on a one-thread manager): a pyfftw transform does not depend on its thread count",
    "FFTW planner / wisdom effects across processes are outside the model; the property grants them rounding (1e-12), which is what is checked for wisdom-loaded processes",
    "cache=None (the disk cache is C15's subject); argument errors are raised before any global state is touched; config.NUM_THREADS <= NUMBA_NUM_THREADS (numba raises otherwise)",
    "tie (B): pyfftw's numpy-interface transform without `threads=` runs with pyfftw.config.NUM_THREADS; numba.set_num_threads(n) sets the count get_num_threads() / a dispatcher call sees; calls into numpy, pathlib, logging, pickle, atexit, pyfftw.interfaces.cache and methods of local values do not touch the tracked state; implicit exceptions (np.pad with a negative width, z[levels]) are not visible in the AST: their position is covered by the history correspondence",
    "C12_precision_is_storage_only is about Model/Solver.v (tied to the source by the C04/C10 correspondences): a_single is read only by rho; IEEE rounding itself is exercised (single vs double <= 1e-5 max), not proved",
]

WORKER = os.path.join(core.VERIF, "harness", "c12_worker.py")
TOL_DOUBLE = 1e-12
TOL_SINGLE = 1e-5

# ---------------------------------------------------------------------------------------------
# state-access census (fail closed): every place the source reads or writes process-global state

CENSUS_CALLS = {"fft2", "ifft2", "get_fft_manager", "reset_fft_manager", "set_num_threads", "ivp_solver"}

EXPECTED_CENSUS = {
    "solver.config_reads": {"steady_state_transport_solver": ["NUM_THREADS", "NUM_THREADS", "NUM_THREADS"]},
    "solver.calls": [
        "fft2()", "set_num_threads(config.NUM_THREADS)", "get_fft_manager(num_threads=config.NUM_THREADS)",
        "get_fft_manager(num_threads=1)", "ivp_solver()", "ivp_solver()", "fft2()", "fft2()", "ifft2()", "ifft2()"],
    "solver.precision_consumers": ["precision == 'single' -> tfftp,tfftq", "precision == 'double' -> tfftp,tfftq", "loads=4"],
    "solver.module_state": ["logger"],
    "solver.global_stmts": [],
    "solver.mutable_defaults": [],
    "solver.decorators": {"ivp_solver": ["parallelize"], "steady_state_transport_solver": []},
    "utils.parallelize": "c08a301475",
    "fft_manager.get_fft_manager": "92b9be428e",
    "fft_manager.reset_fft_manager": "bfa0fb7d72",
    "fft_manager.fft2": "b85aeca20e",
    "fft_manager.ifft2": "141c2618d3",
    "fft_manager.FFTManager.__init__.state_writes": ["self.wisdom_file", "self.num_threads", "pyfftw.config.NUM_THREADS"],
    "fft_manager.FFTManager.fft2": "a4311f7a30",
    "fft_manager.FFTManager.ifft2": "2f52d26e10",
    "fft_manager.module_state": ["logger", "_fft_manager"],
    "config.NUM_THREADS": 1,
}


def _strip(fn):
    """function AST without docstring and logger.* statements, dumped"""
    body = []
    for st in fn.body:
        if isinstance(st, ast.Expr) and isinstance(st.value, ast.Constant) and isinstance(st.value.value, str):
            continue
        body.append(st)

    class NoLog(ast.NodeTransformer):
        def visit_Expr(self, node):
            v = node.value
            if isinstance(v, ast.Call) and isinstance(v.func, ast.Attribute) and isinstance(v.func.value, ast.Name) and v.func.value.id == "logger":
                return None
            return node

    mod = ast.Module(body=body, type_ignores=[])
    mod = NoLog().visit(mod)
    return ast.dump(mod, annotate_fields=False, include_attributes=False)


def _h(s):
    return hashlib.sha1(s.encode()).hexdigest()[:10]


def _is_config_attr(node):
    return isinstance(node, ast.Attribute) and isinstance(node.value, ast.Name) and node.value.id == "config"


def _arg_summary(call):
    parts = []
    for a in call.args:
        parts.append(ast.unparse(a) if _mentions_state(a) else None)
    parts = [p for p in parts if p]
    for k in call.keywords:
        if k.arg in ("num_threads",) or _mentions_state(k.value):
            parts.append("%s=%s" % (k.arg, ast.unparse(k.value)))
    return ", ".join(parts)


def _mentions_state(node):
    return any(_is_config_attr(n) for n in ast.walk(node))


def _module_state(tree):
    """names bound at module level to something other than imports / defs"""
    names = []
    for st in tree.body:
        if isinstance(st, (ast.Assign, ast.AnnAssign, ast.AugAssign)):
            targets = st.targets if isinstance(st, ast.Assign) else [st.target]
            for t in targets:
                for n in ast.walk(t):
                    if isinstance(n, ast.Name):
                        names.append(n.id)
    return names


def census(src):
    out = {}
    pkg = os.path.join(src, "bldfm")
    # --- solver.py
    tree = ast.parse(open(os.path.join(pkg, "solver.py")).read())
    funcs = {st.name: st for st in tree.body if isinstance(st, ast.FunctionDef)}
    reads = {}
    for name, fn in funcs.items():
        r = [n.attr for n in ast.walk(fn) if _is_config_attr(n)]
        if r:
            reads[name] = r
    # anything else that reaches config (e.g. `from bldfm.config import NUM_THREADS`, getattr) shows up here
    for st in ast.walk(tree):
        if isinstance(st, ast.ImportFrom) and st.module and st.module.endswith("config") and not st.module.endswith("bldfm"):
            reads.setdefault("<import>", []).extend(a.name for a in st.names)
    out["solver.config_reads"] = reads
    calls = []
    main = funcs.get("steady_state_transport_solver")
    if main is not None:
        found = []
        for n in ast.walk(main):
            if isinstance(n, ast.Call):
                f = n.func
                nm = f.id if isinstance(f, ast.Name) else (f.attr if isinstance(f, ast.Attribute) else None)
                if nm in CENSUS_CALLS:
                    found.append((n.lineno, n.col_offset, "%s(%s)" % (nm, _arg_summary(n))))
        calls = [c for _, _, c in sorted(found)]
    out["solver.calls"] = calls
    out["solver.module_state"] = _module_state(tree)
    out["solver.global_stmts"] = sorted({nm for n in ast.walk(tree) if isinstance(n, (ast.Global, ast.Nonlocal)) for nm in n.names})
    muts = []
    for name, fn in funcs.items():
        for d in list(fn.args.defaults) + [d for d in fn.args.kw_defaults if d is not None]:
            if isinstance(d, (ast.List, ast.Dict, ast.Set, ast.Call, ast.ListComp, ast.DictComp)):
                muts.append("%s:%s" % (name, ast.unparse(d)))
    out["solver.mutable_defaults"] = muts
    prec = []
    if main is not None:
        for n in ast.walk(main):
            if isinstance(n, ast.If) and any(isinstance(m, ast.Name) and m.id == "precision" for m in ast.walk(n.test)):
                assigned = sorted({m.id for st in n.body for m in ast.walk(st) if isinstance(m, ast.Name) and isinstance(m.ctx, ast.Store)})
                prec.append("%s -> %s" % (ast.unparse(n.test), ",".join(assigned)))
        uses = sum(1 for m in ast.walk(main) if isinstance(m, ast.Name) and m.id == "precision" and isinstance(m.ctx, ast.Load))
        prec.append("loads=%d" % uses)
    out["solver.precision_consumers"] = prec
    out["solver.decorators"] = {name: [ast.unparse(d) for d in fn.decorator_list] for name, fn in funcs.items()}
    # --- utils.parallelize
    tree = ast.parse(open(os.path.join(pkg, "utils.py")).read())
    par = [st for st in tree.body if isinstance(st, ast.FunctionDef) and st.name == "parallelize"]
    out["utils.parallelize"] = _h(_strip(par[0])) if par else "missing"
    # --- fft_manager.py
    tree = ast.parse(open(os.path.join(pkg, "fft_manager.py")).read())
    funcs = {st.name: st for st in tree.body if isinstance(st, ast.FunctionDef)}
    for nm in ("get_fft_manager", "reset_fft_manager", "fft2", "ifft2"):
        out["fft_manager." + nm] = _h(_strip(funcs[nm])) if nm in funcs else "missing"
    cls = [st for st in tree.body if isinstance(st, ast.ClassDef) and st.name == "FFTManager"]
    writes = []
    if cls:
        meths = {st.name: st for st in cls[0].body if isinstance(st, ast.FunctionDef)}
        if "__init__" in meths:
            for n in ast.walk(meths["__init__"]):
                if isinstance(n, ast.Assign):
                    for t in n.targets:
                        if isinstance(t, ast.Attribute):
                            writes.append(ast.unparse(t))
        for nm in ("fft2", "ifft2"):
            out["fft_manager.FFTManager." + nm] = _h(_strip(meths[nm])) if nm in meths else "missing"
    out["fft_manager.FFTManager.__init__.state_writes"] = writes
    out["fft_manager.module_state"] = _module_state(tree)
    # --- config.py
    tree = ast.parse(open(os.path.join(pkg, "config.py")).read())
    val = None
    for st in tree.body:
        if isinstance(st, ast.Assign) and any(isinstance(t, ast.Name) and t.id == "NUM_THREADS" for t in st.targets):
            val = ast.literal_eval(st.value)
    out["config.NUM_THREADS"] = val
    return out


def census_diff(got):
    diffs = []
    for k, want in EXPECTED_CENSUS.items():
        if got.get(k) != want:
            diffs.append("%s: source has %r, the model mirrors %r" % (k, got.get(k), want))
    return diffs


# ---------------------------------------------------------------------------------------------
# alphabet, histories


def max_threads():
    try:
        n = len(os.sched_getaffinity(0))
    except Exception:
        n = os.cpu_count() or 1
    return max(1, min(8, n))


def alphabet(rng, n_base):
    """small solves of different shapes / modes / precisions / footprint-dispersion / analytic;
    every case also exists with the other precision (id + '~')."""
    cases = {}
    combos = [(False, False), (True, False), (False, True), (True, True)]
    for k in range(n_base):
        fp, an = combos[k % 4] if k < 4 else (rng.random() < 0.5, rng.random() < 0.25)
        prec = "double" if k % 3 != 2 else "single"
        if k in (0, 2):
            # dispersion bases that admit a same-padded-extent neighbour ("s"): at least 4 x 4 cells, square cells, whole-cell halo
            nx_, ny_ = rng.choice([4, 5, 6]), rng.choice([4, 5, 6])
            c = sc.mk_case(rng, footprint=fp, analytic=an, precision=prec, nx=nx_, ny=ny_, domain=(2.0 * nx_, 2.0 * ny_), halo=rng.choice([2.0, 4.0]))
        else:
            c = sc.mk_case(rng, footprint=fp, analytic=an, precision=prec)
        cid = "S%d" % k
        cases[cid] = c
        cases[cid + "~"] = dict(c, precision="single" if prec == "double" else "double")
    # heights and profiles handed over as float32 arrays (read from a float32 NetCDF): the same request under 1 and N threads
    # must agree to rounding (a thread-specific conversion of the kernel arguments changes np.diff(z) from float32 to float64)
    if n_base > 8:
        c32 = dict(cases["S0"])
        c32["z"] = np.asarray(c32["z"], dtype=np.float32).astype(float)
        c32["profiles"] = tuple(np.asarray(a, dtype=np.float32).astype(float) for a in c32["profiles"])
        c32["_present"] = {"f32": True}
        cases["S0f"] = sc.tame(c32, bound=1e9)
    # one-argument neighbours (ids S<k><letter>): same array shapes, modes and flags as S<k>, one argument changed -
    # exactly the calls a piece of hidden state keyed by too little would confuse with S<k>
    for k in range(n_base):
        base_c = cases["S%d" % k]
        for kind in ("p", "l", "q")[: (3 if k < 2 else 1 + k % 2)] + (("s", "m") if k < 4 else ()):
            v = neighbour(base_c, kind, rng)
            if v is not None:
                cases["S%d%s" % (k, kind)] = v
    # calls that raise (ids E*): before any global state is touched / after the source transform / at the very end
    for k, (defect, fp, an) in enumerate([("odd-modes", False, False), ("bad-precision", False, False), ("bad-precision", True, False),
                                          ("bad-level", False, True), ("bad-level", False, False), ("negative-halo", True, False)]):
        c = sc.mk_case(rng, footprint=fp, analytic=an, precision="double")
        if defect == "odd-modes":
            c["modes"] = (3, 4)
        elif defect == "bad-precision":
            c["precision"] = "half"
        elif defect == "bad-level":
            c["levels"] = [0, len(c["z"]) + 2]
        else:
            c["halo"] = -3.0 * c["domain"][0]
        c["defect"] = defect
        cases["E%d" % k] = c
    return cases


def neighbour(c, kind, rng):
    v = dict(c)
    if kind == "p":  # other profiles (physics), same grid
        u, w, Kx, Ky, Kz = c["profiles"]
        v["profiles"] = (u * 1.25 + 0.125, w * 0.75 - 0.125, Kx * 1.5, Ky * 0.75, Kz * 0.875)
        return sc.tame(v)
    if kind == "l":  # other output levels, same number of them
        nz = len(c["z"])
        lv = sc.levels_list(c)
        new = [(l + 1) % nz for l in lv]
        if new == lv:
            return None
        v["levels"] = new if np.ndim(c["levels"]) else new[0]
        return v
    if kind == "q":  # other source values / measurement point, same shapes
        v["q0"] = np.flipud(c["q0"]) * 1.5 + 0.25
        v["meas_pt"] = (c["meas_pt"][0] + 0.25 * c["domain"][0] / c["q0"].shape[1], c["meas_pt"][1])
        v["bg"] = c["bg"] + 0.5
        return v
    if kind == "s":  # same padded extent, smaller interior (source cropped by one cell, halo one cell wider): dispersion only
        if c["footprint"]:
            return None
        try:
            return sc.sibling(rng, c, "interior-shrink")
        except Exception:
            return None
    if kind == "m":  # fewer retained modes on the same padded geometry (run after the full-spectrum call)
        ny, nx = c["q0"].shape
        small = (2, 2)
        if tuple(c["modes"]) == small:
            return None
        v["modes"] = small
        return v
    raise ValueError(kind)


def outcome(c):
    """which statement of the solver raises, as a function of the arguments (Model/Runtime.v `outcome`)"""
    d = c.get("defect")
    if d is None:
        return "Returns"
    if d in ("odd-modes", "negative-halo"):
        return "RaisesBefore"
    if d == "bad-precision" or (d == "bad-level" and c["analytic"]):
        return "RaisesAfterSource"
    return "RaisesAtEnd"


def twin(cid):
    """the same call with the other storage precision (base cases only)"""
    if not re.match(r"^S\d+~?$", cid):
        return None
    return cid[:-1] if cid.endswith("~") else cid + "~"


def base_of(cid):
    m = re.match(r"^(S\d+)", cid)
    return m.group(1) if m else None


def gen_history(rng, ids, tmax, nops):
    """random op sequence with at least two solves; repeats of an earlier solve are favoured so
    that every history contains same-process comparisons"""
    ops = []
    solved = []
    while len(ops) < nops:
        r = rng.random()
        left = nops - len(ops)
        nsolve = sum(1 for o in ops if o[0] == "solve")
        if left <= 2 - nsolve or r < 0.55:
            if solved and rng.random() < 0.6:
                cid = rng.choice(solved)
                r2 = rng.random()
                if r2 < 0.2 and twin(cid):
                    cid = twin(cid)
                elif r2 < 0.55 and base_of(cid):
                    fam = [c for c in ids if base_of(c) == base_of(cid) and not c.endswith("~")]
                    cid = rng.choice(fam)
            else:
                cid = rng.choice(ids)
            ops.append(["solve", cid])
            solved.append(cid)
        elif r < 0.85:
            ops.append(["threads", rng.choice([1] + list(range(1, tmax + 1)))])
        else:
            ops.append(["reset"])
    return ops


def threads_at(ops):
    """thread setting in force at every op (config.NUM_THREADS starts at 1)"""
    t = 1
    out = []
    for o in ops:
        if o[0] == "threads":
            t = int(o[1])
        out.append(t)
    return out


# ---------------------------------------------------------------------------------------------
# running jobs


def cache_dir(base, kind, name):
    if kind == "cold":
        return os.path.join(base, "jobs", name, "numba_cold")
    return os.path.join(base, "cache_" + kind)


def run_job(base, job, cases):
    """job: {name, ops, env, cache, cwd(optional)}; returns the worker's record (or {'crash': ...})"""
    name = job["name"]
    d = job.get("cwd") or os.path.join(base, "jobs", name)
    os.makedirs(d, exist_ok=True)
    used = sorted({o[1] for o in job["ops"] if o[0] == "solve"})
    spec = {"cases": {cid: full(cases[cid]) for cid in used}, "ops": job["ops"],
            "out": os.path.join(d, name + ".pkl")}
    jf = os.path.join(d, name + ".json")
    with open(jf, "w") as f:
        json.dump(spec, f)
    env = core.pyenv(job.get("env") or {})
    env["NUMBA_CACHE_DIR"] = cache_dir(base, job.get("cache", "ser"), name)
    os.makedirs(env["NUMBA_CACHE_DIR"], exist_ok=True)
    rc, out, err, dt = core.run([core.PY, WORKER, jf], cwd=d, env=env, timeout=900)
    if not os.path.exists(spec["out"]):
        return {"crash": "worker rc=%s: %s" % (rc, (out + err)[-1500:]), "wall": dt}
    with open(spec["out"], "rb") as f:
        rec = pickle.load(f)
    rec["wall"] = dt
    return rec


def run_jobs(base, jobs, cases, workers=12):
    with ThreadPoolExecutor(max_workers=workers) as ex:
        return dict(zip([j["name"] for j in jobs], ex.map(lambda j: run_job(base, j, cases), jobs)))


def warm_caches(base, cases):
    """populate the two shared numba caches: one by a serial-first process, one by a parallel-first
    process (numba's cache index has no parallel flag: the first compiled variant serves both)"""
    numeric = [cid for cid, c in cases.items() if not c["analytic"]]
    seen = set()
    reps = []
    for cid in numeric:  # one representative per numba signature (levels as int/list, precision irrelevant)
        key = type(cases[cid]["levels"]).__name__
        if key not in seen:
            seen.add(key)
            reps.append(cid)
    jobs = [{"name": "warm_ser", "ops": [["solve", c] for c in reps], "cache": "ser"},
            {"name": "warm_par", "ops": [["threads", 2]] + [["solve", c] for c in reps], "cache": "par"}]
    return run_jobs(base, jobs, cases)


# ---------------------------------------------------------------------------------------------
# comparing results


def arr(t):
    b, dt, shape = t
    return np.frombuffer(b, dtype=np.dtype(dt)).reshape(shape)


def same_bits(r1, r2):
    if ("err" in r1) or ("err" in r2):
        return r1.get("err") == r2.get("err")
    return all(r1[k] == r2[k] for k in ("X", "Y", "Z", "conc", "flx"))


def rel_dev(r1, r2):
    """max over conc/flx of max|a-b| / max(|a|,|b|); inf when outcomes/shapes/NaN patterns differ"""
    if ("err" in r1) or ("err" in r2):
        return 0.0 if r1.get("err") == r2.get("err") else float("inf")
    worst = 0.0
    for k in ("X", "Y", "Z"):
        a, b = arr(r1[k]), arr(r2[k])
        if a.shape != b.shape or not np.array_equal(a.astype(float), b.astype(float)):
            return float("inf")
    for k in ("conc", "flx"):
        a, b = arr(r1[k]).astype(float), arr(r2[k]).astype(float)
        if a.shape != b.shape:
            return float("inf")
        na, nb = np.isnan(a), np.isnan(b)
        if not np.array_equal(na, nb):
            return float("inf")
        if a.size == 0:
            continue
        a, b = np.where(na, 0.0, a), np.where(nb, 0.0, b)
        if not (np.all(np.isfinite(a)) and np.all(np.isfinite(b))):
            if not np.array_equal(a, b):
                return float("inf")
            continue
        s = max(np.abs(a).max(), np.abs(b).max())
        if s == 0:
            continue
        worst = max(worst, float(np.abs(a - b).max() / s))
    return worst


def enc_compiled(keys):
    acc = 0
    for k in keys:
        acc = acc * 3 + (2 if k else 1)
    return acc


def enc_obs(o):
    """worker observation -> the integer list Model/RuntimeExec.enc_state (+ usage) produces"""
    obs = o["obs"]
    out = [obs[0], obs[1], obs[2], obs[3], enc_compiled(obs[4]), obs[5]]
    if o["res"] is not None:
        out.append(8 if "err" in o["res"] else 9)
        for ev in o["events"]:
            out.extend(ev)
    return out


def coq_hop(op, cases):
    if op[0] == "threads":
        return "HThreads %d" % op[1]
    if op[0] == "reset":
        return "HReset"
    c = cases[op[1]]
    return "HSolve %s %s %s" % ("true" if c["footprint"] else "false", "true" if c["analytic"] else "false", outcome(c))


def zl(xs):
    return "[" + "; ".join("(%d)" % x for x in xs) + "]"


COQ_HEADER = ("From Coq Require Import List ZArith Bool.\nFrom BL Require Import Model.Runtime Model.RuntimeExec.\n"
              "Import ListNotations.\nOpen Scope Z_scope.\n")


def full(c):
    d = sc.full(c)
    if c.get("defect"):
        d["defect"] = c["defect"]
    return d


def from_full(d):
    c = sc.from_full(d)
    if d.get("defect"):
        c["defect"] = d["defect"]
    return c


def hist_replay(job, cases):
    used = sorted({o[1] for o in job["ops"] if o[0] == "solve"})
    return {"ops": job["ops"], "env": job.get("env") or {}, "cache": job.get("cache", "ser"),
            "cases": {cid: full(cases[cid]) for cid in used}}


# ---------------------------------------------------------------------------------------------
# the check


class _Shim:
    """collects what py2coq_runtime.run reports while it runs in a worker thread next to the history subprocesses; replayed
    into the real context afterwards so that the order of obligations does not depend on timing"""

    def __init__(self, ctx):
        self.build = ctx.build
        self.coqc = ctx.coqc
        self.write = ctx.write
        self.cov = {}
        self.obls = []

    def obligation(self, name, ok, detail=""):
        self.obls.append((name, ok, detail))


def check(ctx):
    core.check_properties_file(ctx, "Properties/C12.v", THEOREMS, core.AX_NONE)

    # tie (B): translate the state handling from the current source (fail closed -> gen:GenRuntime.v) and re-prove
    # interpreted description = Model/Runtime.v (coq/Bridge/RuntimeBridge.v).  Runs beside the history correspondence.
    import py2coq_runtime
    shim = _Shim(ctx)
    bridge_pool = ThreadPoolExecutor(max_workers=1)
    bridge_job = bridge_pool.submit(py2coq_runtime.run, shim)

    # the thread set-up block lives in solver.py between translated statements: the solver's statement skeleton is an
    # obligation of this property as well (a branch-specific conversion of the kernel arguments: seed C12-7)
    import solverslices
    solverslices.check_skeleton(ctx)

    # (0) census of global-state accesses in the source
    got = census(core.SRC)
    diffs = census_diff(got)
    ctx.obligation("census:global-state-accesses-are-the-modelled-ones", not diffs, "; ".join(diffs))
    if diffs:
        ctx.failures[-1]["kind"] = "correspondence"

    base = ctx.build
    rng = ctx.rng
    tmax = max_threads()
    cases = alphabet(rng, 12 if ctx.thorough else 8)
    ids = sorted(cases)
    nh = 60 if ctx.thorough else 12

    # (1) histories
    jobs = []
    for k in range(nh):
        ops = gen_history(rng, ids, tmax, rng.randint(4, 8))
        env = {}
        regime = k % 6
        cache = "ser"
        if regime == 1:
            cache = "par"
        elif regime == 2:
            cache = "cold"
        elif regime == 3:
            env = {"PYFFTW_NUM_THREADS": "3"}
        elif regime == 4:
            env = {"NUMBA_NUM_THREADS": str(tmax)}
            cache = "par"
        jobs.append({"name": "h%02d" % k, "ops": ops, "env": env, "cache": cache, "kind": "history"})
    # targeted pairs: a solve right after the neighbour that shares its padded extent (smaller interior) or its padded
    # geometry (fewer retained modes) - the histories on which a work buffer that is only partly rewritten shows
    pair_ids = [cid for cid in ids if re.match(r"^S\d+[sm]$", cid)]
    if "S0f" in cases:
        jobs.append({"name": "hf32", "ops": [["solve", "S0f"], ["threads", min(2, tmax)], ["solve", "S0f"], ["threads", 1], ["solve", "S0f"], ["threads", min(4, tmax)], ["solve", "S0f"]],
                     "env": {}, "cache": "ser", "kind": "history"})
    for k, cid in enumerate(pair_ids[: (8 if ctx.thorough else 4)]):
        jobs.append({"name": "hp%02d" % k, "ops": [["solve", base_of(cid)], ["solve", cid], ["solve", base_of(cid)]], "env": {}, "cache": "ser", "kind": "history"})
    # (2) alone references: every (solve, thread setting) of the histories, plus one-thread references
    need = set()
    for j in jobs:
        for o, t in zip(j["ops"], threads_at(j["ops"])):
            if o[0] == "solve":
                need.add((o[1], t))
                need.add((o[1], 1))
                if twin(o[1]):
                    need.add((twin(o[1]), 1))
    nw = 6 if ctx.thorough else 2
    wcases = [cid for cid in ids if re.match(r"^S\d+$", cid) and cases[cid]["precision"] == "double"][:nw]
    for cid in wcases:
        need.add((cid, 1))
    refs = {}
    for i, (cid, t) in enumerate(sorted(need)):
        name = "a_%s_%d" % (cid.replace("~", "t"), t)
        ops = ([["threads", t]] if t != 1 else []) + [["solve", cid]]
        refs[(cid, t)] = name
        regimes = ["ser", "par", "cold", "ser"] if ctx.thorough else ["ser", "par", "cold", "ser", "ser", "ser"]
        jobs.append({"name": name, "ops": ops, "env": {}, "cache": regimes[i % len(regimes)], "kind": "alone"})
    # (3) planner/wisdom regime: a FFTW_MEASURE process leaves fftw_wisdom.pkl, a default process loads it
    wis = []
    for k, cid in enumerate(wcases):
        d = os.path.join(base, "jobs", "wisdom%d" % k)
        wis.append(({"name": "wplant%d" % k, "ops": [["solve", cid], ["solve", cid]], "env": {"PYFFTW_PLANNER_EFFORT": "FFTW_MEASURE"},
                     "cache": "ser", "cwd": d, "kind": "wisdom-plant"},
                    {"name": "wload%d" % k, "ops": [["solve", cid], ["threads", min(4, tmax)], ["solve", cid], ["reset"], ["solve", cid]],
                     "env": {}, "cache": "ser", "cwd": d, "kind": "wisdom-load"}))

    warm = warm_caches(base, cases)
    for nm, r in warm.items():
        if "crash" in r:
            raise core.CheckFailure("C12 warm-up job %s crashed: %s" % (nm, r["crash"]))
    recs = run_jobs(base, jobs + [w[0] for w in wis], cases)
    recs.update(run_jobs(base, [w[1] for w in wis], cases))
    alljobs = {j["name"]: j for j in jobs + [w for pair in wis for w in pair]}

    # tie (B) results (reported in front of the correspondence findings)
    try:
        bridge_job.result()
    except Exception as e:  # fail closed
        shim.obls.append(("bridge:RuntimeBridge", False, "bridge run crashed: %s: %s" % (type(e).__name__, e)))
    bridge_pool.shutdown()
    for name, ok_, detail in shim.obls:
        ctx.obligation(name, ok_, detail)
    ctx.cov.update(shim.cov)


    for nm, r in recs.items():
        if "crash" in r:
            ctx.fail("correspondence", "C12:%s-crashed" % nm, r["crash"], hint={"history": hist_replay(alljobs[nm], cases)})
    ok = {nm: r for nm, r in recs.items() if "crash" not in r}

    # ---- (b) bookkeeping: exact comparison with the Coq model
    terms = []
    for nm, r in ok.items():
        j = alljobs[nm]
        hops = "[" + "; ".join(coq_hop(o, cases) for o in j["ops"]) + "]"
        observed = "[" + "; ".join(zl(enc_obs(o)) for o in r["ops"]) + "]"
        terms.append((nm, "(disagree %d %d %s %s, enc_history %s (init %d %d))" % (
            r["init_numba"], r["init_pyfftw"], hops, observed, hops, r["init_numba"], r["init_pyfftw"])))
        if r["init"][:1] != [1] or r["init"][2] != -1 or r["init"][4] != [] or r["init"][5] != 0:
            ctx.fail("correspondence", "C12:%s-initial-state" % nm, "fresh interpreter state %r is not the model's init" % (r["init"],),
                     hint={"history": hist_replay(j, cases)})
    res = core.coq_eval_sharded(ctx, "c12state", COQ_HEADER, terms, shard=12, timeout=600, jobs=8)
    if "__error__" in res:
        ctx.fail("correspondence", "C12:coq-eval", res["__error__"])
    state_cmp = 0
    usage_cmp = 0
    state_bad = 0
    for nm, r in ok.items():
        txt = res.get(nm)
        if txt is None:
            ctx.fail("correspondence", "C12:%s-no-model-output" % nm, "Coq produced no result")
            continue
        state_cmp += len(r["ops"])
        usage_cmp += sum(1 for o in r["ops"] if o["res"] is not None)
        head = txt.strip().lstrip("(").split("]", 1)[0] + "]"
        idx = [int(x) for x in head.strip("[] ").replace("%Z", "").split(";") if x.strip()]
        if idx:
            state_bad += 1
            j = alljobs[nm]
            i = idx[0]
            detail = "history %s: bookkeeping differs from Model/Runtime.v at op indices %r" % (nm, idx)
            if 0 <= i < len(r["ops"]):
                detail += "; first: after %r the process shows %r (state [cfg, numba, mgr, pyfftw, compiled, creations] + 9 + calls), model: %s" % (
                    j["ops"][i], enc_obs(r["ops"][i]), txt.strip()[:1200])
            ctx.fail("correspondence", "C12:%s-state" % nm, detail, hint={"history": hist_replay(j, cases), "at": idx})

    # ---- (a) arrays
    stats = {"same_process_bitwise": 0, "alone_same_threads_bitwise": 0, "alone_one_thread_bitwise": 0,
             "cross_1e-12": 0, "wisdom_1e-12": 0, "wisdom_bit_identical": 0, "single_vs_double": 0}
    worst = {"cross": 0.0, "wisdom": 0.0, "precision": 0.0}

    def result_of(nm, i):
        return ok[nm]["ops"][i]["res"]

    def ref(cid, t):
        nm = refs.get((cid, t))
        if nm is None or nm not in ok:
            return None
        return ok[nm]["ops"][-1]["res"]

    for nm, r in ok.items():
        j = alljobs[nm]
        th = threads_at(j["ops"])
        first = {}
        for i, (o, t) in enumerate(zip(j["ops"], th)):
            if o[0] != "solve":
                continue
            cid = o[1]
            me = r["ops"][i]["res"]
            key = (cid, t)
            hint = {"history": hist_replay(j, cases), "at": [i]}
            # the property's hard clause
            if key in first:
                stats["same_process_bitwise"] += 1
                if not same_bits(me, result_of(nm, first[key])):
                    ctx.fail("correspondence", "C12:%s-op%d-same-process" % (nm, i),
                             "history %s: op %d (solve %s, %d threads) differs BITWISE from op %d (same call, same process); rel dev %.3g; %r"
                             % (nm, i, cid, t, first[key], rel_dev(me, result_of(nm, first[key])), sc.describe(cases[cid])), hint=hint)
            else:
                first[key] = i
            if j["kind"] in ("wisdom-plant", "wisdom-load"):
                a1 = ref(cid, 1)
                if a1 is not None and j["kind"] == "wisdom-load":
                    d = rel_dev(me, a1)
                    stats["wisdom_1e-12"] += 1
                    stats["wisdom_bit_identical"] += int(same_bits(me, a1))
                    worst["wisdom"] = max(worst["wisdom"], d)
                    if d > (TOL_DOUBLE if cases[cid]["precision"] == "double" else TOL_SINGLE):
                        ctx.fail("correspondence", "C12:%s-op%d-wisdom" % (nm, i),
                                 "history %s: solve %s in a process that loaded planted FFTW wisdom deviates %.3g from the fresh-process result" % (nm, cid, d), hint=hint)
                continue
            # tie: the same call alone in a fresh process, same thread setting
            a = ref(cid, t)
            if a is not None and j["kind"] == "history":
                stats["alone_same_threads_bitwise"] += 1
                if not same_bits(me, a):
                    ctx.fail("correspondence", "C12:%s-op%d-vs-alone" % (nm, i),
                             "history %s: op %d (solve %s, %d threads) differs bitwise from the same call alone in a fresh process with %d threads; rel dev %.3g; %r"
                             % (nm, i, cid, t, t, rel_dev(me, a), sc.describe(cases[cid])), hint=hint)
            # the model's kernel oracle, exercised: equal to the one-thread serial call, bit for bit;
            # the property's clause: 1e-12
            a1 = ref(cid, 1)
            if a1 is not None and not (j["kind"] == "alone" and t == 1):
                d = rel_dev(me, a1)
                stats["cross_1e-12"] += 1
                worst["cross"] = max(worst["cross"], d)
                stats["alone_one_thread_bitwise"] += 1
                tol = TOL_DOUBLE if cases[cid]["precision"] == "double" else TOL_SINGLE
                if d > tol:
                    ctx.fail("correspondence", "C12:%s-op%d-vs-one-thread" % (nm, i),
                             "history %s: op %d (solve %s, %d threads) deviates %.3g (> %.0e) from the one-thread fresh-process result; %r"
                             % (nm, i, cid, t, d, tol, sc.describe(cases[cid])), hint=hint)
                elif not same_bits(me, a1):
                    ctx.fail("oracle-hypothesis", "C12:%s-op%d-kernel-oracle" % (nm, i),
                             "history %s: op %d (solve %s, %d threads, cache regime %s) is within %.0e (dev %.3g) of the one-thread serial result but NOT bit-identical: the model's oracle hypothesis kernel par n = kernel false 1 is refuted on this runtime"
                             % (nm, i, cid, t, j.get("cache"), tol, d), hint=hint)
            # precision twin
            if j["kind"] == "history" and twin(cid):
                tw = ref(twin(cid), 1)
                if tw is not None:
                    d = rel_dev(me, tw)
                    stats["single_vs_double"] += 1
                    worst["precision"] = max(worst["precision"], d)
                    if d > TOL_SINGLE:
                        ctx.fail("correspondence", "C12:%s-op%d-precision" % (nm, i),
                                 "solve %s: single and double precision differ by %.3g of the field maximum (> 1e-5); %r" % (cid, d, sc.describe(cases[cid])), hint=hint)

    hist = [j for j in jobs if j["kind"] == "history"]
    nops = sum(len(j["ops"]) for j in hist)
    nsolves = sum(1 for j in hist for o in j["ops"] if o[0] == "solve")
    distinct = {json.dumps([coq_hop(o, cases) if o[0] != "solve" else o for o in j["ops"]]) for j in hist}
    opk = {"solve": 0, "threads": 0, "reset": 0}
    for j in hist:
        for o in j["ops"]:
            opk[o[0]] += 1
    ctx.cov.update({
        "evaluations": state_cmp + sum(stats.values()),
        "distinct_nontrivial": len(distinct),
        "rule": "random op sequences of 4..8 ops over {solve of %d small cases (each in both precisions), NUM_THREADS=1..%d, reset_fft_manager}; each in one fresh subprocess; regimes cycle over numba cache serial-first / parallel-first / private cold, PYFFTW_NUM_THREADS=3, NUMBA_NUM_THREADS=%d; every (solve, thread setting) also alone in a fresh process, every solve alone with one thread, %d planted-wisdom pairs; non-trivial = every history (>= 2 solves); distinct by op list"
                % (len(ids) // 2, tmax, tmax, len(wis)),
        "histories": len(hist), "ops": nops, "solves_in_histories": nsolves, "processes": len(recs) + len(warm),
        "state_comparisons": state_cmp, "usage_comparisons": usage_cmp, "state_mismatching_histories": state_bad,
        "array_comparisons": stats, "array_comparisons_total": sum(stats.values()),
        "worst_rel_dev": worst,
        "histogram": {"ops": opk,
                      "cache_regime": {k: sum(1 for j in jobs if j.get("cache") == k) for k in ("ser", "par", "cold")},
                      "footprint": sum(1 for c in cases.values() if c["footprint"]), "analytic": sum(1 for c in cases.values() if c["analytic"]),
                      "single": sum(1 for c in cases.values() if c["precision"] == "single")},
        "samples": [{"ops": j["ops"], "env": j["env"], "cache": j["cache"]} for j in hist[:3]] + [sc.describe(cases[c]) for c in ids[:3]],
        "census": got,
        "correspondence_mismatches": len([f for f in ctx.failures if f["kind"] in ("correspondence", "oracle-hypothesis")]),
    })
    core.log("C12: %d histories / %d ops / %d processes; state comparisons %d (+%d usage), array comparisons %r; worst dev %r"
             % (len(hist), nops, len(recs) + len(warm), state_cmp, usage_cmp, stats, worst))


# ---------------------------------------------------------------------------------------------
# the property's own statement on the real code (independent of the Coq model)


def analyse(ops, rec, cases, other=None):
    """Property text applied to ONE executed history (and optionally results of other processes:
    other = list of (cid, threads, result, label)).  Returns [(signature, detail)]."""
    out = []
    th = threads_at(ops)
    seen = {}
    last_solve = None
    pool = list(other or [])
    prev_obs = rec["init"]
    for i, (o, t) in enumerate(zip(ops, th)):
        ob = rec["ops"][i]["obs"]
        # bookkeeping invariants (model independent statement of C12_bookkeeping)
        bad = []
        if ob[2] != -1 and ob[2] != ob[3]:
            bad.append("live FFTManager has %d threads but pyfftw.config.NUM_THREADS = %d" % (ob[2], ob[3]))
        if ob[4][:len(prev_obs[4])] != prev_obs[4] or len(set(ob[4])) != len(ob[4]):
            bad.append("_compiled keys went %r -> %r" % (prev_obs[4], ob[4]))
        if o[0] == "solve" and "err" not in (rec["ops"][i]["res"] or {}):
            if ob[0] != prev_obs[0]:
                bad.append("a solve changed config.NUM_THREADS %d -> %d" % (prev_obs[0], ob[0]))
        if o[0] == "threads" and ob[0] != int(o[1]):
            bad.append("config.NUM_THREADS = %d after setting %d" % (ob[0], o[1]))
        if o[0] == "reset" and ob[2] != -1:
            bad.append("manager alive after reset_fft_manager()")
        if ob[5] < prev_obs[5]:
            bad.append("creation count decreased")
        for b in bad:
            out.append(("state:bookkeeping-mismatch", "op %d %r: %s" % (i, o, b)))
        prev_obs = ob
        if o[0] != "solve":
            continue
        cid = o[1]
        me = rec["ops"][i]["res"]
        key = (cid, t)
        if key in seen:
            j = seen[key]
            if not same_bits(me, rec["ops"][j]["res"]):
                sig = "history:repeat-differs" if last_solve == j and all(ops[m][0] == "solve" for m in range(j, i)) else "history:interleaving-differs"
                out.append((sig, "op %d (solve %s, NUM_THREADS=%d) is not bit-identical to op %d, the same call earlier in the same process (rel dev %.3g) after %r"
                            % (i, cid, t, j, rel_dev(me, rec["ops"][j]["res"]), ops[j + 1:i])))
        else:
            seen[key] = i
        last_solve = i
        pool.append((cid, t, me, "op %d" % i))
    # across thread settings / processes: rounding only; across precisions: storage rounding only
    for a in range(len(pool)):
        for b in range(a + 1, len(pool)):
            ca, ta, ra, la = pool[a]
            cb, tb, rb, lb = pool[b]
            if ca == cb:
                tol = TOL_DOUBLE if cases[ca]["precision"] == "double" else TOL_SINGLE
                d = rel_dev(ra, rb)
                if d > tol:
                    out.append(("threads:beyond-1e-12", "solve %s: %s (NUM_THREADS=%d) and %s (NUM_THREADS=%d) deviate by %.3g of the field maximum (> %.0e)"
                                % (ca, la, ta, lb, tb, d, tol)))
            elif ca == twin(cb):
                d = rel_dev(ra, rb)
                if d > TOL_SINGLE:
                    out.append(("precision:beyond-1e-5", "solve %s: single and double precision (%s, %s) deviate by %.3g of the field maximum (> 1e-5)" % (ca.rstrip("~"), la, lb, d)))
    return out


def probe_history(base, name, ops, cases, env=None, cache="ser"):
    """run ops in one fresh process + every distinct solve alone (one thread) in fresh processes;
    apply the property text"""
    jobs = [{"name": name, "ops": ops, "env": env or {}, "cache": cache}]
    alone = sorted({o[1] for o in ops if o[0] == "solve"})
    for cid in alone:
        jobs.append({"name": name + "_alone_" + cid.replace("~", "t"), "ops": [["solve", cid]], "env": {}, "cache": "ser"})
    recs = run_jobs(base, jobs, cases, workers=8)
    main = recs[name]
    if "crash" in main:
        return [("history:process-crashed", main["crash"][-400:])], recs
    other = []
    for cid in alone:
        r = recs[name + "_alone_" + cid.replace("~", "t")]
        if "crash" not in r:
            other.append((cid, 1, r["ops"][-1]["res"], "alone in a fresh process"))
    return analyse(ops, main, cases, other), recs


def oracle_histories(rng, cases, tmax, n):
    ids = [c for c in sorted(cases) if re.match(r"^S\d+$", c)]
    bad = [c for c in sorted(cases) if c.startswith("E")]
    hs = []
    for k in range(n):
        x = ids[k % len(ids)]
        y, z = rng.choice(ids), rng.choice(ids)
        e = rng.choice(bad)
        t = rng.randint(2, tmax) if tmax >= 2 else 1
        t2 = rng.randint(1, tmax)
        ops = [["solve", x], ["solve", x]]                       # repeat
        for nb in [c for c in sorted(cases) if base_of(c) == x and c != x and not c.endswith("~")]:
            ops += [["solve", nb], ["solve", x]]                 # interleaved with one-argument neighbours
        ops += [["solve", y], ["threads", t], ["solve", z], ["solve", e], ["reset"], ["solve", twin(x)], ["threads", 1],
                ["solve", x],                                    # interleaved with shapes/precisions/threads/reset/raising call
                ["threads", t], ["solve", x], ["solve", x],      # other thread setting (1e-12), repeat there
                ["reset"], ["threads", t2], ["solve", y], ["threads", t], ["solve", x]]
        hs.append(ops)
    return hs


def oracle(ctx, hints):
    base = os.path.join(ctx.build, "oracle")
    os.makedirs(base, exist_ok=True)
    found = {}
    tmax = max_threads()

    def note(sig, detail, ops, cases, env, cache):
        size = len(ops)
        if sig not in found or size < found[sig][0]:
            used = sorted({o[1] for o in ops if o[0] == "solve"})
            found[sig] = (size, detail, {"history": {"ops": ops, "env": env, "cache": cache,
                                                     "cases": {cid: full(cases[cid]) for cid in used}}})

    k = 0
    # the disagreeing histories first
    for h in hints:
        if not h or "history" not in h:
            continue
        hh = h["history"]
        cases = {cid: from_full(c) for cid, c in hh["cases"].items()}
        for cid in list(cases):
            tw = twin(cid)
            if tw and tw not in cases:
                cases[tw] = dict(cases[cid], precision="single" if cases[cid]["precision"] == "double" else "double")
        ops = list(hh["ops"])
        # add the precision twin of the first solve so that the precision clause is decided too
        firsts = [o[1] for o in ops if o[0] == "solve" and twin(o[1])]
        ext = ops + ([["solve", twin(firsts[0])]] if firsts else [])
        warm_caches(base, cases)
        res, _ = probe_history(base, "hint%d" % k, ext, cases, hh.get("env"), hh.get("cache", "ser"))
        k += 1
        for sig, detail in res:
            note(sig, detail, ext, cases, hh.get("env") or {}, hh.get("cache", "ser"))
        if k >= 6:
            break
    # sweep
    cases = alphabet(ctx.rng, 8 if ctx.thorough else 4)
    warm_caches(base, cases)
    hs = oracle_histories(ctx.rng, cases, tmax, 8 if ctx.thorough else 4)
    with ThreadPoolExecutor(max_workers=4) as ex:
        outs = list(ex.map(lambda kv: probe_history(base, "sweep%d" % kv[0], kv[1], cases, None, ["ser", "par", "cold"][kv[0] % 3]), enumerate(hs)))
    for i, (res, _) in enumerate(outs):
        for sig, detail in res:
            note(sig, detail, hs[i], cases, {}, ["ser", "par", "cold"][i % 3])
    # shrink every finding: shortest prefix/suffix-trimmed history that still shows the same signature
    final = []
    for sig, (size, detail, rep) in found.items():
        rep2, detail2 = shrink(base, sig, rep, detail)
        final.append({"signature": sig, "what": "C12 %s: %s" % (sig, detail2), "replay": rep2})
    return final


def shrink(base, sig, rep, detail):
    hh = rep["history"]
    cases = {cid: from_full(c) for cid, c in hh["cases"].items()}
    ops = list(hh["ops"])
    budget = 10
    improved = True
    n = 0
    while improved and budget > 0:
        improved = False
        for i in range(len(ops)):
            cand = ops[:i] + ops[i + 1:]
            if sum(1 for o in cand if o[0] == "solve") < 1:
                continue
            budget -= 1
            n += 1
            res, _ = probe_history(base, "shrink%d_%s" % (n, _h(sig)), cand, cases, hh.get("env"), hh.get("cache", "ser"))
            hit = [d for s, d in res if s == sig]
            if hit:
                ops, detail, improved = cand, hit[0], True
                break
            if budget <= 0:
                break
    used = sorted({o[1] for o in ops if o[0] == "solve"})
    return {"history": {"ops": ops, "env": hh.get("env") or {}, "cache": hh.get("cache", "ser"),
                        "cases": {cid: full(cases[cid]) for cid in used}}, "detail": detail}, detail


def replay(body):
    base = os.path.join(os.getcwd(), "c12")
    shutil.rmtree(base, ignore_errors=True)
    os.makedirs(base, exist_ok=True)
    hh = body.get("history")
    if not hh:
        print(json.dumps(body, indent=1)[:3000])
        return 0
    cases = {cid: from_full(c) for cid, c in hh["cases"].items()}
    warm_caches(base, cases)
    res, recs = probe_history(base, "replay", hh["ops"], cases, hh.get("env"), hh.get("cache", "ser"))
    print("history:", hh["ops"], "env", hh.get("env"), "numba cache regime", hh.get("cache"))
    for cid, c in cases.items():
        print("  case", cid, sc.describe(c))
    main = recs["replay"]
    if "crash" not in main:
        for o, r in zip(hh["ops"], main["ops"]):
            tag = ""
            if r["res"] is not None:
                tag = r["res"].get("err") or hashlib.sha1(r["res"]["conc"][0] + r["res"]["flx"][0]).hexdigest()[:12]
            print("  %-18r state [cfg, numba, mgr, pyfftw, compiled, creations] = %r  %s" % (tuple(o), r["obs"], tag))
    for sig, d in res:
        print("FAILS", sig, d)
    if not res:
        print("holds on this history")
    return 1 if res else 0
