"""C10 — slot k of a multi-level request is the solution at node levels[k].

Tie (B) of the level recording: the WHOLE body of ivp_solver (layer loop, recording loops `for lvl ...: if levels[lvl] == i`,
final recording) and the mean-mode block of steady_state_transport_solver are translated from the current source by
harness/py2coq_kernel.py and Bridge/KernelBridge.v re-proves gen_ivp_solver = Solver.ivp, gen_mean_mode = Solver.mean_loop
for ALL inputs, plus the slot statements on the translated code (bridge_ivp_solver_slots, bridge_mean_mode_slots)."""
import os

import numpy as np

import core
import solvercorr as sc
import solverslices
from props.c04 import TRUSTED  # same model, same tie

THEOREMS = ["C10_slice_is_level", "C10_record", "C10_recording_loop_is_record", "C10_layer_loop_is_ivp_loop", "C10_mean_loop_is_mean_loop"]
ASSUMPTIONS = ["levels are valid node indices 0..nz-1 (Python's negative indices are outside the property's quantifier)"]


def level_lists(rng, nz):
    asc = sorted(rng.sample(range(nz), min(nz, rng.choice([2, 3]))))
    return [
        ("ascending", asc), ("descending", asc[::-1]), ("top-first", [nz - 1, 0]),
        ("unsorted", rng.sample(range(nz), min(nz, 3))), ("duplicates", [asc[0], asc[-1], asc[0]]),
        ("single-list", [rng.randrange(nz)]), ("scalar", rng.randrange(nz)), ("full", list(range(nz))),
        ("ndarray", np.array(asc[::-1])),
    ]


def gen(ctx):
    cases, kinds = [], []
    reps = 4 if ctx.thorough else 1
    for _ in range(reps):
        for analytic in (False, True):
            nz = ctx.rng.choice([3, 4, 5])
            for kind, lv in level_lists(ctx.rng, nz):
                c = sc.mk_case(ctx.rng, nz=nz, levels=lv, analytic=analytic,
                               nx=ctx.rng.choice([3, 4]), ny=ctx.rng.choice([3, 4]), modes=ctx.rng.choice([(2, 2), (4, 4), (4, 2)]),
                               halo=ctx.rng.choice([0.0, 1.0]))
                cases.append(c)
                kinds.append(kind)
    return cases, kinds


def check(ctx):
    core.check_properties_file(ctx, "Properties/C10.v", THEOREMS, core.AX_NONE)
    solverslices.run_kernel(ctx)   # whole-function tie of the recording loops (GenKernel.v, Bridge/KernelBridge.v)
    solverslices.run(ctx)          # skeleton, expression slices, plumbing slices
    if os.path.exists(os.path.join(ctx.build, "GenKernel.vo")):
        import kernelcorr
        kernelcorr.run(ctx)        # the translated kernel on doubles vs ivp_solver called directly / the mean mode
    cases, kinds = gen(ctx)
    recs = sc.correspond(ctx, cases, "c10_")
    sc.summarize(ctx, cases, recs,
                 "level lists of kinds {ascending, descending, top-first, unsorted, duplicates, single, scalar, full column, ndarray} x {numerical, analytic} x random small solves; non-trivial = more than one level or a level other than the top node",
                 nontrivial=lambda c: len(sc.levels_list(c)) > 1 or sc.levels_list(c)[0] != len(c["z"]) - 1)
    h = {}
    for k in kinds:
        h[k] = h.get(k, 0) + 1
    ctx.cov.setdefault("histogram", {})["level_list_kind"] = h


def probe(S, case):
    out = []
    lv = sc.levels_list(case)
    tol = 1e-6 if case["precision"] == "single" else 1e-11
    (X, Y, Z), conc, flx = sc.call(S, case)
    ny, nx = case["q0"].shape
    conc = np.asarray(conc, float).reshape(len(lv), ny, nx)
    flx = np.asarray(flx, float).reshape(len(lv), ny, nx)
    Z = np.asarray(Z, float).reshape(len(lv), ny, nx)[:, 0, 0]
    for k, l in enumerate(lv):
        (_, _, Z1), c1, f1 = sc.call(S, case, levels=l)
        c1 = np.asarray(c1, float).reshape(ny, nx)
        f1 = np.asarray(f1, float).reshape(ny, nx)
        s = max(np.abs(c1).max(), np.abs(f1).max(), 1e-300)
        d = max(np.abs(conc[k] - c1).max(), np.abs(flx[k] - f1).max()) / s
        order = "ascending" if lv == sorted(set(lv)) else ("duplicates" if len(set(lv)) < len(lv) else "unsorted")
        mode = "analytic" if case["analytic"] else "numeric"
        if d > tol:
            out.append(("slice-mismatch:%s:%s" % (mode, order), "slot %d (level %d) differs from the single-level solve by %.3g" % (k, l, d)))
        if Z[k] != case["z"][l]:
            out.append(("height-mismatch:%s" % order, "Z[%d]=%r but z[%d]=%r" % (k, Z[k], l, case["z"][l])))
    return out


def oracle(ctx, hints):
    S = sc.impl()
    pool = [sc.from_full(h["case"]) for h in hints if h and "case" in h]
    cases, _ = gen(ctx)
    pool += cases
    found = {}
    for case in pool:
        try:
            for sig, detail in probe(S, case):
                found.setdefault(sig, (detail, case))
        except Exception as e:
            mode = "analytic" if case["analytic"] else "numeric"
            found.setdefault("raises:%s:%s" % (mode, type(e).__name__), (str(e), case))
    return [{"signature": sig, "what": "C10 %s: %s on %r" % (sig, d, sc.describe(c)), "replay": {"case": sc.full(c), "detail": d}}
            for sig, (d, c) in found.items()]


def replay(body):
    S = sc.impl()
    case = sc.from_full(body["case"])
    try:
        res = probe(S, case)
    except Exception as e:
        print("FAILS raises", type(e).__name__, e)
        return 1
    for sig, d in res:
        print("FAILS", sig, d)
    if not res:
        print("holds on this input")
    return 1 if res else 0
