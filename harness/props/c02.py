"""C02 — footprint weights reproduce the forward run at the tower (reciprocity)."""
import numpy as np

import core
import solvercorr as sc
import solverslices
from props.c04 import TRUSTED

THEOREMS = ["C02_reciprocity", "C02_shift_is_phase"]
ASSUMPTIONS = [
    "the theorem is for double-precision storage; single precision is covered by the oracle with the property's storage-rounding tolerance (1e-4 relative)",
    "measurement points are on the grid (xm = im*dx, ym = jm*dy)",
]


def halos(rng, dx, dy):
    return [("none", None), ("zero", 0.0), ("commensurate", 2 * dx if dx == dy else dx * dy * 2 / max(dx, dy) if False else None),
            ("incommensurate-x", 1.3 * dx), ("incommensurate-y", 2.4 * dy), ("incommensurate-both", 1.37 * max(dx, dy))]


def gen(ctx):
    cases, kinds = [], []
    reps = 3 if ctx.thorough else 1
    for _ in range(reps):
        for hk in ("none", "zero", "commensurate", "inc-x", "inc-y", "inc-both"):
            for fp in (True, False):
                nx, ny = ctx.rng.choice([(4, 4), (4, 3), (5, 4), (3, 5)])
                dx, dy = ctx.rng.choice([(1.0, 1.0), (1.0, 1.5), (2.0, 1.25)])
                halo = {"none": None, "zero": 0.0, "commensurate": 2.0 * dx * dy if (2.0 * dx * dy / dx) % 1 == 0 and (2.0 * dx * dy / dy) % 1 == 0 else 3.0 * dx * dy,
                        "inc-x": 1.3 * dx, "inc-y": 2.4 * dy, "inc-both": 1.37 * max(dx, dy)}[hk]
                if halo is None and max(nx, ny) > 4:
                    nx, ny = 4, 3
                c = sc.mk_case(ctx.rng, nx=nx, ny=ny, domain=(nx * dx, ny * dy), halo=halo, footprint=fp,
                               meas=(dx * ctx.rng.randrange(nx), dy * ctx.rng.randrange(ny)) if fp else (0.0, 0.0),
                               modes=ctx.rng.choice([(4, 4), (2, 4), (6, 6), (64, 64)]),
                               precision=ctx.rng.choice(["double", "double", "single"]))
                cases.append(c)
                kinds.append(hk)
    # non-dyadic spacings: on-grid points whose coordinate / spacing rounds just below an integer
    for (nx, ny, dom) in [(7, 6, (45.0, 21.0)), (6, 7, (10.0, 45.0)), (7, 3, (45.0, 10.0))]:
        for fp in (True, False):
            dx, dy = dom[0] / nx, dom[1] / ny
            c = sc.mk_case(ctx.rng, nx=nx, ny=ny, domain=dom, halo=ctx.rng.choice([0.0, 10.0]), footprint=fp,
                           meas=(np.linspace(0, dom[0], nx, endpoint=False)[ctx.rng.choice([3, nx - 1])],
                                 np.linspace(0, dom[1], ny, endpoint=False)[ctx.rng.randrange(ny)]) if fp else (0.0, 0.0),
                           modes=(6, 6), precision="double")
            cases.append(c)
            kinds.append("non-dyadic-spacing")
    return cases, kinds


def check(ctx):
    core.check_properties_file(ctx, "Properties/C02.v", THEOREMS, core.AX_NONE)
    solverslices.run(ctx)
    cases, kinds = gen(ctx)
    recs = sc.correspond(ctx, cases, "c02_")
    sc.summarize(ctx, cases, recs,
                 "footprint and forward solves over halo kinds {None(default), 0, commensurate, incommensurate in x / y / both} x dx != dy x mode truncations x both precisions, on-grid measurement points; non-trivial = halo not a whole number of cells in some direction or non-zero measurement point",
                 nontrivial=lambda c: c["halo"] is None or c["meas_pt"] != (0.0, 0.0) or (c["halo"] or 0) > 0)
    h = {}
    for k in kinds:
        h[k] = h.get(k, 0) + 1
    ctx.cov.setdefault("histogram", {})["halo_kind"] = h


def probe(S, case):
    """sum(q*footprint) == forward flux at the tower; sum(q*G) == forward conc - bg"""
    out = []
    ny, nx = case["q0"].shape
    dx, dy = case["domain"][0] / nx, case["domain"][1] / ny
    lv = sc.levels_list(case)
    tol = 1e-4 if case["precision"] == "single" else 1e-9
    halo = case["halo"]
    hk = "default" if halo is None else ("commensurate" if (halo / dx) % 1 == 0 and (halo / dy) % 1 == 0 else "incommensurate")
    xs = np.linspace(0, case["domain"][0], nx, endpoint=False)  # the solver's own grid coordinates
    ys = np.linspace(0, case["domain"][1], ny, endpoint=False)
    towers = [(i, j) for i in range(nx) for j in range(ny)] if nx * ny <= 42 and ny <= 3 + (nx * 7919) % 4 else         [(0, 0), (nx - 1, ny // 2), (nx // 2, ny - 1), (3 % nx, 0), (nx - 1, ny - 1)]
    for (im, jm) in dict.fromkeys(towers):
        fpc = dict(case, footprint=True, meas_pt=(float(xs[im]), float(ys[jm])), bg=0.0)
        fwc = dict(case, footprint=False, meas_pt=(0.0, 0.0))
        _, G, F = sc.call(S, fpc)
        _, C, Q = sc.call(S, fwc)
        G = np.asarray(G, float).reshape(len(lv), ny, nx)
        F = np.asarray(F, float).reshape(len(lv), ny, nx)
        C = np.asarray(C, float).reshape(len(lv), ny, nx)
        Q = np.asarray(Q, float).reshape(len(lv), ny, nx)
        for k in range(len(lv)):
            lhs_f, rhs_f = float(np.sum(case["q0"] * F[k])), float(Q[k, jm, im])
            lhs_c, rhs_c = float(np.sum(case["q0"] * G[k])), float(C[k, jm, im] - case["bg"])
            sf = max(np.abs(Q[k]).max(), 1e-300)
            scn = max(np.abs(C[k] - case["bg"]).max(), 1e-300)
            if abs(lhs_f - rhs_f) > tol * sf:
                out.append(("reciprocity:flux:halo-%s" % hk, "tower (%d,%d) level %d: sum(q*fp)=%.12g, forward flux=%.12g" % (im, jm, lv[k], lhs_f, rhs_f)))
            if abs(lhs_c - rhs_c) > tol * scn:
                out.append(("reciprocity:conc:halo-%s" % hk, "tower (%d,%d) level %d: sum(q*G)=%.12g, forward conc-bg=%.12g" % (im, jm, lv[k], lhs_c, rhs_c)))
    return out


def oracle(ctx, hints):
    S = sc.impl()
    pool = [sc.from_full(h["case"]) for h in hints if h and "case" in h]
    cases, _ = gen(ctx)
    pool += cases[:: (1 if ctx.thorough else 2)]
    found = {}
    for case in pool:
        try:
            for sig, detail in probe(S, case):
                found.setdefault(sig, (detail, case))
        except Exception as e:
            found.setdefault("solver-raises:" + type(e).__name__, (str(e), case))
    return [{"signature": sig, "what": "C02 %s: %s on %r" % (sig, d, sc.describe(c)), "replay": {"case": sc.full(c), "detail": d}}
            for sig, (d, c) in found.items()]


def replay(body):
    S = sc.impl()
    res = probe(S, sc.from_full(body["case"]))
    for sig, d in res:
        print("FAILS", sig, d)
    if not res:
        print("holds on this input")
    return 1 if res else 0
