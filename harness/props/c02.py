"""C02 — footprint weights reproduce the forward run at the tower (reciprocity)."""
import numpy as np

import core
import solvercorr as sc
import solverslices
from props.c04 import TRUSTED

THEOREMS_SINGLE = ['C02_reciprocity_single_bound', 'Single_instance_laws']
THEOREMS = ["C02_reciprocity", "C02_shift_is_phase", "C02_point_measurement", "C02_point_measurement_cells"]
ASSUMPTIONS = [
    "C02_reciprocity is for double-precision storage; for single-precision storage C02_reciprocity_single_bound (Properties/SinglePrecisionProps.v, over the complex instance with an arbitrary rounding function obeying |rnd x - x| <= eps |x|; stdlib real axioms) bounds the reciprocity defect by 2 eps times the sum of the moduli of the exact forward-run flux amplitudes (concentration: eps resp. eps(2+eps) in the analytic branch, where the code rounds twice); the oracle checks both precisions on the code (1e-4 relative for single)",
    "measurement points are on the grid (xm = im*dx, ym = jm*dy)",
]


def halos(rng, dx, dy):
    return [("none", None), ("zero", 0.0), ("commensurate", 2 * dx if dx == dy else dx * dy * 2 / max(dx, dy) if False else None),
            ("incommensurate-x", 1.3 * dx), ("incommensurate-y", 2.4 * dy), ("incommensurate-both", 1.37 * max(dx, dy))]


def gen(ctx):
    cases, kinds = [], []
    reps = 3 if ctx.thorough else 1
    for _ in range(reps):
        for hk in ("none", "zero", "commensurate", "inc-x", "inc-y", "inc-both"):
            for fp in (True, False):
                nx, ny = ctx.rng.choice([(4, 4), (4, 3), (5, 4), (3, 5)])
                dx, dy = ctx.rng.choice([(1.0, 1.0), (1.0, 1.5), (2.0, 1.25)])
                halo = {"none": None, "zero": 0.0, "commensurate": 2.0 * dx * dy if (2.0 * dx * dy / dx) % 1 == 0 and (2.0 * dx * dy / dy) % 1 == 0 else 3.0 * dx * dy,
                        "inc-x": 1.3 * dx, "inc-y": 2.4 * dy, "inc-both": 1.37 * max(dx, dy)}[hk]
                if halo is None and max(nx, ny) > 4:
                    nx, ny = 4, 3
                c = sc.mk_case(ctx.rng, nx=nx, ny=ny, domain=(nx * dx, ny * dy), halo=halo, footprint=fp,
                               meas=(dx * ctx.rng.randrange(nx), dy * ctx.rng.randrange(ny)) if fp else (0.0, 0.0),
                               modes=ctx.rng.choice([(4, 4), (2, 4), (6, 6), (64, 64)]),
                               precision=ctx.rng.choice(["double", "double", "single"]))
                cases.append(c)
                kinds.append(hk)
    # non-dyadic spacings: on-grid points whose coordinate / spacing rounds just below an integer
    for (nx, ny, dom) in [(7, 6, (45.0, 21.0)), (6, 7, (10.0, 45.0)), (7, 3, (45.0, 10.0))]:
        for fp in (True, False):
            dx, dy = dom[0] / nx, dom[1] / ny
            c = sc.mk_case(ctx.rng, nx=nx, ny=ny, domain=dom, halo=ctx.rng.choice([0.0, 10.0]), footprint=fp,
                           meas=(np.linspace(0, dom[0], nx, endpoint=False)[ctx.rng.choice([3, nx - 1])],
                                 np.linspace(0, dom[1], ny, endpoint=False)[ctx.rng.randrange(ny)]) if fp else (0.0, 0.0),
                           modes=(6, 6), precision="double")
            cases.append(c)
            kinds.append("non-dyadic-spacing")
    return cases, kinds


PM_FORMS = ["return np.sum(f * g)", "return np.sum(g * f)", "return (f * g).sum()", "return (g * f).sum()",
            "return np.sum(np.multiply(f, g))"]


def pm_structure(ctx):
    """fail-closed: utils.point_measurement(f, g) must be one of the forms that Model/Utils.point_measurement
    describes (sum over all cells of the element-wise product)"""
    import ast, os
    src = open(os.path.join(core.SRC, "bldfm", "utils.py")).read()
    fn = [n for n in ast.parse(src).body if isinstance(n, ast.FunctionDef) and n.name == "point_measurement"]
    ok, detail = False, "utils.point_measurement not found"
    if fn:
        body = fn[0].body
        if body and isinstance(body[0], ast.Expr) and isinstance(getattr(body[0], "value", None), ast.Constant):
            body = body[1:]
        got = ast.dump(ast.Module(body=body, type_ignores=[]))
        args = [a.arg for a in fn[0].args.args]
        ok = args == ["f", "g"] and any(got == ast.dump(ast.Module(body=ast.parse(t).body, type_ignores=[])) for t in PM_FORMS)
        detail = "signature %r, body %s" % (args, ast.unparse(ast.Module(body=body, type_ignores=[]))[:300])
    ctx.obligation("structure:point_measurement", ok, "" if ok else "utils.point_measurement is no longer `np.sum(f * g)`: " + detail)


def pm_cases(ctx):
    """integer-valued arrays (every product and partial sum exact in binary64 in any order): shapes with ny != nx,
    1 x n, n x 1, dtypes int64/int32/float32/float64, C/F/transposed/strided layouts, asymmetric f vs g"""
    rng = np.random.default_rng(ctx.rng.randrange(2**31))
    out = []
    shapes = [(3, 4), (4, 3), (1, 5), (5, 1), (2, 2), (6, 5), (1, 1), (7, 3)]
    for n in range(64 if ctx.thorough else 24):
        ny, nx = shapes[n % len(shapes)]
        f = rng.integers(-9, 10, size=(ny, nx)).astype([np.float64, np.int64, np.float32, np.int32][n % 4])
        g = rng.integers(-9, 10, size=(ny, nx)).astype([np.float64, np.float64, np.int64, np.float32][(n // 4) % 4])
        lay = n % 5
        if lay == 1:
            f = np.asfortranarray(f)
        elif lay == 2:
            g = np.ascontiguousarray(g.T).T
        elif lay == 3:
            big = np.zeros((2 * ny, 2 * nx), dtype=f.dtype)
            big[::2, ::2] = f
            f = big[::2, ::2]
        elif lay == 4 and ny * nx > 1:
            g = g.copy()
            g[-1, -1] = 1000 + n  # asymmetric marker cell: a flip/transpose/cropped sum changes the result
        out.append((f, g))
    return out


def pm_correspond(ctx):
    import sys
    if core.SRC not in sys.path:
        sys.path.insert(0, core.SRC)
    from bldfm.utils import point_measurement
    header = ("From Coq Require Import ZArith PrimFloat List Bool.\n"
              "From BL Require Import Base.Ops Base.FloatOps Model.Utils.\nImport ListNotations.\nOpen Scope float_scope.\n")
    def arr(a):
        return core.coq_list([core.coq_list(["(%s, 0%%float)" % core.flit(float(x)) for x in row]) for row in np.asarray(a)])
    terms, exp, n_ok = [], {}, 0
    for i, (f, g) in enumerate(pm_cases(ctx)):
        try:
            r = float(point_measurement(f, g))
        except Exception as e:  # the unchanged helper never raises on equal shapes
            ctx.fail("correspondence", "C02:point_measurement-%d" % i, "raises %s: %s" % (type(e).__name__, e),
                     hint={"pm": [np.asarray(f, float).tolist(), np.asarray(g, float).tolist()]})
            continue
        exp[str(i)] = (r, f, g)
        terms.append((str(i), "let r := point_measurement FloatOps %s %s in (PrimFloat.eqb (fst r) %s && PrimFloat.eqb (snd r) 0%%float)%%bool"
                      % (arr(f), arr(g), core.flit(r))))
    res = core.coq_eval_sharded(ctx, "c02pm", header, terms, shard=16)
    if "__error__" in res:
        ctx.fail("correspondence", "C02:point_measurement-eval", res["__error__"])
    for cid, (r, f, g) in exp.items():
        if res.get(cid) == "true":
            n_ok += 1
        else:
            ctx.fail("correspondence", "C02:point_measurement-%s" % cid,
                     "utils.point_measurement returned %r; Model/Utils.point_measurement (FloatOps, exact on integer data) disagrees (%s)" % (r, res.get(cid)),
                     hint={"pm": [np.asarray(f, float).tolist(), np.asarray(g, float).tolist()]})
    ctx.cov["point_measurement_cases"] = {"evaluated": len(exp), "agree": n_ok,
        "rule": "integer-valued arrays of shapes incl. ny != nx, 1 x n, n x 1; int/float dtypes; C/F/strided layouts; asymmetric marker cell"}


def check(ctx):
    core.check_properties_file(ctx, "Properties/C02.v", THEOREMS, core.AX_NONE)
    core.check_properties_file(ctx, "Properties/SinglePrecisionProps.v", THEOREMS_SINGLE, core.AX_REALS, coqchk=False)
    solverslices.run(ctx)
    pm_structure(ctx)
    pm_correspond(ctx)
    cases, kinds = gen(ctx)
    recs = sc.correspond(ctx, cases, "c02_")
    sc.summarize(ctx, cases, recs,
                 "footprint and forward solves over halo kinds {None(default), 0, commensurate, incommensurate in x / y / both} x dx != dy x mode truncations x both precisions, on-grid measurement points; non-trivial = halo not a whole number of cells in some direction or non-zero measurement point",
                 nontrivial=lambda c: c["halo"] is None or c["meas_pt"] != (0.0, 0.0) or (c["halo"] or 0) > 0)
    h = {}
    for k in kinds:
        h[k] = h.get(k, 0) + 1
    ctx.cov.setdefault("histogram", {})["halo_kind"] = h


def probe(S, case):
    """sum(q*footprint) == forward flux at the tower; sum(q*G) == forward conc - bg"""
    out = []
    ny, nx = case["q0"].shape
    dx, dy = case["domain"][0] / nx, case["domain"][1] / ny
    lv = sc.levels_list(case)
    tol = 1e-4 if case["precision"] == "single" else 1e-9
    halo = case["halo"]
    hk = "default" if halo is None else ("commensurate" if (halo / dx) % 1 == 0 and (halo / dy) % 1 == 0 else "incommensurate")
    xs = np.linspace(0, case["domain"][0], nx, endpoint=False)  # the solver's own grid coordinates
    ys = np.linspace(0, case["domain"][1], ny, endpoint=False)
    import sys
    if core.SRC not in sys.path:
        sys.path.insert(0, core.SRC)
    from bldfm.utils import point_measurement as PM
    towers = [(i, j) for i in range(nx) for j in range(ny)] if nx * ny <= 42 and ny <= 3 + (nx * 7919) % 4 else         [(0, 0), (nx - 1, ny // 2), (nx // 2, ny - 1), (3 % nx, 0), (nx - 1, ny - 1)]
    for (im, jm) in dict.fromkeys(towers):
        fpc = dict(case, footprint=True, meas_pt=(float(xs[im]), float(ys[jm])), bg=0.0)
        fwc = dict(case, footprint=False, meas_pt=(0.0, 0.0))
        _, G, F = sc.call(S, fpc)
        _, C, Q = sc.call(S, fwc)
        G = np.asarray(G, float).reshape(len(lv), ny, nx)
        F = np.asarray(F, float).reshape(len(lv), ny, nx)
        C = np.asarray(C, float).reshape(len(lv), ny, nx)
        Q = np.asarray(Q, float).reshape(len(lv), ny, nx)
        for k in range(len(lv)):
            lhs_f, rhs_f = float(PM(case["q0"], F[k])), float(Q[k, jm, im])
            lhs_c, rhs_c = float(PM(case["q0"], G[k])), float(C[k, jm, im] - case["bg"])
            sf = max(np.abs(Q[k]).max(), 1e-300)
            scn = max(np.abs(C[k] - case["bg"]).max(), 1e-300)
            if abs(lhs_f - rhs_f) > tol * sf:
                out.append(("reciprocity:flux:halo-%s" % hk, "tower (%d,%d) level %d: point_measurement(q, fp)=%.12g, forward flux=%.12g" % (im, jm, lv[k], lhs_f, rhs_f)))
            # C - bg is formed from stored values: its own rounding is relative to |C| ~ |bg| (storage rounding in single)
            store = (2.0 ** -22 if case["precision"] == "single" else 2.0 ** -50) * abs(case["bg"])
            if abs(lhs_c - rhs_c) > tol * scn + store:
                out.append(("reciprocity:conc:halo-%s" % hk, "tower (%d,%d) level %d: point_measurement(q, G)=%.12g, forward conc-bg=%.12g" % (im, jm, lv[k], lhs_c, rhs_c)))
    return out


def oracle(ctx, hints):
    S = sc.impl()
    pool = [sc.from_full(h["case"]) for h in hints if h and "case" in h]
    cases, _ = gen(ctx)
    pool += cases[:: (1 if ctx.thorough else 2)]
    found = {}
    # the helper itself, on exact integer data: point_measurement(f, g) must be the sum over cells of f*g
    from bldfm.utils import point_measurement as PM
    pms = [(np.array(h["pm"][0]), np.array(h["pm"][1])) for h in hints if h and "pm" in h] + pm_cases(ctx)
    pm_hit = None
    for f, g in pms:
        want = sum(int(a) * int(b) for a, b in zip(np.asarray(f).ravel(order="C").tolist(), np.asarray(g).ravel(order="C").tolist()))
        try:
            got = float(PM(f, g))
        except Exception as e:
            got = "raises %s" % type(e).__name__
        if got != float(want) and pm_hit is None:
            pm_hit = {"signature": "point_measurement:not-sum-of-products",
                      "what": "C02 utils.point_measurement(f, g) = %r but sum over cells of f*g = %d for f=%r g=%r" % (got, want, np.asarray(f, float).tolist(), np.asarray(g, float).tolist()),
                      "replay": {"pm": [np.asarray(f, float).tolist(), np.asarray(g, float).tolist()], "want": want}}
    for case in pool:
        try:
            for sig, detail in probe(S, case):
                found.setdefault(sig, (detail, case))
        except Exception as e:
            found.setdefault("solver-raises:" + type(e).__name__, (str(e), case))
    return ([pm_hit] if pm_hit else []) + [{"signature": sig, "what": "C02 %s: %s on %r" % (sig, d, sc.describe(c)), "replay": {"case": sc.full(c), "detail": d}}
            for sig, (d, c) in found.items()]


def replay(body):
    S = sc.impl()
    if "pm" in body:
        from bldfm.utils import point_measurement as PM
        f, g = np.array(body["pm"][0]), np.array(body["pm"][1])
        got = float(PM(f, g))
        print("point_measurement =", got, "sum of products =", body["want"])
        print("FAILS" if got != float(body["want"]) else "holds on this input")
        return 1 if got != float(body["want"]) else 0
    res = probe(S, sc.from_full(body["case"]))
    for sig, d in res:
        print("FAILS", sig, d)
    if not res:
        print("holds on this input")
    return 1 if res else 0
