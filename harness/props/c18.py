"""C18 — NetCDF export/import is lossless and keeps every label attached to its data.

check():  (1) Properties/C18.v theorems + Print Assumptions;
          (1b) tie (B): harness/py2coq_io.py executes the CURRENT io.py symbolically (fail closed) into a description
              (build/C18/GenIo.v) and coq/Bridge/IoBridge.v re-proves that its meaning (Model/IoDesc.v) is the
              model's assemble / save / load for ALL results and tower lists;
          (2) REAL round trips save_footprints_to_netcdf -> file -> load_footprints_from_netcdf over
              towers 1..4 x steps 1..4 x 2-D/3-D x key order {config, reversed, subset, shuffled} x
              {string, integer} timestamps x {ustar, z0} forcing with hostile field values; every
              block / coordinate / label / met value is compared as a bit pattern (the property's own
              statement), and the loaded dataset (blocks as integer tokens, doubles as bit patterns,
              plus every ds.sel(tower=..)/ds.sel(time=..)/both) is compared with what Model/NetcdfAsm.v
              (the REPAIRED assembly) computes under vm_compute;
          (3) two real tiny run_bldfm_multitower runs pushed through the same comparison.
oracle(): the property's statement on the real code, independent of the Coq model.
"""
import itertools
import os
import re
import shutil
import sys
import tempfile

import numpy as np

import core

THEOREMS = ["C18_roundtrip", "C18_assembly", "C18_coords", "C18_labels", "C18_save_succeeds",
            "C18_labels_orig_refuted", "C18_select",
            "C18_fill_loop", "C18_fill_first", "C18_indexing", "C18_description_meaning", "C18_description_original"]
TRUSTED = [
    "Model/NetcdfAsm.v is hand-written (repaired save_footprints_to_netcdf: array assembly, coordinate slicing, "
    "by-name tower metadata, met series, selection); tied to bldfm.io (A) by exact differential execution of real "
    "save/load round trips on every run and (B) for ALL results / tower lists by harness/py2coq_io.py + "
    "coq/Bridge/IoBridge.v (re-extracted and re-proved on every run)",
    "harness/py2coq_io.py (fail-closed symbolic executor of save_footprints_to_netcdf / load_footprints_from_netcdf and "
    "the module level of io.py) and the meaning Model/IoDesc.v gives its output: np.zeros + `a[i, j] = v` as shape + "
    "index map with IndexError, `for .. in enumerate(..)` as fold_left in source order, basic indexing G[0, :, 0] on "
    "nested lists, dict / list comprehensions over config.towers, None -> NaN on assignment into a float array, "
    "xr.Dataset(data_vars, coords) as the record of its members looked up by name; zlib/complevel/shuffle/chunksizes/"
    "fletcher32/contiguous are the only encoding keys taken to leave the stored values alone",
    "xarray / netCDF4 / HDF5 / zlib are not modelled: they are the Section variables write/read with the hypothesis "
    "read (write d) = d, validated (not proved) by bit-level comparison of real round trips over the property's space",
    "numpy slice assignment flx_data[t, ti] = block copies the whole block (blocks are opaque tokens in the model); "
    "validated by the bit-level comparison of every element of every block",
]
ASSUMPTIONS = [
    "tie (B): the name comparison is reflexive (eqbN a a = true: a dict finds a key it contains) - hypothesis of bridge_save / "
    "C18_description_meaning; the encoding keys zlib/complevel/shuffle/fletcher32/contiguous/chunksizes do not change stored values",
    "results is a dict (unique keys) of equally shaped results; per-step met values and timestamps are the same for "
    "all towers (as run_bldfm_multitower produces them): they are taken from the first tower",
    "tower names in the configuration are unique and time labels str(timestamp) are pairwise distinct (needed only "
    "for 'its own' metadata and for selection by label)",
    "timestamps: the file stores text; an integer timestamp i comes back as the label str(i) (injective, int(label) == i); "
    "this is read as 'the same timestamp' (the repository's own test expects str(timestamp))",
    "z0 forcing: params['ustar'] is None and is stored as NaN (numpy converts None on assignment; no exception); the "
    "scalar configuration value z0 is not a per-step value and is not exported - not claimed as a violation",
    "field values NaN/inf are outside the property's quantifier and are not generated",
]
SWEEP_IN_THOROUGH = True

U64 = np.uint64

SPECIALS = [
    -0.0, 0.0, 5e-324, -5e-324, 1e-310, -1e-310, 2.2250738585072014e-308, -2.2250738585072014e-308,
    1e300, -1e300, 1.7976931348623157e308, -1.7976931348623157e308, 1.0, -1.0, 0.1, -0.1,
    3.141592653589793, -2.5e-17, 1e-300, -1e-300, 123456789.123456789, -4.9406564584124654e-322,
    # values that file formats like to reserve: the netCDF library's default fill values for double and float (as doubles),
    # classic missing-value markers - in a footprint or concentration field they are data like any other number
    9.969209968386869e36, float(np.float32(9.969209968386869e36)), -9.969209968386869e36, -9999.0, -999.0, 1e20, 9.96921e36,
]


# ------------------------------------------------------------------------------------------------
# implementation access


def _impl():
    os.environ.setdefault("NUMBA_CACHE_DIR", os.path.join(core.VERIF, "build", "numba_cache"))
    sys.dont_write_bytecode = True
    if core.SRC not in sys.path:
        sys.path.insert(0, core.SRC)
    import importlib
    import logging

    import bldfm.config_parser as cp
    import bldfm.io as bio

    importlib.reload(bio)
    logging.getLogger("bldfm").setLevel(logging.ERROR)
    logging.getLogger("bldfm.io").setLevel(logging.ERROR)
    logging.getLogger("io").setLevel(logging.ERROR)
    return bio, cp


def bits(a):
    return np.ascontiguousarray(np.asarray(a, dtype=np.float64)).view(U64)


def fbits(x):
    return int(np.array([x], dtype=np.float64).view(U64)[0])


# ------------------------------------------------------------------------------------------------
# cases


def order_name(keys, nt):
    if list(keys) == list(range(nt)):
        return "config"
    if len(keys) < nt:
        return "subset"
    if list(keys) == list(range(nt))[::-1]:
        return "reversed"
    return "shuffled"


def space(ctx):
    rng = ctx.rng
    reps = 3 if ctx.thorough else 1
    out = []
    for rep in range(reps):
        for nt, ns, d3, ts, forcing in itertools.product([1, 2, 3, 4], [1, 2, 3, 4], [False, True],
                                                         ["str", "int"], ["ustar", "z0"]):
            orders = [list(range(nt))]
            if nt >= 2:
                orders.append(list(range(nt))[::-1])
                k = rng.randint(1, nt - 1)
                sub = sorted(rng.sample(range(nt), k))
                if rng.random() < 0.5:
                    sub = sub[::-1]
                orders.append(sub)
            if nt >= 3:
                sh = list(range(nt))
                while order_name(sh, nt) != "shuffled":
                    rng.shuffle(sh)
                orders.append(sh)
            for keys in orders:
                out.append({
                    "nt": nt, "ns": ns, "d3": d3, "ts": ts, "forcing": forcing, "keys": keys,
                    "nz": rng.choice([1, 2, 3]) if d3 else 0,
                    "ny": rng.choice([1, 2, 3]), "nx": rng.choice([2, 3, 4, 5]),
                    "grid1d": (not d3) and rng.random() < 0.25,
                    "seed": rng.randrange(1 << 30),
                })
    return out


def rand_block(rng, shape, ident):
    n = int(np.prod(shape))
    raw = rng.integers(0, 1 << 64, size=n, dtype=np.uint64)
    vals = raw.view(np.float64).copy()
    bad = ~np.isfinite(vals)
    vals[bad] = np.asarray(SPECIALS)[rng.integers(0, len(SPECIALS), size=int(bad.sum()))]
    pick = rng.random(n) < 0.5
    vals[pick] = np.asarray(SPECIALS)[rng.integers(0, len(SPECIALS), size=int(pick.sum()))]
    # a unique identity value so that two blocks never coincide
    vals[rng.integers(0, n)] = (1000.0 + ident) * (1.0 if ident % 2 else -1.0) + 0.25
    return vals.reshape(shape)


def rand_vec(rng, n, lo, hi):
    v = np.sort(rng.uniform(lo, hi, size=n))
    # make sure the entries are pairwise distinct
    return v + np.arange(n) * 1e-3


def build(cp, case):
    """-> (results dict, config, info) in the format run_bldfm_multitower returns."""
    rng = np.random.default_rng(case["seed"])
    nt, ns, d3 = case["nt"], case["ns"], case["d3"]
    ny, nx, nz = case["ny"], case["nx"], case["nz"]
    cfg_names = ["tower_%s" % "ABCD"[i] for i in range(nt)]
    towers = [{"name": n, "lat": 50.0 + float(rng.uniform(-0.01, 0.01)), "lon": 8.0 + float(rng.uniform(-0.01, 0.01)),
               "z_m": float(rng.uniform(1.5, 30.0))} for n in cfg_names]
    # a tower on the equator / on the prime meridian / at (0, 0) of an idealised frame: 0.0 is a coordinate, not "missing"
    zero = case["seed"] % 6
    if zero in (0, 2):
        towers[0]["lat"] = 0.0
    if zero in (1, 2):
        towers[-1]["lon"] = 0.0
    config = cp.parse_config_dict({
        "domain": {"nx": nx, "ny": ny, "xmax": 100.0, "ymax": 80.0, "nz": 4, "ref_lat": 50.0, "ref_lon": 8.0},
        "towers": towers,
        "met": ({"z0": 0.1} if case["forcing"] == "z0" else {"ustar": 0.4}),
    })
    xs = rand_vec(rng, nx, -50.0, 50.0)
    ys = rand_vec(rng, ny, -40.0, 40.0)
    if d3:
        zs = rand_vec(rng, nz, 0.0, 20.0)
        # the solver returns z[levels] in the order the levels were requested (output_levels such as [6, 2, 4]):
        # the height coordinate need not be ascending, and every slice must keep ITS height
        if nz > 1 and case["seed"] % 2 == 1:
            zs = zs[::-1].copy() if case["seed"] % 4 == 1 else np.roll(zs, 1)
        Z, Y, X = np.meshgrid(zs, ys, xs, indexing="ij")
        shape = (nz, ny, nx)
    else:
        zs = None
        if case.get("grid1d"):
            X, Y = xs.copy(), ys.copy()
            Z = np.full((ny, nx), 2.0)
        else:
            X, Y = np.meshgrid(xs, ys)
            Z = np.full((ny, nx), 2.0)
        shape = (ny, nx)
    if case["ts"] == "str" and case["seed"] % 3 == 1:
        # clock-time / day-of-year labels: strings that LOOK like integers but are not in canonical integer form
        stamps = ["%04d" % (30 * t) if case["seed"] % 2 else "%03d" % (t + 1) for t in range(ns)]
    elif case["ts"] == "str":
        stamps = ["2024-06-%02dT%02d:30" % (1 + t, (7 * t) % 24) for t in range(ns)]
    else:
        base = int(rng.integers(0, 3)) * 1717200000
        stamps = [base + 1800 * t for t in range(ns)]
    met = []
    for t in range(ns):
        met.append({
            "ustar": None if case["forcing"] == "z0" else float(rng.uniform(0.05, 1.0)),
            "mol": float(rng.choice([-1.0, 1.0]) * rng.uniform(5.0, 2000.0)),
            "wind_speed": float(rng.uniform(0.5, 15.0)),
            "wind_dir": float(rng.uniform(0.0, 360.0)),
            "z0": 0.1 if case["forcing"] == "z0" else None,
            "timestamp": stamps[t],
        })
    results = {}
    ident = 0
    for k in case["keys"]:
        name = cfg_names[k]
        lst = []
        for t in range(ns):
            ident += 2
            flx_block = rand_block(rng, shape, ident)
            if case["seed"] % 3 == 2 and ident == 2:
                # results need not share one dtype (a footprint kept in single precision next to double-precision
                # fields): the first block handed to the writer is float32, every value of it exactly representable
                with np.errstate(over="ignore", invalid="ignore"):
                    f32 = flx_block.astype(np.float32)
                f32[~np.isfinite(f32)] = np.float32(1.5)
                flx_block = f32
            lst.append({
                "grid": (X, Y, Z),
                "flx": flx_block,
                "conc": rand_block(rng, shape, ident + 1),
                "tower_name": name,
                "tower_xy": (0.0, 0.0),
                "timestamp": stamps[t],
                "params": dict(met[t]),
            })
        results[name] = lst
    info = {"xs": xs, "ys": ys, "zs": zs, "cfg_names": cfg_names, "stamps": stamps}
    return results, config, info


# ------------------------------------------------------------------------------------------------
# one real round trip, the property's own statement, and the encoding for the model comparison


class Tokens:
    """integer tokens for blocks (by byte content), names and time labels"""

    def __init__(self, results, cfg_names):
        self.blocks = {}
        self.name_tok = {n: i + 1 for i, n in enumerate(cfg_names)}
        self.lab_tok = {}
        self.stamp_tok = {}
        for lst in results.values():
            for r in lst:
                for key in ("flx", "conc"):
                    b = np.ascontiguousarray(r[key], dtype=np.float64).tobytes()
                    if b not in self.blocks:
                        self.blocks[b] = len(self.blocks) + 1
                ts = r["timestamp"]
                if repr(ts) not in self.stamp_tok:
                    tok = 7000 + len(self.stamp_tok)
                    self.stamp_tok[repr(ts)] = tok
                    self.lab_tok.setdefault(str(ts), tok)

    def block(self, arr):
        a = np.ascontiguousarray(arr)
        if a.dtype == np.float32:
            a = a.astype(np.float64)   # exact: blocks are identified by their values as doubles
        if a.dtype != np.float64:
            return -8
        b = a.tobytes()
        if b in self.blocks:
            return self.blocks[b]
        if not a.view(U64).any():
            return 0
        return -7

    def name(self, n):
        return self.name_tok.get(str(n), -5)

    def stamp(self, ts):
        return self.stamp_tok[repr(ts)]

    def label(self, s):
        return self.lab_tok.get(str(s), -5)


def vbits(a):
    a = np.asarray(a)
    if a.dtype != np.float64:
        return [-8]
    return [int(v) for v in np.ascontiguousarray(a).view(U64).ravel()]


def nanbits(a):
    a = np.asarray(a)
    if a.dtype != np.float64:
        return [-8]
    return [-1 if np.isnan(v) else fbits(v) for v in a.ravel()]


# File names a user may choose (the property quantifies over "saving ... and loading them back", not over names):
# rotated through on consecutive round trips; the two dotted names of one generation differ only after the last dot.
NAME_STYLES = ["rt_%d.nc", "run_%d.2024.06.01", "run_%d.2024.06.02", "noext_%d", "x.y_%d.nc4", "sub_%d/dir/out.nc", "run_%d.v1.nc", "run_%d.v2.nc"]
_RT = {"n": 0, "prev": None}
LAST_HISTORY = [None]


def ds_digest(ds):
    import hashlib

    h = hashlib.sha1()
    for var in ("footprint", "concentration"):
        if var in ds:
            h.update(np.ascontiguousarray(ds[var].values).tobytes())
    for coord in ("time", "tower"):
        if coord in ds.coords:
            h.update(repr([str(v) for v in ds[coord].values]).encode())
    return h.hexdigest()


def roundtrip(bio, results, config, workdir, path=None):
    """-> (ds or None, exception or None).  Consecutive round trips use different file names in one directory and the
    PREVIOUS file is loaded again after the current save: an earlier export must still hold its own data (history of
    saves) — a problem is left in LAST_HISTORY for property_problems."""
    LAST_HISTORY[0] = None
    if path is None:
        k = _RT["n"]
        _RT["n"] += 1
        path = os.path.join(workdir, NAME_STYLES[k % len(NAME_STYLES)] % (k // len(NAME_STYLES)))
    if os.path.exists(path):
        os.remove(path)
    try:
        bio.save_footprints_to_netcdf(results, config, path)
    except Exception as e:  # noqa: BLE001 - any raise is an outcome
        return None, e
    ds = bio.load_footprints_from_netcdf(path)
    ds.load()
    ds.close()
    prev = _RT["prev"]
    if prev is not None and prev[0] != path and os.path.dirname(prev[0]) and os.path.isdir(os.path.dirname(prev[0])):
        try:
            again = bio.load_footprints_from_netcdf(prev[0])
            again.load()
            again.close()
            if ds_digest(again) != prev[1]:
                LAST_HISTORY[0] = ("after saving other results to %r, loading the earlier export %r no longer returns the data that were saved to it"
                                   % (os.path.relpath(path, workdir), os.path.relpath(prev[0], workdir)))
        except Exception as e:  # noqa: BLE001
            LAST_HISTORY[0] = "after saving other results to %r, loading the earlier export %r raises %s" % (
                os.path.relpath(path, workdir), os.path.relpath(prev[0], workdir), type(e).__name__)
        # the file before the previous one is no longer needed
        try:
            if prev[2] and os.path.exists(prev[2]):
                os.remove(prev[2])
        except OSError:
            pass
    _RT["prev"] = (path, ds_digest(ds), prev[0] if prev else None)
    return ds, None


def eq_bits(a, b):
    a = np.asarray(a)
    b = np.asarray(b)
    if a.dtype != np.float64 or a.shape != b.shape:
        return False
    return bool(np.array_equal(bits(a), bits(b)))


def property_problems(results, config, info, ds, exc):
    """The property's own statement.  -> list of (kind, detail)."""
    probs = []
    if exc is not None:
        return [("raise", "%s: %s" % (type(exc).__name__, str(exc)[:300]))]
    if LAST_HISTORY[0]:
        probs.append(("history", LAST_HISTORY[0]))
        LAST_HISTORY[0] = None
    names = list(results.keys())
    first = results[names[0]]
    by_name = {t.name: t for t in config.towers}
    d3 = first[0]["flx"].ndim == 3
    loaded_names = [str(v) for v in ds["tower"].values]
    if loaded_names != names:
        probs.append(("tower-names", "tower coordinate %r, results keys %r" % (loaded_names, names)))
    # labels: each loaded name with ITS lat / lon / height
    for ti, nm in enumerate(loaded_names):
        tw = by_name.get(nm)
        if tw is None:
            continue
        for var, want in (("tower_lat", tw.lat), ("tower_lon", tw.lon), ("tower_z", tw.z_m)):
            got = ds[var].values
            if got.shape != (len(loaded_names),) or got.dtype != np.float64 or fbits(got[ti]) != fbits(want):
                probs.append(("labels", "tower %r (position %d) carries %s=%r, its own is %r"
                              % (nm, ti, var, got[ti].item() if ti < got.size else None, want)))
    # time labels
    want_labels = [str(r["timestamp"]) for r in first]
    got_labels = [str(v) for v in ds["time"].values]
    if got_labels != want_labels:
        probs.append(("timestamps", "time coordinate %r, expected %r" % (got_labels, want_labels)))
    else:
        for r, lab in zip(first, got_labels):
            if isinstance(r["timestamp"], int) and int(lab) != r["timestamp"]:
                probs.append(("timestamps", "integer timestamp %r came back as %r" % (r["timestamp"], lab)))
    if len(set(got_labels)) != len(got_labels):
        probs.append(("timestamps", "time labels not distinct: %r" % got_labels))
    # coordinates
    for var, want in (("x", info["xs"]), ("y", info["ys"])) + ((("z", info["zs"]),) if d3 else ()):
        if var not in ds.coords or not eq_bits(ds[var].values, want):
            probs.append(("coords", "%s coordinate %r, expected %r" % (var, ds[var].values.tolist() if var in ds.coords else None, list(want))))
    if not d3 and "z" in ds.dims:
        probs.append(("coords", "2-D output has a z dimension"))
    # blocks, following the LOADED labels
    for var, key in (("footprint", "flx"), ("concentration", "conc")):
        arr = ds[var].values
        exp_shape = (len(first), len(names)) + first[0][key].shape
        if arr.dtype != np.float64 or arr.shape != exp_shape:
            probs.append(("values", "%s has dtype %s shape %s, expected float64 %s" % (var, arr.dtype, arr.shape, exp_shape)))
            continue
        for ti, nm in enumerate(loaded_names):
            if nm not in results:
                continue
            for t in range(len(first)):
                want = results[nm][t][key]
                if not eq_bits(arr[t, ti], want):
                    d = np.argwhere(bits(arr[t, ti]) != bits(want))[0].tolist()
                    probs.append(("values", "%s[time=%d, tower=%r] differs from the result's %s at index %s: %r vs %r"
                                  % (var, t, nm, key, d, arr[t, ti][tuple(d)].item(), np.asarray(want)[tuple(d)].item())))
                    break
    # met
    for var in ("ustar", "mol", "wind_speed", "wind_dir"):
        if var not in ds:
            probs.append(("met", "variable %s missing" % var))
            continue
        got = ds[var].values
        for t, r in enumerate(first):
            want = r["params"][var]
            ok = got.shape == (len(first),) and got.dtype == np.float64 and (
                np.isnan(got[t]) if want is None else fbits(got[t]) == fbits(want))
            if not ok:
                probs.append(("met", "%s[%d] = %r, the step's value is %r" % (var, t, got[t].item() if t < got.size else None, want)))
                break
    # selection by name / by label / by both
    try:
        for nm in names:
            sub = ds.sel(tower=nm)
            for var, key in (("footprint", "flx"), ("concentration", "conc")):
                want = np.stack([r[key] for r in results[nm]])
                if not eq_bits(sub[var].values, want):
                    probs.append(("select-tower", "ds.sel(tower=%r)[%s] is not that tower's series" % (nm, var)))
            tw = by_name.get(nm)
            if tw is not None and (fbits(sub["tower_lat"].values) != fbits(tw.lat) or fbits(sub["tower_lon"].values) != fbits(tw.lon)
                                   or fbits(sub["tower_z"].values) != fbits(tw.z_m)):
                probs.append(("labels", "ds.sel(tower=%r) carries lat/lon/z = %r/%r/%r, its own are %r/%r/%r" % (
                    nm, sub["tower_lat"].item(), sub["tower_lon"].item(), sub["tower_z"].item(), tw.lat, tw.lon, tw.z_m)))
        for t, r in enumerate(first):
            lab = str(r["timestamp"])
            sub = ds.sel(time=lab)
            for var, key in (("footprint", "flx"), ("concentration", "conc")):
                want = np.stack([results[nm][t][key] for nm in names])
                if not eq_bits(sub[var].values, want):
                    probs.append(("select-time", "ds.sel(time=%r)[%s] is not that step's fields" % (lab, var)))
            for nm in names:
                one = ds.sel(tower=nm, time=lab)
                if not eq_bits(one["footprint"].values, results[nm][t]["flx"]) or not eq_bits(one["concentration"].values, results[nm][t]["conc"]):
                    probs.append(("select-both", "ds.sel(tower=%r, time=%r) is not that tower's and step's field" % (nm, lab)))
    except Exception as e:  # noqa: BLE001
        probs.append(("select-raises", "%s: %s" % (type(e).__name__, str(e)[:200])))
    return probs


def encode_loaded(results, info, ds, tk):
    """encoding of the LOADED dataset, row for row what Model/NetcdfExec.enc_ds produces"""
    names = [str(v) for v in ds["tower"].values]
    labels = [str(v) for v in ds["time"].values]
    fp = ds["footprint"].values
    cc = ds["concentration"].values
    nT, nW = fp.shape[0], fp.shape[1]
    rows = [[nT, cc.shape[0], len(names)]]
    rows.append(vbits(ds["x"].values))
    rows.append(vbits(ds["y"].values))
    rows.append(([1] + vbits(ds["z"].values)) if "z" in ds.coords else [0])
    rows.append([tk.label(s) for s in labels])
    rows.append([tk.name(n) for n in names])
    rows.append([tk.block(fp[t, ti]) for t in range(nT) for ti in range(nW)])
    rows.append([tk.block(cc[t, ti]) for t in range(cc.shape[0]) for ti in range(cc.shape[1])])
    rows.append(nanbits(ds["ustar"].values))
    for var in ("mol", "wind_speed", "wind_dir", "tower_lat", "tower_lon", "tower_z"):
        rows.append(vbits(ds[var].values))
    # selections through xarray
    for nm in names:
        for lab in labels:
            try:
                one = ds.sel(tower=nm, time=lab)
                rows.append([tk.name(nm), tk.label(lab), tk.block(one["footprint"].values), tk.block(one["concentration"].values)])
            except Exception:  # noqa: BLE001
                rows.append([tk.name(nm), tk.label(lab), -999])
    for nm in names:
        try:
            sub = ds.sel(tower=nm)
            rows.append([tk.name(nm)] + vbits(sub["tower_lat"].values) + vbits(sub["tower_lon"].values) + vbits(sub["tower_z"].values)
                        + [tk.block(sub["footprint"].values[t]) for t in range(nT)]
                        + [tk.block(sub["concentration"].values[t]) for t in range(nT)])
        except Exception:  # noqa: BLE001
            rows.append([tk.name(nm), -999])
    for lab in labels:
        try:
            sub = ds.sel(time=lab)
            rows.append([tk.label(lab)] + nanbits(sub["ustar"].values) + vbits(sub["mol"].values) + vbits(sub["wind_speed"].values)
                        + vbits(sub["wind_dir"].values)
                        + [tk.block(sub["footprint"].values[ti]) for ti in range(nW)]
                        + [tk.block(sub["concentration"].values[ti]) for ti in range(nW)])
        except Exception:  # noqa: BLE001
            rows.append([tk.label(lab), -999])
    return rows


def zl(v):
    return "(%d)" % v


def coq_list(xs):
    return "[" + "; ".join(xs) + "]"


def coq_mesh(a):
    a = np.asarray(a, dtype=np.float64)
    if a.ndim == 1:
        return "(M1 %s)" % coq_list([zl(v) for v in vbits(a)])
    if a.ndim == 2:
        return "(M2 %s)" % coq_list([coq_list([zl(v) for v in vbits(r)]) for r in a])
    return "(M3 %s)" % coq_list([coq_list([coq_list([zl(v) for v in vbits(r)]) for r in p]) for p in a])


def coq_inputs(results, config, tk):
    """Coq terms for the INPUT (results, towers) of one case; grids bound once by `let`."""
    first = next(iter(results.values()))[0]
    X, Y, Z = first["grid"]
    lets = "let gX := %s in let gY := %s in let gZ := %s in " % (coq_mesh(X), coq_mesh(Y), coq_mesh(Z))
    ents = []
    for nm, lst in results.items():
        rs = []
        for r in lst:
            p = r["params"]
            rs.append("(@mkRes Z Z Z Z gX gY gZ %s %s %s %s %s %s %s %s)" % (
                "true" if r["flx"].ndim == 3 else "false", zl(tk.block(r["flx"])), zl(tk.block(r["conc"])),
                zl(tk.stamp(r["timestamp"])),
                "None" if p["ustar"] is None else "(Some %s)" % zl(fbits(p["ustar"])),
                zl(fbits(p["mol"])), zl(fbits(p["wind_speed"])), zl(fbits(p["wind_dir"]))))
        ents.append("(%s, %s)" % (zl(tk.name(nm)), coq_list(rs)))
    tws = ["(@mkTower Z Z %s %s %s %s)" % (zl(tk.name(t.name)), zl(fbits(t.lat)), zl(fbits(t.lon)), zl(fbits(t.z_m)))
           for t in config.towers]
    return lets, coq_list(ents), coq_list(tws)


def coq_expected(rows):
    if rows is None:
        return "None"
    return "(Some %s)" % coq_list([coq_list([zl(v) for v in r]) for r in rows])


HEADER = ("From Coq Require Import List ZArith Bool.\nFrom BL Require Import Model.NetcdfAsm Model.NetcdfExec.\n"
          "Import ListNotations.\nOpen Scope Z_scope.\n")


def model_compare(ctx, prefix, items, which="agree"):
    """items: [(index, lets, rs, tws, expected_rows)] -> {index: first differing row} for disagreeing cases"""
    B = 20
    terms = []
    for b in range(0, len(items), B):
        parts = ["(%d, %s%s %s %s %s)" % (i, lets, which, rs, tws, coq_expected(rows)) for i, lets, rs, tws, rows in items[b:b + B]]
        terms.append(("b%d" % b, "filter (fun p => negb (Z.eqb (snd p) (-1))) %s" % coq_list(parts)))
    res = core.coq_eval_sharded(ctx, prefix, HEADER, terms, shard=4, timeout=900)
    bad = {}
    if "__error__" in res:
        ctx.fail("correspondence", "C18:coq-eval", res["__error__"])
    for b in range(0, len(items), B):
        r = res.get("b%d" % b)
        if r is None:
            ctx.fail("correspondence", "C18:missing-batch-%s-%d" % (prefix, b), "no output")
            continue
        for m in re.finditer(r"\((-?\d+)(?:%Z)?,\s*(-?\d+)(?:%Z)?\)", r):
            bad[int(m.group(1))] = int(m.group(2))
    return bad


ROW_NAMES = ["shape", "x", "y", "z", "time labels", "tower names", "footprint blocks", "concentration blocks", "ustar", "mol",
             "wind_speed", "wind_dir", "tower_lat", "tower_lon", "tower_z"]


def row_name(k):
    if k == -2:
        return "raise / no-raise"
    return ROW_NAMES[k] if 0 <= k < len(ROW_NAMES) else "selection row %d" % (k - len(ROW_NAMES))


# ------------------------------------------------------------------------------------------------
# real tiny solver runs


def real_runs(ctx, cp):
    if core.SRC not in sys.path:
        sys.path.insert(0, core.SRC)
    import logging

    import bldfm.interface as itf

    logging.getLogger("bldfm").setLevel(logging.ERROR)
    out = []
    specs = [
        ("real-2d-ustar", {"nx": 6, "ny": 4, "xmax": 60.0, "ymax": 40.0, "nz": 4, "modes": [6, 4], "ref_lat": 50.0, "ref_lon": 8.0},
         {"ustar": [0.4, 0.5], "mol": [-100.0, 300.0], "wind_speed": [4.0, 6.0], "wind_dir": [250.0, 20.0]}, 3),
        ("real-3d-z0", {"nx": 4, "ny": 6, "xmax": 40.0, "ymax": 60.0, "nz": 4, "modes": [4, 6], "ref_lat": 50.0, "ref_lon": 8.0,
                        "output_levels": [4, 1, 2]},
         {"z0": 0.05, "mol": [-80.0, 500.0, -300.0], "wind_speed": [3.0, 5.0, 4.5], "wind_dir": [90.0, 200.0, 315.0],
          "timestamps": ["2024-01-01T00:00", "2024-01-01T00:30", "2024-01-01T01:00"]}, 2),
    ]
    for name, dom, met, nt in specs:
        raw = {"domain": dom,
               "towers": [{"name": "tw%d" % i, "lat": 50.0 + 0.0001 * (i + 1), "lon": 8.0 + 0.0001 * (2 - i), "z_m": 2.0 + 0.5 * i}
                          for i in range(nt)],
               "met": met, "solver": {"closure": "MOST", "footprint": True}}
        config = cp.parse_config_dict(raw)
        results = itf.run_bldfm_multitower(config)
        out.append((name, results, config))
    return out


def real_info(results):
    first = next(iter(results.values()))[0]
    X, Y, Z = first["grid"]
    d3 = first["flx"].ndim == 3
    if d3:
        # independent of the code's slicing: every line of the mesh must equal the coordinate vector
        xs, ys, zs = X[0, 0, :], Y[0, :, 0], Z[:, 0, 0]
        ok = (np.array_equal(bits(X), bits(np.broadcast_to(xs[None, None, :], X.shape)))
              and np.array_equal(bits(Y), bits(np.broadcast_to(ys[None, :, None], Y.shape)))
              and np.array_equal(bits(Z), bits(np.broadcast_to(zs[:, None, None], Z.shape))))
    else:
        zs = None
        xs = X[0, :] if X.ndim == 2 else X
        ys = Y[:, 0] if Y.ndim == 2 else Y
        ok = (X.ndim != 2 or np.array_equal(bits(X), bits(np.broadcast_to(xs[None, :], X.shape)))) and (
            Y.ndim != 2 or np.array_equal(bits(Y), bits(np.broadcast_to(ys[:, None], Y.shape))))
    return {"xs": xs, "ys": ys, "zs": zs, "mesh_is_meshgrid": bool(ok)}


# ------------------------------------------------------------------------------------------------


def classify(kind, case):
    o = order_name(case["keys"], case["nt"])
    if kind == "labels":
        return "labels:reordered-results" if o in ("reversed", "shuffled") else ("labels:subset-results" if o == "subset" else "labels:config-order")
    return {"values": "roundtrip:values", "coords": "roundtrip:coords", "timestamps": "roundtrip:timestamps",
            "met": "roundtrip:met", "tower-names": "roundtrip:tower-names", "select-tower": "select:tower",
            "select-time": "select:time", "select-both": "select:tower-and-time", "select-raises": "select:raises",
            "history": "history:earlier-export-changed-by-a-later-save"}.get(kind, "roundtrip:" + kind)


def classify_raise(bio, cp, case, workdir):
    """which ingredient of the case makes saving raise"""
    def raises(c):
        results, config, info = build(cp, c)
        ds, exc = roundtrip(bio, results, config, workdir)
        return exc is not None
    o = order_name(case["keys"], case["nt"])
    if o != "config":
        base = dict(case, keys=list(range(case["nt"])))
        if not raises(base):
            return "labels:subset-results" if o == "subset" else "labels:reordered-results"
        case = base
    if case["forcing"] == "z0" and not raises(dict(case, forcing="ustar")):
        return "z0-forcing:save-raises"
    if case["ts"] == "int" and not raises(dict(case, ts="str")):
        return "timestamps:integer-save-raises"
    return "save:raises"


def case_size(case):
    return (len(case["keys"]), case["nt"], case["ns"], int(case["d3"]), case["nz"] * case["ny"] * case["nx"] if case["d3"] else case["ny"] * case["nx"])


def check(ctx):
    core.check_properties_file(ctx, "Properties/C18.v", THEOREMS, core.AX_NONE)
    # tie (B): the current io.py is translated (fail closed) into a description and bridged to the model for ALL inputs
    import py2coq_io
    py2coq_io.run(ctx)
    bio, cp = _impl()
    workdir = tempfile.mkdtemp(prefix="c18_", dir=ctx.build)
    cases = space(ctx)
    items = []
    hist = {"raised": 0, "2d": 0, "3d": 0, "order": {}, "ts": {}, "forcing": {}, "grid1d": 0, "towers_x_steps": {}}
    n_blocks = 0
    n_elems = 0
    prop_bad = 0
    samples = []
    for i, case in enumerate(cases):
        results, config, info = build(cp, case)
        tk = Tokens(results, info["cfg_names"])
        ds, exc = roundtrip(bio, results, config, workdir)
        probs = property_problems(results, config, info, ds, exc)
        if probs:
            prop_bad += 1
            if prop_bad <= 12:
                ctx.fail("roundtrip", "C18:roundtrip-case-%d" % i, "%s on %r" % (probs[0][1], case), hint={"case": case})
        rows = None if exc is not None else encode_loaded(results, info, ds, tk)
        lets, rs, tws = coq_inputs(results, config, tk)
        items.append((i, lets, rs, tws, rows))
        o = order_name(case["keys"], case["nt"])
        hist["order"][o] = hist["order"].get(o, 0) + 1
        hist["ts"][case["ts"]] = hist["ts"].get(case["ts"], 0) + 1
        hist["forcing"][case["forcing"]] = hist["forcing"].get(case["forcing"], 0) + 1
        hist["3d" if case["d3"] else "2d"] += 1
        hist["grid1d"] += int(bool(case.get("grid1d")))
        hist["raised"] += int(exc is not None)
        key = "%dx%d" % (len(case["keys"]), case["ns"])
        hist["towers_x_steps"][key] = hist["towers_x_steps"].get(key, 0) + 1
        if exc is None:
            n_blocks += 2 * len(case["keys"]) * case["ns"]
            n_elems += 2 * len(case["keys"]) * case["ns"] * (case["nz"] if case["d3"] else 1) * case["ny"] * case["nx"]
        if i % max(1, len(cases) // 5) == 3 and len(samples) < 6:
            samples.append({"case": case, "raised": None if exc is None else type(exc).__name__,
                            "loaded_towers": None if ds is None else [str(v) for v in ds["tower"].values],
                            "loaded_time": None if ds is None else [str(v) for v in ds["time"].values]})
    bad = model_compare(ctx, "c18cases", items)
    for i in sorted(bad)[:12]:
        ctx.fail("correspondence", "C18:case-%d" % i,
                 "repaired-assembly model and bldfm.io disagree at row '%s' on %r" % (row_name(bad[i]), cases[i]), hint={"case": cases[i]})
    orig_like = None
    if bad:
        sub = [it for it in items if it[0] in bad]
        bad_orig = model_compare(ctx, "c18orig", sub, which="agree_orig")
        orig_like = len(sub) - len(bad_orig)
        core.log("  C18: %d/%d disagreeing cases agree with the model of the ORIGINAL positional labelling" % (orig_like, len(sub)))

    # ragged results (a later tower with fewer steps): outside the property; recorded, never failing
    ragged = {"cases": 0, "model_agrees": 0}
    rag_items = []
    for j in range(6 if not ctx.thorough else 20):
        case = {"nt": 3, "ns": 3, "d3": bool(j % 2), "ts": "str", "forcing": "ustar", "keys": [0, 1, 2], "nz": 2 if j % 2 else 0,
                "ny": 2, "nx": 3, "grid1d": False, "seed": 9000 + j}
        results, config, info = build(cp, case)
        short = list(results.keys())[1 + j % 2]
        results[short] = results[short][: 1 + (j // 2) % 2]
        tk = Tokens(results, info["cfg_names"])
        ds, exc = roundtrip(bio, results, config, workdir)
        if exc is None:
            try:
                rows = encode_loaded(results, info, ds, tk)
            except Exception:  # noqa: BLE001
                continue
            lets, rs, tws = coq_inputs(results, config, tk)
            rag_items.append((j, lets, rs, tws, rows))
    if rag_items:
        res_r = model_compare(_Quiet(ctx), "c18ragged", rag_items)
        ragged = {"cases": len(rag_items), "model_agrees": len(rag_items) - len(res_r)}

    # real solver runs
    real = []
    try:
        runs = real_runs(ctx, cp)
    except Exception as e:  # noqa: BLE001
        import traceback
        ctx.fail("infrastructure", "C18:real-run", traceback.format_exc())
        runs = []
    ritems = []
    rcases = []
    for name, results0, config in runs:
        keys0 = list(results0.keys())
        for oname, keys in (("config", keys0), ("reversed", keys0[::-1]), ("subset", keys0[1:])):
            results = {k: results0[k] for k in keys}
            info = real_info(results)
            info["cfg_names"] = [t.name for t in config.towers]
            tk = Tokens(results, info["cfg_names"])
            ds, exc = roundtrip(bio, results, config, workdir)
            probs = property_problems(results, config, info, ds, exc)
            if not info["mesh_is_meshgrid"]:
                probs.append(("coords", "solver grid is not a meshgrid of its first lines"))
            case = {"real": name, "order": oname}
            if probs:
                ctx.fail("roundtrip", "C18:%s-%s" % (name, oname), probs[0][1], hint={"real": name, "order": oname})
            rows = None if exc is not None else encode_loaded(results, info, ds, tk)
            lets, rs, tws = coq_inputs(results, config, tk)
            ritems.append((len(ritems), lets, rs, tws, rows))
            rcases.append(case)
            real.append({"run": name, "order": oname, "towers": keys, "steps": len(results[keys[0]]),
                         "shape": list(results[keys[0]][0]["flx"].shape), "problems": [p[0] for p in probs]})
            if exc is None:
                n_blocks += 2 * len(keys) * len(results[keys[0]])
                n_elems += 2 * len(keys) * len(results[keys[0]]) * int(np.prod(results[keys[0]][0]["flx"].shape))
    if ritems:
        rbad = model_compare(ctx, "c18real", ritems)
        for i in sorted(rbad):
            ctx.fail("correspondence", "C18:%s-%s" % (rcases[i]["real"], rcases[i]["order"]),
                     "model and bldfm.io disagree at row '%s' on a real multitower run" % row_name(rbad[i]), hint=rcases[i])
    shutil.rmtree(workdir, ignore_errors=True)
    nontrivial = sum(1 for c in cases if len(c["keys"]) >= 2 and c["ns"] >= 2)
    ctx.cov.update({
        "evaluations": len(cases) + len(ritems) + ragged["cases"],
        "distinct_nontrivial": nontrivial + sum(1 for r in real if len(r["towers"]) >= 2),
        "rule": "product towers 1..4 x steps 1..4 x 2-D/3-D x {string, integer} timestamps x {ustar, z0} forcing x key order "
                "{config, reversed, random subset, random shuffle(>=3 towers)}%s; block shapes (nz in 1..3) x (ny in 1..3) x (nx in 2..5), "
                "1-D grids in a quarter of the 2-D cases; field values: random 64-bit patterns (finite) mixed 50/50 with %d special values "
                "(-0.0, +-5e-324, +-1e-310, +-min normal, +-1e300, +-max double, ...); each case is one real save/load round trip compared "
                "bit for bit (property statement) and row for row with the Coq model (assembly, coordinates, labels, met, and every "
                "ds.sel by name / label / both); non-trivial = at least 2 towers and 2 steps; plus 2 real run_bldfm_multitower runs "
                "(2-D ustar forcing, 3-D z0 forcing with output_levels) x {config, reversed, subset} key order"
                % (" x 3 repetitions" if ctx.thorough else "", len(SPECIALS)),
        "samples": samples,
        "exhaustive": False,
        "histogram": hist,
        "blocks_compared_bitwise": n_blocks,
        "elements_compared_bitwise": n_elems,
        "property_statement_failures": prop_bad,
        "correspondence_mismatches": len(bad),
        "mismatches_explained_by_original_model": orig_like,
        "ragged_results_model_agreement (outside the property, informational)": ragged,
        "real_runs": real,
    })


class _Quiet:
    """a ctx proxy whose fail() records nothing (informational comparisons)"""

    def __init__(self, ctx):
        self._ctx = ctx

    def __getattr__(self, k):
        return getattr(self._ctx, k)

    def fail(self, *a, **k):
        pass


# ------------------------------------------------------------------------------------------------
# oracle: the property's own statement on the real code


def oracle_cases(ctx):
    cases = []
    for nt in (2, 3, 1, 4):
        for ns in (1, 2, 3):
            for d3 in (False, True):
                for forcing in ("ustar", "z0"):
                    for ts in ("str", "int"):
                        orders = [list(range(nt))]
                        if nt >= 2:
                            orders += [list(range(nt))[::-1], list(range(1, nt)), [nt - 1]]
                        if nt >= 3:
                            orders.append([1, 0] + list(range(2, nt)))
                        for keys in orders:
                            cases.append({"nt": nt, "ns": ns, "d3": d3, "ts": ts, "forcing": forcing, "keys": keys,
                                          "nz": 2 if d3 else 0, "ny": 2, "nx": 3, "grid1d": False,
                                          "seed": 4242 + 17 * len(cases)})
    return cases


def oracle(ctx, hints):
    bio, cp = _impl()
    workdir = tempfile.mkdtemp(prefix="c18o_", dir=ctx.build)
    found = {}
    pool = [h["case"] for h in hints if h and "case" in h] + oracle_cases(ctx)
    if ctx.thorough:
        pool += space(ctx)[:400]
    for case in pool:
        results, config, info = build(cp, case)
        ds, exc = roundtrip(bio, results, config, workdir)
        probs = property_problems(results, config, info, ds, exc)
        for kind, detail in probs:
            sig = classify_raise(bio, cp, case, workdir) if kind == "raise" else classify(kind, case)
            size = case_size(case)
            if sig not in found or size < found[sig][0]:
                found[sig] = (size, case, kind, detail)
    # real-run hints
    for h in hints:
        if h and "real" in h:
            try:
                for name, results0, config in real_runs(ctx, cp):
                    if name != h["real"]:
                        continue
                    keys0 = list(results0.keys())
                    keys = {"config": keys0, "reversed": keys0[::-1], "subset": keys0[1:]}[h["order"]]
                    results = {k: results0[k] for k in keys}
                    info = real_info(results)
                    ds, exc = roundtrip(bio, results, config, workdir)
                    cfg_names = [t.name for t in config.towers]
                    pseudo = {"keys": [cfg_names.index(k) for k in keys], "nt": len(cfg_names)}
                    for kind, detail in property_problems(results, config, info, ds, exc):
                        if kind == "raise":
                            _, exc0 = roundtrip(bio, results0, config, workdir)
                            sig = ("labels:subset-results" if h["order"] == "subset" else "labels:reordered-results") \
                                if (exc0 is None and h["order"] != "config") else "real-run:save-raises"
                        else:
                            sig = classify(kind, pseudo)
                        found.setdefault(sig, ((99,), {"real": name, "order": h["order"]}, kind, detail))
            except Exception:  # noqa: BLE001
                pass
    shutil.rmtree(workdir, ignore_errors=True)
    out = []
    for sig, (size, case, kind, detail) in sorted(found.items()):
        what = "save_footprints_to_netcdf/load_footprints_from_netcdf %s: %s" % (sig, detail)
        if "keys" in case:
            what += " [towers configured %d, results keys %r, steps %d, %s, %s timestamps, %s forcing]" % (
                case["nt"], ["tower_%s" % "ABCD"[k] for k in case["keys"]], case["ns"], "3-D" if case["d3"] else "2-D", case["ts"], case["forcing"])
        out.append({"signature": sig, "what": what,
                    "replay": {"case": case, "kind": kind, "detail": detail,
                               "how": "harness/props/c18.py: build(case) -> bldfm.io.save_footprints_to_netcdf(results, config, path); "
                                      "ds = load_footprints_from_netcdf(path); property_problems(...)"}})
    return out


def replay(body):
    if "case" not in body:
        print("no concrete input recorded (broken obligations only)")
        return 1
    bio, cp = _impl()
    case = body["case"]
    workdir = tempfile.mkdtemp(prefix="c18r_")
    try:
        if "real" in case:
            hit = None
            for name, results0, config in real_runs(None, cp):
                if name == case["real"]:
                    keys0 = list(results0.keys())
                    keys = {"config": keys0, "reversed": keys0[::-1], "subset": keys0[1:]}[case["order"]]
                    results = {k: results0[k] for k in keys}
                    info = real_info(results)
                    hit = (results, config, info)
            results, config, info = hit
        else:
            results, config, info = build(cp, case)
        ds, exc = roundtrip(bio, results, config, workdir)
        probs = property_problems(results, config, info, ds, exc)
        if body.get("kind") == "history" and "real" not in case:
            # the sequence of saves: the case and a variant of it, alternately, to every kind of file name in one directory
            other = dict(case, seed=case.get("seed", 0) + 1)
            _RT["n"] = 0
            _RT["prev"] = None
            for k in range(2 * len(NAME_STYLES)):
                r2, c2, i2 = build(cp, case if k % 2 == 0 else other)
                d2, e2 = roundtrip(bio, r2, c2, workdir)
                probs += [p for p in property_problems(r2, c2, i2, d2, e2) if p[0] == "history"]
        print("case            =", case)
        print("configured      =", [(t.name, t.lat, t.lon, t.z_m) for t in config.towers])
        print("results keys    =", list(results.keys()))
        if exc is not None:
            print("save raised     =", type(exc).__name__, str(exc)[:300])
        else:
            print("loaded towers   =", [str(v) for v in ds["tower"].values])
            print("loaded lat      =", ds["tower_lat"].values.tolist())
            print("loaded lon      =", ds["tower_lon"].values.tolist())
            print("loaded height   =", ds["tower_z"].values.tolist())
            print("loaded time     =", [str(v) for v in ds["time"].values])
        for kind, detail in probs[:10]:
            print("  [%s] %s" % (kind, detail))
        print("FAILS" if probs else "holds")
        return 1 if probs else 0
    finally:
        shutil.rmtree(workdir, ignore_errors=True)
