"""C01 — convergence to the exact advection-diffusion BVP solution for height-dependent profiles.
Theorems: symbol, consistency, exact discrete BVP (existence + uniqueness), decaying top
condition.  The asymptotic clause is decided by the reference-solution oracle (c01oracle.py)."""
import numpy as np

import c01oracle
import core
import solvercorr as sc
import solverslices
from props.c04 import TRUSTED as _T

THEOREMS_R = ["C01_top_decays_in_C", "C01_convergence_partial", "C01_convergence_varying", "C01_varying_layers", "C01_varying_layers_are_the_models", "C01_ivp_first_order"]
THEOREMS = ["C01_symbol", "C01_consistency", "C01_bvp_exact", "C01_top_decay"] + THEOREMS_R
TRUSTED = _T + ["scipy.integrate.solve_ivp (DOP853, rtol 1e-11) as the reference for the continuous boundary-value problem in the oracle"]
ASSUMPTIONS = [
    "convergence for HEIGHT-DEPENDENT profiles is the theorem C01_convergence_varying (Proofs/VaryingOrder.v): for coefficient functions with Kz >= kmin > 0, bounded symbol T and Lipschitz 1/Kz and T, on every grid with dmax <= h0 (explicit) the model's shooting solution differs from the exact BVP solution by at most C2*dmax (explicit C2) at every node, and the shooting denominator is non-zero; the EXISTENCE of the exact solutions (the BVP solution and the fundamental solution from (1,0)) and a positive lower bound of the continuous shooting denominator are hypotheses of the theorem (no ODE existence theory is installed) - a non-degenerate height-dependent instance satisfying all hypotheses is proved (instance_shooting_converges); C01_varying_layers_are_the_models shows that the theorem's layers are exactly Model/Solver.layers_of on the sampled profile arrays; for height-independent coefficients C01_convergence_partial gives the sharper third-order bound",
    "PARTIAL: the numerical factor of the property ('by at least 2.5 times when the layer thickness is quartered') is an asymptotic-expansion statement that a first-order bound does not imply; it is decided by the oracle against an independent Riccati integration at n, 4n, 16n layers",
    "oracle criteria: per resolved component the error ratio over the finest quartering (4n -> 16n) is >= 2.5 and the error at every grid is <= 8 x the relative layer thickness; the coarsest quartering is not asserted per component because isolated components show accidental error cancellation on the coarsest grid (measured on the unchanged tree: ratios between 0.04 and 16 with fine-step ratios 3.2-4.5 throughout)",
]


def gen(ctx):
    n = 45 if ctx.thorough else 15
    cases = []
    for k in range(n):
        nz = ctx.rng.choice([3, 4, 6, 8])
        # output heights in every order: the solution at a height must not depend on how it was asked for
        lv = ctx.rng.choice([None, None, [nz - 1, 0], list(range(nz))[::-1], [nz - 1, nz // 2, nz - 1], ctx.rng.sample(range(nz), min(3, nz))])
        cases.append(sc.mk_case(ctx.rng, analytic=False, kind="vary", nz=nz, levels=lv, precision="double" if k % 4 else "single"))
    return cases


def check(ctx):
    core.check_properties_file(ctx, "Properties/C01.v", THEOREMS, {n: core.AX_REALS for n in THEOREMS_R})
    solverslices.run(ctx)
    cases = gen(ctx)
    recs = sc.correspond(ctx, cases, "c01_")
    sc.summarize(ctx, cases, recs,
                 "numerical-branch solves with height-dependent anisotropic profiles on uniform and stretched vertical grids, oblique winds, 3..8 nodes; distinct by full argument description",
                 nontrivial=lambda c: True)


def study_case(rng):
    return dict(seed=rng.randrange(10**9), zt=rng.choice([1.0, 2.0, 3.0]), n0=rng.choice([8, 12, 16]), stretched=rng.random() < 0.5,
                nxny=rng.choice([(6, 6), (8, 6)]), dxdy=rng.choice([(1.0, 1.5), (2.0, 2.0), (3.0, 2.0)]))


def probe(S, c):
    import random

    f = c01oracle.families(random.Random(c["seed"]))
    res, rel = c01oracle.study(S, f, c["zt"], c["n0"], c["stretched"], c["nxny"][0], c["nxny"][1], c["dxdy"][0], c["dxdy"][1])
    out = []
    if not res:
        return out, 0
    worst_ratio = min((r["errs"][1] / r["errs"][2] for r in res if r["errs"][2] > 1e-9), default=None)
    if worst_ratio is not None and worst_ratio < 2.5:
        r = min((r for r in res if r["errs"][2] > 1e-9), key=lambda r: r["errs"][1] / r["errs"][2])
        out.append(("convergence:ratio-below-2.5", "mode %s level %d field %s: errors %s at n=%d,4n,16n" % (r["mode"], r["level"], r["field"], ["%.3g" % e for e in r["errs"]], c["n0"])))
    for k, fac in enumerate((1, 4, 16)):
        emax = max(r["errs"][k] for r in res)
        if emax > 8.0 * rel / fac:
            r = max(res, key=lambda r: r["errs"][k])
            out.append(("convergence:error-not-small-multiple-of-dz", "n=%d: error %.3g > 8 x relative layer thickness %.3g (mode %s level %d field %s)" % (c["n0"] * fac, emax, rel / fac, r["mode"], r["level"], r["field"])))
            break
    return out, len(res)


def oracle(ctx, hints):
    S = sc.impl()
    n = 16 if ctx.thorough else 4
    found = {}
    comps = 0
    for _ in range(n):
        c = study_case(ctx.rng)
        try:
            res, k = probe(S, c)
            comps += k
            for sig, detail in res:
                found.setdefault(sig, (detail, c))
        except Exception as e:
            found.setdefault("solver-raises:" + type(e).__name__, (str(e), c))
    ctx.cov["oracle_components_compared_with_reference"] = comps
    return [{"signature": sig, "what": "C01 %s: %s on %r" % (sig, d, c), "replay": {"study_case": c, "detail": d}}
            for sig, (d, c) in found.items()]


def replay(body):
    S = sc.impl()
    res, k = probe(S, body["study_case"])
    for sig, d in res:
        print("FAILS", sig, d)
    if not res:
        print("holds on this input (%d components compared)" % k)
    return 1 if res else 0
