"""C05 — uniform profiles: analytic = closed form; numerics third order."""
import numpy as np

import core
import solvercorr as sc
import solverslices
from props.c04 import TRUSTED

THEOREMS = ["C05_analytic_closed_form", "C05_analytic_mean", "C05_analytic_propagation", "C05_step_is_taylor3",
            "C05_eigen", "C05_numeric_closed_form", "C05_third_order_real_partial", "C05_third_order", "C05_third_order_uniform"]
ALLOWED = {"C05_third_order_real_partial": core.AX_REALS, "C05_third_order": core.AX_REALS, "C05_third_order_uniform": core.AX_REALS}
ASSUMPTIONS = [
    "C05_third_order: |numerical - analytic| <= |qh| e^B B with B = |lam|^4/24 h dmax^3 for every complex eigenvalue (Re lam >= 0 proved), every grid, every node, in exact complex arithmetic (instance ROps); rounding is not covered - the order oracle measures the ratio per halving on the real code (>= 6 within the resolved regime)",
    "the numerical/analytic closed forms are theorems in exact arithmetic (Laws O)",
]


def gen(ctx):
    n = 45 if ctx.thorough else 15
    cases = []
    for k in range(n):
        cases.append(sc.mk_case(ctx.rng, analytic=(k % 3 != 2), kind="const", nz=ctx.rng.choice([3, 4, 6]),
                                levels=None if k % 2 else [0, 1, 2]))
    return cases


def check(ctx):
    core.check_properties_file(ctx, "Properties/C05.v", THEOREMS, ALLOWED)
    solverslices.run(ctx)
    cases = gen(ctx)
    recs = sc.correspond(ctx, cases, "c05_")
    sc.summarize(ctx, cases, recs,
                 "constant-profile solves, two thirds through the analytic branch (multi-level, shifted measurement points, halos, truncations), one third numerical; distinct by full argument description",
                 nontrivial=lambda c: True)


def closed_form(case, n):
    """independent numpy closed form of the flux and concentration at the top node (halo=0, all modes)"""
    q = case["q0"]
    ny, nx = q.shape
    xmx, ymx = case["domain"]
    u, v, Kx, Ky, Kz = (float(p[0]) for p in case["profiles"])
    H = case["H"]
    kx = 2 * np.pi * np.fft.fftfreq(nx, d=xmx / nx)
    ky = 2 * np.pi * np.fft.fftfreq(ny, d=ymx / ny)
    LX, LY = np.meshgrid(kx, ky)
    lam = np.sqrt((Kx * LX**2 + Ky * LY**2 + 1j * (u * LX + v * LY)) / Kz)
    qh = np.fft.fft2(q) / q.size
    with np.errstate(all="ignore"):
        Q = qh * np.exp(-lam * H)
        P = Q / (Kz * lam)
    Q[0, 0] = qh[0, 0]
    P[0, 0] = case["bg"] - qh[0, 0] * H / Kz
    return (np.fft.ifft2(P) * q.size).real, (np.fft.ifft2(Q) * q.size).real


def order_case(rng):
    nx, ny = rng.choice([(6, 6), (8, 6), (6, 4)])
    dx, dy = rng.choice([(1.0, 1.0), (1.5, 1.0), (2.0, 2.5)])
    Kz = rng.choice([0.5, 1.0, 2.0])
    c = dict(nx=nx, ny=ny, dx=dx, dy=dy, z0=0.1, H=rng.choice([0.5, 1.0, 2.0]), u=rng.choice([0.0, 1.0, 3.0]), v=rng.choice([0.0, -1.0, 2.0]),
             Kz=Kz, Kx=Kz * rng.choice([0.5, 1.0, 2.0]), Ky=Kz * rng.choice([0.5, 1.0, 1.5]), n0=rng.choice([8, 12, 16]),
             footprint=rng.random() < 0.4, bg=rng.choice([0.0, 1.5]), seed=rng.randrange(10**6))
    return c


def build(c, n, analytic):
    z = c["z0"] + np.linspace(0.0, c["H"], n + 1)
    prof = tuple(np.full(n + 1, c[k]) for k in ("u", "v", "Kx", "Ky", "Kz"))
    q = np.random.default_rng(c["seed"]).random((c["ny"], c["nx"]))
    return dict(q0=q, z=z, profiles=prof, domain=(c["nx"] * c["dx"], c["ny"] * c["dy"]), levels=n, modes=(c["nx"], c["ny"]),
                meas_pt=(0.0, 0.0), bg=c["bg"], footprint=c["footprint"], analytic=analytic, halo=0.0, precision="double", H=c["H"])


def probe(S, c):
    out = []
    errs = []
    for n in (c["n0"], 2 * c["n0"], 4 * c["n0"]):
        ca = build(c, n, True)
        cn = build(c, n, False)
        _, pa, fa = sc.call(S, ca)
        _, pn, fn = sc.call(S, cn)
        fa, fn, pa, pn = (np.asarray(x, float) for x in (fa, fn, pa, pn))
        errs.append(max(np.abs(fa - fn).max() / max(np.abs(fa).max(), 1e-300),
                        np.abs(pa - pn).max() / max(np.abs(pa - c["bg"]).max(), 1e-300)))
        if n == c["n0"] and not c["footprint"]:
            P, Q = closed_form(ca, n)
            d = max(np.abs(Q - fa).max() / max(np.abs(Q).max(), 1e-300), np.abs(P - pa).max() / max(np.abs(P).max(), 1e-300))
            if d > 1e-9:
                out.append(("analytic:not-the-closed-form", "analytic mode differs from the independent closed form by %.3g" % d))
    # resolved regime only
    lm = np.pi / min(c["dx"], c["dy"])
    T = (c["Kx"] + c["Ky"]) * lm**2 + (abs(c["u"]) + abs(c["v"])) * lm
    resolved = T * (c["H"] / c["n0"]) ** 2 / c["Kz"] <= 2.0
    if resolved and errs[2] > 1e-11:
        r1, r2 = errs[0] / errs[1], errs[1] / errs[2]
        if min(r1, r2) < 6.0:
            out.append(("order:numeric-below-third", "errors %s, ratios per halving %.2f %.2f (third order needs ~8)" % (["%.3g" % e for e in errs], r1, r2)))
    return out


def oracle(ctx, hints):
    S = sc.impl()
    n = 30 if ctx.thorough else 8
    found = {}
    for _ in range(n):
        c = order_case(ctx.rng)
        try:
            for sig, detail in probe(S, c):
                found.setdefault(sig, (detail, c))
        except Exception as e:
            found.setdefault("solver-raises:" + type(e).__name__, (str(e), c))
    return [{"signature": sig, "what": "C05 %s: %s on %r" % (sig, d, c), "replay": {"order_case": c, "detail": d}}
            for sig, (d, c) in found.items()]


def replay(body):
    S = sc.impl()
    res = probe(S, body["order_case"])
    for sig, d in res:
        print("FAILS", sig, d)
    if not res:
        print("holds on this input")
    return 1 if res else 0
