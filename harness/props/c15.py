"""C15 — result cache transparent, complete, effective, crash-safe.

check(ctx):   theorems of Properties/C15.v (Print Assumptions: none) + exact correspondence between the real
              bldfm.cache.GreensFunctionCache driven through bldfm.solver.steady_state_transport_solver and
              Model/Cache.v (evaluated by vm_compute through Model/CacheExec.v): outcome (hit/miss/bypass) of
              every call, cumulative number of solver-body runs, number of stored entries, which request's key
              is stored, and which requests share a key; over histories of real solver requests that differ in
              exactly one argument (every parameter of the signature), random short histories, cache directories
              reused by a second Python process, runs killed (os._exit) inside np.savez / before os.replace, every
              byte-truncation point of a stored entry and garbage files.
oracle(...):  the property's own statement on the real code, independent of the Coq model.
replay(body): re-runs one recorded history on the implementation.

All real executions happen in worker subprocesses (this file run as a script with --worker), never in the harness
process, with cwd in a scratch directory."""
import hashlib
import json
import os
import re
import shutil
import subprocess
import sys
import time

if __name__ != "__main__":
    import core

THEOREMS = ["C15_key_complete", "C15_transparent", "C15_effective", "C15_crash_safe",
            "C15_stale_refuted", "C15_default_halo_refuted", "C15_crash_refuted",
            "C15_hypotheses_satisfiable"]
TRUSTED = [
    "Model/Cache.v is hand-written (repaired cache.py + the get/solve/put flow of solver.py); tied to the source (A) by "
    "exact differential execution of hit/miss traces, solver-run counts and stored key sets, and (B) statically, for all "
    "requests and stores, by harness/py2coq_cache.py + coq/Bridge/CacheBridge.v (re-extracted and re-proved on every run)",
    "harness/py2coq_cache.py (fail-closed `ast` translator of _compute_key / get / put / clear / __init__ and of the "
    "solver's cache block) and the semantics it targets, Model/CacheFlow.v: what path.exists(), np.load of a complete / "
    "unreadable / missing entry, unlink, mkstemp(dir, prefix=key, suffix='.tmp'), np.savez to a file object or to the "
    "final path and os.replace do to the model's store; which exception classes catch every failure of np.load "
    "(Exception, BaseException); which request fields a solver argument consists of (sarg_fields: profiles = u,v,Kx,Ky,Kz; "
    "domain = xmax,ymax; np.shape(srf_flx) = ny,nx; halo = raw before / resolved after `if halo is None: halo = max(domain)`)",
    "canonical forms fed to the hash (np.asarray(x).tobytes(), str(x).encode(), x.encode(), repr of the tuple "
    "(atleast_1d(levels).tolist(), tuple(int(n) for n in shape), bool(analytic), float(srf_bg_conc))) are pinned by "
    "bridge_key_feeds; a token of Model/Cache.v stands for the VALUE of that form; that the concatenation of the fed "
    "byte strings (no length prefixes, no dtype) separates different requests is part of hash_inj",
    "the statements of steady_state_transport_solver between lookup and store are the model's `solve` (SBody): pinned "
    "statement by statement by structure:solver-skeleton and checked by the translator not to re-bind or change in place "
    "an argument that cache.put reads again; their numerical content is the subject of C01-C11",
    "token encoding of solver arguments in harness/props/c15.py (one integer per distinct argument content; "
    "levels canonicalised to the list of ints; domain/halo as value*8)",
    "numpy .npz reader/writer, zipfile, hashlib.sha256, os.replace, tempfile.mkstemp of CPython/numpy",
]
ASSUMPTIONS = [
    "hash_inj: SHA-256 is injective on the keys seen (Section hypothesis; the correspondence checks on every run that "
    "requests share a digest exactly when their model keys are equal)",
    "os.replace is atomic: the model's Rename is one primitive operation (POSIX rename(2) within one directory); "
    "exercised, not proved, by runs killed with os._exit inside np.savez and immediately before os.replace",
    "np.load rejects strict prefixes: an entry that is not a complete file is `Corrupt` in the model, i.e. np.load or "
    "reading one of its five members raises; validated on every run by loading every (thorough) / a stride of (quick) "
    "byte-truncation points of real stored entries plus empty/garbage/bit-flipped files — none may return arrays "
    "that differ from the stored ones",
    "footprint_shape_only (property C04): in footprint mode the result depends on the source array only through its "
    "shape (Section hypothesis; exercised here by the srf_flx-values pair, whose cached answer is compared bit-for-bit)",
    "halo_resolved_only: the solver uses halo only as max(xmax, ymax) when None (read off solver.py; exercised by the "
    "None / explicit-default pair; that the resolution precedes the lookup and that lookup and store hash the resolved "
    "value is bridge_key_fields_get / _put)",
    "a raised (not killed) put leaves at most a temporary file: the failure path of put is checked syntactically only "
    "(bridge_put_guarded: catch-all handler, unlink of the temporary file, re-raise, no write to the final path); the "
    "model has no failing-put event, leftover temporary files are allowed by C15_transparent",
    "the solver is deterministic bit-for-bit on the tiny grids used (cached answers are compared with a fresh uncached "
    "solve in the same process, and across processes with either process's fresh solve)",
]

KILL_EXIT = 17
HEXNPZ = re.compile(r"^[0-9a-f]{64}\.npz$")

# ---------------------------------------------------------------------------------------------
# request specifications (JSON-able); build() turns one into real solver arguments (worker side)

BASE = {
    "shape": [4, 6], "values": "ones", "z": "z0", "u": "u0", "v": "v0", "kx": "kx0", "ky": "ky0", "kz": "kz0",
    "domain": [12.0, 8.0], "levels": [1, 2], "modes": [4, 4], "meas": [3.0, 2.0], "bg": 0.0,
    "footprint": True, "analytic": False, "halo": None, "precision": "double",
}
ARR = {
    "z0": [0.5, 1.0, 2.0, 3.5], "z1": [0.5, 1.0, 2.5, 3.5],
    "u0": [2.0, 2.5, 3.0, 3.5], "u1": [2.0, 2.5, 3.0, 4.0],
    "v0": [0.5, 0.5, 0.25, 0.25], "v1": [0.5, 0.5, 0.25, 0.5],
    "kx0": [1.0, 1.5, 2.0, 2.0], "kx1": [1.0, 1.5, 2.0, 2.5],
    "ky0": [1.0, 1.25, 1.5, 2.0], "ky1": [1.0, 1.25, 1.5, 1.75],
    "kz0": [0.5, 0.75, 1.0, 1.25], "kz1": [0.5, 0.75, 1.0, 1.5],
}
LONG = {"long1": [0] * 600 + [1] * 10 + [2] * 600, "long2": [0] * 600 + [1] * 9 + [2] * 601}

# name, overrides of the base request of the pair, overrides of the variant, field that differs
VARIATIONS = [
    ("srf_flx-values", {}, {"values": "ramp"}),
    ("srf_flx-shape", {}, {"shape": [6, 6]}),
    ("srf_flx-shape-nx", {}, {"shape": [4, 4]}),
    ("srf_flx-shape-explicit-halo", {"halo": 12.0}, {"halo": 12.0, "shape": [6, 6]}),
    ("z", {}, {"z": "z1"}),
    ("profile-u", {}, {"u": "u1"}),
    ("profile-v", {}, {"v": "v1"}),
    ("profile-Kx", {}, {"kx": "kx1"}),
    ("profile-Ky", {}, {"ky": "ky1"}),
    ("profile-Kz", {}, {"kz": "kz1"}),
    ("domain", {}, {"domain": [16.0, 8.0]}),
    ("domain-explicit-halo", {"halo": 8.0}, {"halo": 8.0, "domain": [12.0, 12.0]}),
    ("levels", {}, {"levels": [2, 3]}),
    ("levels-explicit-halo", {"halo": 12.0}, {"halo": 12.0, "levels": [0, 2]}),
    ("levels-scalar-vs-list", {"levels": [2]}, {"levels": 2}),
    ("levels-long", {"levels": "long1", "halo": 12.0}, {"levels": "long2", "halo": 12.0}),
    ("modes", {}, {"modes": [4, 2]}),
    # the solver clamps BOTH counts to the padded grid as soon as ONE exceeds it (6 x 4 here, halo 0): a request with one
    # oversized count is solved with (6, 4), the request that a per-axis min() would identify it with is solved with (6, 2)
    ("modes-one-oversized", {"halo": 0.0, "modes": [8, 2]}, {"halo": 0.0, "modes": [6, 2]}),
    ("modes-one-oversized-y", {"halo": 0.0, "modes": [2, 8]}, {"halo": 0.0, "modes": [2, 4]}),
    ("meas_pt", {}, {"meas": [5.0, 2.0]}),
    ("srf_bg_conc", {}, {"bg": 1.5}),
    ("srf_bg_conc-explicit-halo", {"halo": 12.0}, {"halo": 12.0, "bg": -0.5}),
    ("analytic", {"levels": 2}, {"levels": 2, "analytic": True}),
    ("analytic-explicit-halo", {"levels": 2, "halo": 12.0}, {"levels": 2, "halo": 12.0, "analytic": True}),
    ("halo-none-vs-default", {}, {"halo": 12.0}),
    ("halo-none-vs-other", {}, {"halo": 8.0}),
    ("halo-explicit-vs-other", {"halo": 12.0}, {"halo": 8.0}),
    # two halos that agree to ten digits but pad a different number of cells (int(halo/dx): dx = 2)
    ("halo-nearly-equal", {"halo": 2.0}, {"halo": 1.9999999999}),
    # a cell size that is not representable (dx = 14/6): halo 5*14/6 pads int(halo/dx) = 4 columns although
    # halo*6/14 = 5.0, halo 11.9 pads 5 — two requests that a re-derived pad width is tempted to identify
    ("halo-pad-ambiguous", {"domain": [14.0, 8.0], "halo": 5 * 14.0 / 6}, {"domain": [14.0, 8.0], "halo": 11.9}),
    ("precision", {}, {"precision": "single"}),
    ("footprint", {}, {"footprint": False}),
]
ARGNAME = {"values": "values", "shape": "shape", "z": "z", "u": "profile-u", "v": "profile-v", "kx": "profile-Kx",
           "ky": "profile-Ky", "kz": "profile-Kz", "domain": "domain", "levels": "levels", "modes": "modes",
           "meas": "meas_pt", "bg": "bg", "footprint": "footprint", "analytic": "analytic", "halo": "halo",
           "precision": "precision"}


def mkspec(*overrides):
    s = dict(BASE)
    for o in overrides:
        s.update(o)
    return s


def canon_levels(lv):
    if isinstance(lv, str):
        return tuple(LONG[lv])
    if isinstance(lv, (list, tuple)):
        return tuple(int(x) for x in lv)
    return (int(lv),)


def _i8(x):
    v = float(x) * 8
    assert v == int(v), "harness values must be multiples of 1/8"
    return int(v)


def coq_request(s):
    """The Model/Cache.v request of a spec: one integer token per argument content."""
    lab = lambda name: int(name[-1]) + 1
    lev = int(hashlib.sha1(repr(canon_levels(s["levels"])).encode()).hexdigest()[:7], 16)
    def halo_token(h):  # value*8 for multiples of 1/8 (so that an explicit default equals max(domain)); else a hash of the bits
        v = float(h) * 8
        return int(v) if v == int(v) else 10**9 + int(hashlib.sha1(float(h).hex().encode()).hexdigest()[:7], 16)
    halo = "None" if s["halo"] is None else "(Some %d)" % halo_token(s["halo"])
    t = [s["shape"][0], s["shape"][1], {"ones": 1, "ramp": 2}[s["values"]], lab(s["z"]), lab(s["u"]), lab(s["v"]),
         lab(s["kx"]), lab(s["ky"]), lab(s["kz"]), _i8(s["domain"][0]), _i8(s["domain"][1]), lev,
         s["modes"][0] * 1000 + s["modes"][1], _i8(s["meas"][0]) * 100000 + _i8(s["meas"][1])]
    bg = _i8(s["bg"])
    return "(mkReq %s %s %s %s %s %s)" % (
        " ".join(str(x) for x in t), "(%d)" % bg, "true" if s["footprint"] else "false",
        "true" if s["analytic"] else "false", halo, {"single": 1, "double": 2}[s["precision"]])


def coq_scenario(scn, keyed):
    evs = []
    for e in scn["events"]:
        if e["t"] == "run":
            evs.append("XRun %s %d" % ("true" if e.get("cache", True) else "false", e["i"]))
        elif e["t"] == "kill":
            evs.append("XKilled %d %d" % (e["i"], e["at"]))
        elif e["t"] == "damage":
            evs.append("XDamage %d" % e["i"])
    return "scenario [%s] [%s]%%nat [%s]" % (
        "; ".join(coq_request(r) for r in scn["reqs"]), "; ".join(str(i) for i in keyed), "; ".join(evs))


def parse_coq_lists(txt):
    t = txt.replace("%Z", "").replace("(", "").replace(")", "").replace(";", ",")
    return json.loads(t)


# ---------------------------------------------------------------------------------------------
# worker side: runs histories on the real code


def build(s):
    import numpy as np

    ny, nx = s["shape"]
    q = np.ones((ny, nx)) if s["values"] == "ones" else 1.0 + 0.375 * np.arange(ny * nx, dtype=float).reshape(ny, nx)
    lv = s["levels"]
    if isinstance(lv, str):
        lv = np.array(LONG[lv])
    elif isinstance(lv, list):
        lv = np.array(lv)
    return dict(
        srf_flx=q, z=np.array(ARR[s["z"]]),
        profiles=tuple(np.array(ARR[s[k]]) for k in ("u", "v", "kx", "ky", "kz")),
        domain=tuple(s["domain"]), levels=lv, modes=tuple(s["modes"]), meas_pt=tuple(s["meas"]),
        srf_bg_conc=s["bg"], footprint=s["footprint"], analytic=s["analytic"], halo=s["halo"],
        precision=s["precision"])


def digest(res):
    import numpy as np

    grid, conc, flx = res
    h = hashlib.sha256()
    h.update(str(len(grid)).encode())
    for a in (*grid, conc, flx):
        a = np.asarray(a)
        h.update((str(a.dtype) + str(a.shape)).encode())
        h.update(np.ascontiguousarray(a).tobytes())
    return h.hexdigest()[:20]


class _Env:
    """bldfm imported once per worker; counts solver-body runs (the body calls fftfreq exactly twice)."""

    def __init__(self):
        import bldfm.solver as solver
        from bldfm.cache import GreensFunctionCache

        self.solver = solver
        self.fft_calls = 0
        orig = solver.fftfreq

        def counted(*a, **k):
            self.fft_calls += 1
            return orig(*a, **k)

        solver.fftfreq = counted
        env = self

        class Rec(GreensFunctionCache):
            def __init__(self, d):
                super().__init__(d)
                self.log = []

            def _compute_key(self, *a, **k):
                key = super()._compute_key(*a, **k)
                self.log.append(["key", key])
                return key

            def get(self, *a, **k):
                try:
                    r = super().get(*a, **k)
                except BaseException as e:
                    self.log.append(["get-raised", type(e).__name__])
                    raise
                self.log.append(["get", r is not None])
                return r

            def put(self, *a, **k):
                r = super().put(*a, **k)
                self.log.append(["put"])
                return r

        self.Rec = Rec

    def call(self, spec, cache):
        kw = build(spec)
        n0 = self.fft_calls
        l0 = len(cache.log) if cache is not None else 0
        out = {"raised": None}
        try:
            res = self.solver.steady_state_transport_solver(cache=cache, **kw)
            out["answer"] = digest(res)
        except Exception as e:  # the property says: never fatal
            out["raised"] = "%s: %s" % (type(e).__name__, str(e)[:80])
            out["answer"] = None
        out["ran"] = (self.fft_calls - n0) // 2
        log = cache.log[l0:] if cache is not None else []
        out["keys"] = [x[1] for x in log if x[0] == "key"]
        gets = [x for x in log if x[0] in ("get", "get-raised")]
        out["puts"] = sum(1 for x in log if x[0] == "put")
        if out["raised"]:
            out["code"] = 9
        elif not gets:
            out["code"] = 2
        else:
            out["code"] = 1 if gets[0][1] is True else 0
        n1 = self.fft_calls
        out["ref"] = digest(self.solver.steady_state_transport_solver(**build(spec)))
        self.fft_calls = n1
        return out


def listing(d):
    if not os.path.isdir(d):
        return []
    return sorted(f for f in os.listdir(d) if HEXNPZ.match(f))


def damaged_bytes(data, how):
    import numpy as np
    import io

    if "trunc" in how:  # negative = counted from the end
        return data[: how["trunc"]]
    if "flip" in how:
        p = how["flip"] % len(data)
        return data[:p] + bytes([data[p] ^ 0x5A]) + data[p + 1:]
    if "zero" in how:  # a zero-filled block inside a full-length file (delayed allocation after a crash)
        p = how["zero"][0] % len(data)
        n = how["zero"][1]
        return data[:p] + b"\0" * len(data[p:p + n]) + data[p + n:]
    g = how["garbage"]
    if g == "empty":
        return b""
    if g == "text":
        return b"not a cache entry\n" * 7
    if g == "pk-zeros":
        return b"PK\x03\x04" + b"\0" * 200
    if g == "npy-magic":
        return b"\x93NUMPY\x01\x00" + b"zz" * 60
    if g == "missing-member":  # a well-formed npz without the flx array
        b = io.BytesIO()
        np.savez(b, X=np.zeros(2), Y=np.zeros(2), Z=np.zeros(2), conc=np.zeros(2))
        return b.getvalue()
    if g == "half":
        return data[: len(data) // 2]
    if g == "tail-garbage":
        return data[: len(data) // 2] + b"\xff" * (len(data) - len(data) // 2)
    raise ValueError(g)


def run_scenario_real(env, scn, phase=None):
    """Executes the events of one history (those of `phase` when given).  State that must survive a process
    boundary (the digest under which each request was looked up) lives in <dir>.keys.json."""
    d = scn["dir"]
    kfile = d + ".keys.json"
    keys = json.load(open(kfile)) if os.path.exists(kfile) else {}
    cache = env.Rec(d)
    res = []
    for n, e in enumerate(scn["events"]):
        if phase is not None and e.get("phase", 0) != phase:
            res.append(None)
            continue
        spec = scn["reqs"][e["i"]]
        if e["t"] == "run":
            r = env.call(spec, cache if e.get("cache", True) else None)
            if r["keys"]:
                keys.setdefault(str(e["i"]), r["keys"][0])
        elif e["t"] == "damage":
            k = keys.get(str(e["i"]))
            r = {"code": 4, "ran": 0}
            if k is None or not os.path.exists(os.path.join(d, k + ".npz")):
                r["skipped"] = "no entry under the lookup key of request %d" % e["i"]
            else:
                p = os.path.join(d, k + ".npz")
                data = open(p, "rb").read()
                with open(p, "wb") as f:
                    f.write(damaged_bytes(data, e["how"]))
        elif e["t"] == "kill":
            job = {"spec": spec, "dir": d, "at": e["at"]}
            jf = d + ".kill%d.json" % n
            json.dump(job, open(jf, "w"))
            p = subprocess.run([sys.executable, os.path.abspath(__file__), "--killchild", jf],
                               capture_output=True, text=True, timeout=300)
            r = {"code": 3, "ran": 1, "exit": p.returncode}
            if p.returncode != KILL_EXIT:
                r["not_killed"] = (p.stderr or "")[-300:]
        r["files"] = listing(d)
        res.append(r)
    json.dump(keys, open(kfile, "w"))
    return {"events": res, "keys": keys}


def run_trunc_real(env, job):
    """One stored entry, every requested truncation point: np.load probe, cached call, repeat."""
    import numpy as np

    d = job["dir"]
    spec = job["req"]
    cache = env.Rec(d)
    first = env.call(spec, cache)
    out = {"first": first, "points": [], "load_exc": {}, "prefix_loaded": []}
    if first["raised"] or not first["keys"]:
        return out
    key = first["keys"][0]
    p = os.path.join(d, key + ".npz")
    if not os.path.exists(p):
        out["no_entry"] = True
        return out
    data = open(p, "rb").read()
    out["size"] = len(data)
    size = len(data)
    if job["points"] == "none":  # zero-block sweep only (large entry)
        pts = []
    elif job["points"] == "all":
        pts = list(range(size))
    else:  # stride: the first 24 and last 80 prefixes (zip local header / central directory), every 13th between
        pts = sorted(set(range(0, 24)) | set(range(size - 80, size)) | set(range(0, size, 13)))
    pts = [k for k in pts if 0 <= k < size][job["shard"]::job["nshard"]]
    with np.load(p) as z:
        good = {n: z[n].copy() for n in ("X", "Y", "Z", "conc", "flx")}
    for k in pts:
        with open(p, "wb") as f:
            f.write(data[:k])
        # the assumption "np.load rejects strict prefixes", checked directly
        try:
            with np.load(p) as z:
                got = {n: z[n] for n in ("X", "Y", "Z", "conc", "flx")}
            same = all(got[n].dtype == good[n].dtype and got[n].shape == good[n].shape and
                       got[n].tobytes() == good[n].tobytes() for n in good)
            out["prefix_loaded"].append([k, bool(same)])
        except Exception as e:
            out["load_exc"][type(e).__name__] = out["load_exc"].get(type(e).__name__, 0) + 1
        r1 = env.call(spec, cache)
        f1 = listing(d)
        r2 = env.call(spec, cache)
        out["points"].append({"k": k, "c1": r1["code"], "ran1": r1["ran"], "ok1": r1["answer"] == r1["ref"],
                              "raised1": r1["raised"], "c2": r2["code"], "ran2": r2["ran"],
                              "ok2": r2["answer"] == r2["ref"], "raised2": r2["raised"],
                              "files_ok": f1 == [key + ".npz"] and listing(d) == [key + ".npz"]})
        if r1["raised"] or r2["raised"] or not os.path.exists(p):
            with open(p, "wb") as f:  # restore so that the remaining points are still meaningful
                f.write(data)
    # full-length entries with a zero-filled 512-byte block (what delayed allocation leaves after a
    # crash): judged by the property only — never fatal, never a wrong answer
    out["zpoints"] = []
    zstep = job.get("zero_stride", 32)
    with open(p, "wb") as f:
        f.write(data)
    for k in list(range(0, size, zstep))[job["shard"]::job["nshard"]]:
        with open(p, "wb") as f:
            f.write(data[:k] + b"\0" * len(data[k:k + 512]) + data[k + 512:])
        r1 = env.call(spec, cache)
        r2 = env.call(spec, cache)
        out["zpoints"].append({"k": k, "raised1": r1["raised"], "raised2": r2["raised"],
                               "ok1": r1["answer"] == r1["ref"], "ok2": r2["answer"] == r2["ref"]})
        if r1["raised"] or r2["raised"] or not os.path.exists(p):
            with open(p, "wb") as f:
                f.write(data)
    return out


def worker_main(jobfile):
    job = json.load(open(jobfile))
    sys.path.insert(0, job["src"])
    env = _Env()
    out = {"scenarios": {}, "truncs": {}}
    for scn in job.get("scenarios", []):
        out["scenarios"][scn["id"]] = run_scenario_real(env, scn, job.get("phase"))
    for tj in job.get("truncs", []):
        out["truncs"][tj["id"]] = run_trunc_real(env, tj)
    json.dump(out, open(jobfile + ".out", "w"))
    sys.stdout.flush()
    os._exit(0)  # skip the FFTW-wisdom atexit hook (it writes into cwd and prints a harmless traceback)


def killchild_main(jobfile):
    """A real interrupted run: the process dies (os._exit) inside np.savez after `at` of the five arrays have been
    handed to the zip writer, or (at = 5) at the moment os.replace is called."""
    job = json.load(open(jobfile))
    import numpy as np  # noqa: F401  (bldfm comes from PYTHONPATH, set by the harness)

    try:
        import numpy.lib._npyio_impl as npyio
    except ImportError:  # numpy < 2
        import numpy.lib.npyio as npyio
    fmt = npyio.format
    orig_write = fmt.write_array
    count = [0]

    def dying_write(fid, arr, *a, **k):
        if count[0] == job["at"]:
            os._exit(KILL_EXIT)
        count[0] += 1
        return orig_write(fid, arr, *a, **k)

    fmt.write_array = dying_write
    if job["at"] >= 5:
        def dying_replace(*a, **k):
            os._exit(KILL_EXIT)
        os.replace = dying_replace
    from bldfm.cache import GreensFunctionCache
    from bldfm.solver import steady_state_transport_solver

    steady_state_transport_solver(cache=GreensFunctionCache(job["dir"]), **build(job["spec"]))
    os._exit(0)


# ---------------------------------------------------------------------------------------------
# harness side


def run_workers(build_dir, jobs, tag, jobs_parallel=6):
    """jobs: list of dicts (scenarios / truncs / phase).  Returns the list of outputs."""
    from concurrent.futures import ThreadPoolExecutor

    wd = os.path.join(build_dir, "work")
    os.makedirs(wd, exist_ok=True)

    def one(kj):
        k, job = kj
        job = dict(job)
        job["src"] = core.SRC
        jf = os.path.join(wd, "%s_%03d.json" % (tag, k))
        json.dump(job, open(jf, "w"))
        rc, out, err, dt = core.run([core.PY, os.path.abspath(__file__), "--worker", jf], timeout=1500, cwd=wd,
                                    env=core.pyenv())
        if not os.path.exists(jf + ".out"):
            raise core.CheckFailure("C15 worker failed (rc=%s): %s" % (rc, (out + err)[-1500:]))
        return json.load(open(jf + ".out"))

    if not jobs:
        return []
    first = one((0, jobs[0]))  # warms the numba cache before the parallel ones start
    with ThreadPoolExecutor(max_workers=jobs_parallel) as ex:
        rest = list(ex.map(one, list(enumerate(jobs))[1:]))
    return [first] + rest


def pair_scenarios(prefix, cross=False):
    """[A,B,A,B] and [B,A,B,A] for every one-argument variation (+ cache attached vs not)."""
    out = []
    for name, bo, vo in VARIATIONS:
        a, b = mkspec(bo), mkspec(vo)
        for order, idx in (("ab", [0, 1, 0, 1]), ("ba", [1, 0, 1, 0])):
            evs = [{"t": "run", "i": i, "cache": True, "phase": (0 if n < 2 else 1) if cross else 0}
                   for n, i in enumerate(idx)]
            out.append({"id": "%s-%s-%s" % (prefix, name, order), "cat": "cross" if cross else "pair", "var": name,
                        "reqs": [a, b], "events": evs})
    a = mkspec()
    for order, cs in (("cn", [True, False, True, False]), ("nc", [False, True, False, True])):
        out.append({"id": "%s-cache-attached-%s" % (prefix, order), "cat": "cross" if cross else "pair",
                    "var": "cache", "reqs": [a],
                    "events": [{"t": "run", "i": 0, "cache": c, "phase": (0 if n < 2 else 1) if cross else 0}
                               for n, c in enumerate(cs)]})
    return out


def random_scenarios(rng, n, prefix):
    singles = [(name, vo) for name, bo, vo in VARIATIONS if not bo and name not in ("footprint",)]
    out = []
    for k in range(n):
        picks = rng.sample(singles, rng.choice([2, 3]))
        pool = [mkspec()]
        for m in range(1, 1 << len(picks)):
            pool.append(mkspec(*[picks[j][1] for j in range(len(picks)) if m >> j & 1]))
        if rng.random() < 0.3:
            pool.append(mkspec({"footprint": False}))
        reqs = rng.sample(pool, min(len(pool), rng.choice([2, 3, 4])))
        evs = [{"t": "run", "i": rng.randrange(len(reqs)), "cache": rng.random() < 0.85, "phase": 0}
               for _ in range(rng.choice([4, 5, 6, 7]))]
        out.append({"id": "%s-%03d" % (prefix, k), "cat": "random", "var": "+".join(p[0] for p in picks),
                    "reqs": reqs, "events": evs})
    return out


def damage_scenarios(rng, size_hint, prefix):
    out = []
    hows = [{"garbage": g} for g in ("empty", "text", "pk-zeros", "npy-magic", "missing-member", "tail-garbage", "half")]
    hows += [{"trunc": k} for k in (1, 7, 64, -23, -1)]
    for n, how in enumerate(hows):
        for spec_name, spec in (("dflt", mkspec()), ("single", mkspec({"precision": "single", "levels": 2, "halo": 8.0}))):
            other = mkspec({"meas": [5.0, 2.0]}) if spec_name == "dflt" else mkspec({"bg": 1.5})
            evs = [{"t": "run", "i": 0}, {"t": "run", "i": 1}, {"t": "damage", "i": 0, "how": how},
                   {"t": "run", "i": 1}, {"t": "run", "i": 0}, {"t": "run", "i": 0}]
            out.append({"id": "%s-%s-%02d" % (prefix, spec_name, n), "cat": "damage", "var": json.dumps(how),
                        "reqs": [spec, other], "events": evs})
    return out


def flip_scenarios(rng, size_hint, n, prefix):
    """bit flips: the entry may or may not still load; only the property (not the trace) is judged"""
    out = []
    for k in range(n):
        evs = [{"t": "run", "i": 0}, {"t": "damage", "i": 0, "how": {"flip": rng.randrange(size_hint)}},
               {"t": "run", "i": 0}, {"t": "run", "i": 0}]
        out.append({"id": "%s-%03d" % (prefix, k), "cat": "flip", "var": "flip", "reqs": [mkspec()], "events": evs,
                    "no_model": True})
    # zero-filled blocks of 512 bytes at a stride through the entry (covers member headers and payloads)
    nblk = max(1, size_hint // 512)
    step = max(1, nblk // max(1, n))
    for k in range(0, nblk, step):
        evs = [{"t": "run", "i": 0}, {"t": "damage", "i": 0, "how": {"zero": [k * 512, 512]}},
               {"t": "run", "i": 0}, {"t": "run", "i": 0}]
        out.append({"id": "%s-zero-%03d" % (prefix, k), "cat": "flip", "var": "zero-block", "reqs": [mkspec()], "events": evs,
                    "no_model": True})
    return out


def kill_scenarios(prefix, ats):
    out = []
    for name, spec in (("dflt", mkspec()), ("halo8", mkspec({"halo": 8.0, "precision": "single"}))):
        for at in ats:
            # fresh directory, the very first run is killed; then an older entry exists and a second key is killed
            out.append({"id": "%s-%s-first-%d" % (prefix, name, at), "cat": "kill", "var": "kill@%d" % at,
                        "reqs": [spec], "events": [{"t": "kill", "i": 0, "at": at, "phase": 0},
                                                   {"t": "run", "i": 0, "phase": 1}, {"t": "run", "i": 0, "phase": 1}]})
        at = ats[len(ats) // 2]
        out.append({"id": "%s-%s-second-%d" % (prefix, name, at), "cat": "kill", "var": "kill@%d" % at,
                    "reqs": [spec, mkspec({"meas": [5.0, 2.0]})],
                    "events": [{"t": "run", "i": 1, "phase": 0}, {"t": "kill", "i": 0, "at": at, "phase": 0},
                               {"t": "run", "i": 1, "phase": 1}, {"t": "run", "i": 0, "phase": 1},
                               {"t": "run", "i": 0, "phase": 1}]})
    return out


def assign_dirs(build_dir, scns):
    root = os.path.join(build_dir, "cache")
    for s in scns:
        s["dir"] = os.path.join(root, s["id"])
    return scns


def execute(build_dir, scns, tag, nproc=6):
    """Runs all scenarios (phase 0 in one set of processes, phase 1 in fresh ones); returns {id: [event results]}."""
    assign_dirs(build_dir, scns)
    for s in scns:
        shutil.rmtree(s["dir"], ignore_errors=True)
        for f in (s["dir"] + ".keys.json",):
            if os.path.exists(f):
                os.remove(f)
    res = {s["id"]: [None] * len(s["events"]) for s in scns}
    keys = {}
    for phase in (0, 1):
        todo = [s for s in scns if any(e.get("phase", 0) == phase for e in s["events"])]
        chunks = [todo[i::nproc] for i in range(nproc)]
        jobs = [{"scenarios": c, "phase": phase} for c in chunks if c]
        for out in run_workers(build_dir, jobs, "%s_p%d" % (tag, phase), nproc):
            for sid, r in out["scenarios"].items():
                for n, er in enumerate(r["events"]):
                    if er is not None:
                        res[sid][n] = er
                keys[sid] = r["keys"]
    return res, keys


def real_lines(scn, evres, keys):
    """The observable of one history in the model's format: key classes of the keyed requests, then per event
    [code, solver runs so far, number of entries, presence bit per keyed request]."""
    keyed = sorted(int(i) for i in keys)
    hexes = {i: keys[str(i)] for i in keyed}
    classes = [min(j for j in keyed if hexes[j] == hexes[i]) for i in keyed]
    lines = [classes]
    runs = 0
    for e, r in zip(scn["events"], evres):
        runs += r["ran"]
        files = set(r["files"])
        lines.append([r["code"], runs, len(files)] + [1 if hexes[i] + ".npz" in files else 0 for i in keyed])
    return keyed, lines


def judge(scn, evres):
    """The property itself on one executed history (no model involved).  Returns a list of (signature, text)."""
    out = []
    refs = {}
    for e, r in zip(scn["events"], evres):
        if e["t"] == "run" and r and r.get("ref"):
            refs.setdefault(json.dumps(scn["reqs"][e["i"]], sort_keys=True), set()).add(r["ref"])
    unreadable = set()  # request indices whose entry was damaged or whose run was killed, until next successful run
    served = {}  # request index -> spec string, cached runs that completed (candidates for "identical repeat")
    first_by_key = {}
    for n, (e, r) in enumerate(zip(scn["events"], evres)):
        i = e["i"]
        spec = scn["reqs"][i]
        sj = json.dumps(spec, sort_keys=True)
        if e["t"] == "damage":
            if not r.get("skipped"):
                unreadable.add(sj)
            continue
        if e["t"] == "kill":
            unreadable.add(sj)
            continue
        cachedcall = e.get("cache", True) and spec["footprint"]
        if r["raised"]:
            if sj in unreadable:
                out.append(("crash:truncated-entry-fatal", "event %d: the run after an interrupted/truncated entry raised %s" % (n, r["raised"])))
            else:
                out.append(("error:solver-raised", "event %d raised %s" % (n, r["raised"])))
            continue
        if r["answer"] not in refs[sj]:
            if sj in unreadable:
                out.append(("crash:truncated-entry-returned", "event %d: arrays differing from the uncached solve were returned from a damaged entry" % n))
            else:
                k = r["keys"][0] if r["keys"] else None
                prev = first_by_key.get(k)
                diff = sorted(ARGNAME[f] for f in spec if prev is not None and prev[f] != spec[f]) or ["unknown"]
                out.append(("stale:" + "+".join(diff), "event %d: the cached call returned arrays that differ from the uncached solve of the same request (served the entry of a request differing in %s)" % (n, ", ".join(diff))))
        if cachedcall:
            if sj in served and sj not in unreadable and r["ran"] > 0:
                out.append(("ineffective:" + ("default-halo" if spec["halo"] is None else "repeat"),
                            "event %d: an identical request (halo=%r) was solved again (%d solver run) although it had been solved with the same cache before" % (n, spec["halo"], r["ran"])))
            served[sj] = True
            unreadable.discard(sj)
            if r["keys"]:
                first_by_key.setdefault(r["keys"][0], spec)
    return out


def model_eval(ctx, items):
    """items: list of (id, scenario, keyed) -> {id: lines}"""
    header = ("From Coq Require Import List ZArith Bool.\nFrom BL Require Import Model.Cache Model.CacheExec.\n"
              "Import ListNotations.\nOpen Scope Z_scope.\n")
    terms = {}
    for sid, scn, keyed in items:
        terms.setdefault(coq_scenario(scn, keyed), []).append(sid)
    cases = [("m%d" % n, t) for n, t in enumerate(terms)]
    res = core.coq_eval_sharded(ctx, "c15cases", header, cases, shard=40, timeout=600)
    if "__error__" in res:
        ctx.fail("correspondence", "C15:coq-eval", res["__error__"])
    out = {}
    for n, (t, sids) in enumerate(terms.items()):
        txt = res.get("m%d" % n)
        for sid in sids:
            out[sid] = parse_coq_lists(txt) if txt else None
    return out, len(cases)


def interface_cache_probe(ctx=None):
    """the high-level path: run_bldfm_single with a GreensFunctionCache attached (miss, then hit, then a fresh cache object on the
    same directory) returns bit for bit what it returns without one - on NON-SQUARE grids, for the default source and a user flux.
    Returns [(signature, detail, replay)]."""
    import tempfile
    import numpy as np
    if core.SRC not in sys.path:
        sys.path.insert(0, core.SRC)
    import logging
    logging.disable(logging.CRITICAL)
    import bldfm.config_parser as cp
    import bldfm.interface as itf
    from bldfm.cache import GreensFunctionCache
    out = []
    for (nx, ny), lv in (((6, 8), None), ((8, 5), [2, 0])):
        raw = {"domain": {"nx": nx, "ny": ny, "xmax": 12.0 * nx, "ymax": 9.0 * ny, "nz": 3, "modes": [4, 4], "halo": 20.0, "ref_lat": 50.0, "ref_lon": 11.0},
               "towers": [{"name": "A", "lat": 50.0003, "lon": 11.0004, "z_m": 3.0}],
               "met": {"ustar": 0.4, "mol": -80.0, "wind_speed": 3.0, "wind_dir": 230.0},
               "solver": {"closure": "MOST", "footprint": True, "precision": "double"}}
        if lv is not None:
            raw["domain"]["output_levels"] = lv
        cfg = cp.parse_config_dict(raw)
        tw = cfg.towers[0]
        ref = itf.run_bldfm_single(cfg, tw, met_index=0)
        cdir = tempfile.mkdtemp(prefix="c15itf_", dir=(ctx.build if ctx is not None else None))
        steps = [("miss", GreensFunctionCache(cache_dir=cdir))]
        steps.append(("hit", steps[0][1]))
        steps.append(("hit-new-cache-object", None))
        for lab, cache in steps:
            cache = cache if cache is not None else GreensFunctionCache(cache_dir=cdir)
            try:
                got = itf.run_bldfm_single(cfg, tw, met_index=0, cache=cache)
            except Exception as e:  # noqa: BLE001
                out.append(("raises:" + lab, "run_bldfm_single(..., cache=...) raises %s: %s on a %dx%d grid" % (type(e).__name__, e, nx, ny), {"interface_cache": raw, "step": lab}))
                break
            bad = [k for k in ("conc", "flx") if np.shape(got[k]) != np.shape(ref[k]) or not np.array_equal(np.asarray(got[k]), np.asarray(ref[k]), equal_nan=True)]
            bad += ["grid[%d]" % i for i in range(3) if np.shape(got["grid"][i]) != np.shape(ref["grid"][i]) or not np.array_equal(np.asarray(got["grid"][i]), np.asarray(ref["grid"][i]))]
            if bad:
                out.append(("differs-from-run-without-cache:" + lab,
                            "run_bldfm_single on a %dx%d grid (levels %r) with a cache attached, step '%s': %s differ from the run without a cache (shape %r vs %r)"
                            % (nx, ny, lv, lab, ", ".join(bad), np.shape(got["flx"]), np.shape(ref["flx"])), {"interface_cache": raw, "step": lab}))
                break
    return out


def check(ctx):
    core.check_properties_file(ctx, "Properties/C15.v", THEOREMS, core.AX_NONE)
    # tie (B): translator + bridge lemmas for all requests/stores; the cache block lives in solver.py, so the solver's
    # statement skeleton is an obligation of this property as well
    import py2coq_cache
    import solverslices
    py2coq_cache.run(ctx)
    solverslices.check_skeleton(ctx)
    # the cache reaches the solver through run_bldfm_single (interface.py creates it and hands it on): the translator of that
    # function and its bridge lemmas (built for C13) are obligations here too, and the high-level path is exercised below
    import py2coq_interface
    py2coq_interface.bridge(ctx, only=("GenInterface.v",))
    for sig, detail, rep in interface_cache_probe(ctx):
        ctx.fail("correspondence", "C15:interface:" + sig, detail, hint=rep)
    t0 = time.time()
    size_hint = 3100
    scns = pair_scenarios("pair") + pair_scenarios("cross", cross=True)
    scns += random_scenarios(ctx.rng, 300 if ctx.thorough else 40, "rand")
    scns += damage_scenarios(ctx.rng, size_hint, "dmg")
    scns += flip_scenarios(ctx.rng, size_hint, 60 if ctx.thorough else 12, "flip")
    scns += kill_scenarios("kill", [0, 1, 2, 3, 4, 5] if ctx.thorough else [0, 2, 4, 5])
    res, keys = execute(ctx.build, scns, "chk")

    # ---- traces and key sets against the model
    items = []
    reals = {}
    for s in scns:
        if s.get("no_model"):
            continue
        keyed, lines = real_lines(s, res[s["id"]], keys.get(s["id"], {}))
        reals[s["id"]] = lines
        items.append((s["id"], s, keyed))
    model, nterms = model_eval(ctx, items)
    hist = {}
    events = 0
    nontrivial = 0
    mism = 0
    for s in scns:
        cat = hist.setdefault(s["cat"], {"histories": 0, "events": 0, "hit": 0, "miss": 0, "bypass": 0, "killed": 0,
                                         "damaged": 0, "raised": 0, "mismatch": 0})
        cat["histories"] += 1
        codes = [r["code"] for r in res[s["id"]]]
        for c, nm in ((1, "hit"), (0, "miss"), (2, "bypass"), (3, "killed"), (4, "damaged"), (9, "raised")):
            cat[nm] += codes.count(c)
        cat["events"] += len(codes)
        if s["cat"] == "pair" and len(s["reqs"]) == 2:
            refs = {e["i"]: r.get("ref") for e, r in zip(s["events"], res[s["id"]])}
            hist.setdefault("pair_results_differ", {})[s["var"]] = refs.get(0) != refs.get(1)
        events += len(codes)
        if 0 in codes and 1 in codes:
            nontrivial += 1
        bad = []
        findings = judge(s, res[s["id"]])
        for sig, text in findings:
            if s.get("no_model") or not sig.startswith("ineffective"):  # (repeats are compared through the trace)
                bad.append(text)
        for n, (e, r) in enumerate(zip(s["events"], res[s["id"]])):
            if e["t"] == "kill" and r.get("not_killed") is not None:
                bad.append("event %d: the run was not interrupted at the planned point (exit %s): np.savez/os.replace "
                           "are not on the put path the model describes" % (n, r.get("exit")))
            if e["t"] == "damage" and r.get("skipped"):
                bad.append("event %d: %s" % (n, r["skipped"]))
        if not s.get("no_model"):
            m = model.get(s["id"])
            if m is None:
                bad.append("no model output")
            elif m != reals[s["id"]]:
                where = next((k for k, (a, b) in enumerate(zip(m, reals[s["id"]])) if a != b), -1)
                bad.append("trace/key-set mismatch at line %d (0 = key classes; then one per event: [outcome, solver runs, "
                           "#entries, presence...]): model %r, implementation %r" % (
                               where, m[where] if where >= 0 else m, reals[s["id"]][where] if where >= 0 else reals[s["id"]]))
        if bad:
            mism += 1
            cat["mismatch"] += 1
            if mism <= 40:
                ctx.fail("correspondence", "C15:%s" % s["id"], "; ".join(bad),
                         hint={"scenario": strip(s)})

    # ---- every truncation point of stored entries
    tspecs = [("dflt3d", mkspec()), ("single2d", mkspec({"precision": "single", "levels": 2, "halo": 8.0}))]
    tmodel_scn = {"reqs": [mkspec()], "events": [{"t": "run", "i": 0}, {"t": "damage", "i": 0}, {"t": "run", "i": 0},
                                                 {"t": "run", "i": 0}]}
    tm, _ = model_eval(ctx, [("trunc", tmodel_scn, [0])])
    tm = tm.get("trunc")
    tjobs = []
    nshard = 6 if ctx.thorough else 2
    # a larger entry (members > 4 KiB, so that numpy parses a member header before zipfile checks the CRC):
    # only the zero-block sweep is run on it
    tspecs_all = tspecs + [("big3d", mkspec({"shape": [24, 32], "levels": [1, 2, 3], "halo": 0.0}))]
    for name, spec in tspecs_all:
        for sh in range(nshard):
            tjobs.append({"truncs": [{"id": "%s-%d" % (name, sh), "req": spec,
                                      "points": "none" if name == "big3d" else ("all" if ctx.thorough else "stride"), "shard": sh, "nshard": nshard,
                                      "zero_stride": 8 if ctx.thorough else 32,
                                      "dir": os.path.join(ctx.build, "cache", "trunc-%s-%d" % (name, sh))}]})
    for j in tjobs:
        shutil.rmtree(j["truncs"][0]["dir"], ignore_errors=True)
    touts = run_workers(ctx.build, tjobs, "trunc", 6)
    tstat = {"points": 0, "load_exceptions": {}, "prefix_loaded_identical": 0, "prefix_loaded_different": 0, "sizes": {},
             "mismatch": 0}
    for j, o in zip(tjobs, touts):
        tj = j["truncs"][0]
        r = o["truncs"][tj["id"]]
        tstat["sizes"][tj["id"].rsplit("-", 1)[0]] = r.get("size")
        for k, v in r["load_exc"].items():
            tstat["load_exceptions"][k] = tstat["load_exceptions"].get(k, 0) + v
        for k, same in r["prefix_loaded"]:
            tstat["prefix_loaded_identical" if same else "prefix_loaded_different"] += 1
            if not same:
                ctx.fail("assumption", "C15:np.load-accepts-prefix-%s-%d" % (tj["id"], k),
                         "np.load returned arrays from the first %d bytes of a stored entry" % k,
                         hint={"scenario": trunc_scn(tj["req"], k)})
        if r["first"]["raised"] or r.get("no_entry") or not r["first"]["keys"]:
            ctx.fail("correspondence", "C15:trunc-%s" % tj["id"], "the entry to truncate could not be produced: %r" % (r["first"],),
                     hint={"scenario": trunc_scn(tj["req"], 1)})
            continue
        # model: [classes], run -> miss, damage, run -> miss (solver runs 2, one entry), run -> hit
        want = (tm[3][0], tm[3][1] - tm[2][1], tm[4][0], tm[4][1] - tm[3][1]) if tm else None
        for pt in r["points"]:
            tstat["points"] += 1
            events += 3
            got = (pt["c1"], pt["ran1"], pt["c2"], pt["ran2"])
            if got != want or not (pt["ok1"] and pt["ok2"] and pt["files_ok"]):
                tstat["mismatch"] += 1
                if tstat["mismatch"] <= 12:
                    ctx.fail("correspondence", "C15:trunc-%s-%d" % (tj["id"], pt["k"]),
                             "entry truncated to %d bytes: (outcome, solver runs) of the next two calls: model %r, "
                             "implementation %r; answers equal uncached: %s/%s; raised: %s / %s; directory as expected: %s" % (
                                 pt["k"], want, got, pt["ok1"], pt["ok2"], pt["raised1"], pt["raised2"], pt["files_ok"]),
                             hint={"scenario": trunc_scn(tj["req"], pt["k"])})
        zbad = 0
        for pt in r.get("zpoints", []):
            tstat["zero_block_points"] = tstat.get("zero_block_points", 0) + 1
            events += 2
            if pt["raised1"] or pt["raised2"] or not (pt["ok1"] and pt["ok2"]):
                zbad += 1
                if zbad <= 3:
                    ctx.fail("correspondence", "C15:zeroblock-%s-%d" % (tj["id"], pt["k"]),
                             "entry with a zero-filled 512-byte block at offset %d: raised %s / %s, answers equal uncached %s / %s" % (
                                 pt["k"], pt["raised1"], pt["raised2"], pt["ok1"], pt["ok2"]),
                             hint={"scenario": zero_scn(tj["req"], pt["k"])})
    hist["truncation"] = tstat
    nontrivial += tstat["points"]
    ctx.cov.update({
        "evaluations": events,
        "distinct_nontrivial": nontrivial,
        "rule": "histories of real steady_state_transport_solver calls on tiny grids (ny,nx <= 6, nz = 4, modes <= (4,4)) "
                "against a recording GreensFunctionCache subclass; per event the outcome, cumulative solver-body runs "
                "(counted through solver.fftfreq), number of <sha>.npz files and presence of each request's digest are "
                "compared with vm_compute of Model/CacheExec.scenario, plus the partition of requests by digest vs by "
                "model key; every cached answer is compared bit-for-bit (dtype, shape, bytes) with an uncached solve. "
                "Categories: pair = [A,B,A,B],[B,A,B,A] for each one-argument variation (27 incl. all 13 parameters, "
                "3 halo pairs, scalar-vs-list and 1210-entry level lists) + cache attached/not; cross = the same with "
                "the last two calls in a second Python process on the reused directory; random = random 4-7 call "
                "histories over requests differing in 2-3 arguments; damage = garbage/truncated entry between calls; "
                "flip = one flipped byte (property only); kill = run killed by os._exit inside np.savez after 0..4 "
                "arrays or at os.replace, next process re-runs; truncation = %s byte prefix of two stored entries. "
                "non-trivial = history with at least one hit and one miss, or a truncation point" % (
                    "every" if ctx.thorough else "a stride (first 24, last 80, every 13th) of the"),
        "samples": [{"id": s["id"], "events": [(e["t"], e["i"]) for e in s["events"]],
                     "implementation": reals.get(s["id"])} for s in scns[3::max(1, len(scns) // 6)]][:6],
        "histogram": hist,
        "model_terms_evaluated": nterms,
        "correspondence_mismatches": mism + tstat["mismatch"],
        "variations": [v[0] for v in VARIATIONS] + ["cache"],
        "correspondence_wall_s": round(time.time() - t0, 1),
    })


def strip(s):
    return {k: v for k, v in s.items() if k not in ("dir",)}


def zero_scn(spec, k):
    return {"id": "zero-%d" % k, "cat": "flip", "var": "zero-block", "reqs": [spec], "no_model": True,
            "events": [{"t": "run", "i": 0}, {"t": "damage", "i": 0, "how": {"zero": [k, 512]}},
                       {"t": "run", "i": 0}, {"t": "run", "i": 0}]}


def trunc_scn(spec, k):
    return {"id": "trunc-%d" % k, "cat": "truncation", "var": "trunc", "reqs": [spec],
            "events": [{"t": "run", "i": 0}, {"t": "damage", "i": 0, "how": {"trunc": k}}, {"t": "run", "i": 0},
                       {"t": "run", "i": 0}]}


def oracle(ctx, hints):
    """The statement of C15 on the real code: cached == uncached bit-for-bit for every request of every history;
    an identical repeat does not solve again; an interrupted/truncated entry is a miss (never returned, never fatal)."""
    scns = []
    for n, h in enumerate(hints):
        if h and "scenario" in h:
            s = json.loads(json.dumps(h["scenario"]))
            s["id"] = "hint%03d-%s" % (n, s.get("id", ""))
            scns.append(s)
    sweep = pair_scenarios("opair") + pair_scenarios("ocross", cross=True)
    sweep += damage_scenarios(ctx.rng, 3100, "odmg")
    sweep += [dict(trunc_scn(mkspec(), k), id="otrunc-%s" % str(k).replace("-", "m")) for k in (
        [0, 1, 2, 3, 5, 100, 1000, -120, -22, -2, -1] + ([ctx.rng.randrange(4, 3000) for _ in range(60)] if ctx.thorough else []))]
    sweep += kill_scenarios("okill", [0, 2, 5])
    if ctx.thorough:
        sweep += random_scenarios(ctx.rng, 80, "orand")
    scns += sweep
    res, keys = execute(ctx.build, scns, "orc")
    found = {}
    for s in scns:
        for sig, text in judge(s, res[s["id"]]):
            size = len(s["events"]) * 10 + {"pair": 0, "truncation": 2, "damage": 5, "random": 10, "cross": 20,
                                            "kill": 30}.get(s["cat"], 10)
            if sig not in found or size < found[sig][0]:
                found[sig] = (size, s, text)
    # keep the signatures stable classes: a repeat that fails with an explicit halo subsumes the default-halo class;
    # a multi-argument staleness class (from a random history) is dropped when a one-argument class covers it
    if "ineffective:repeat" in found:
        found.pop("ineffective:default-halo", None)
    singles = {g.split(":", 1)[1] for g in found if g.startswith("stale:") and "+" not in g}
    for g in [g for g in found if g.startswith("stale:") and "+" in g]:
        if set(g.split(":", 1)[1].split("+")) & singles:
            found.pop(g)
    out = []
    order = sorted(found, key=lambda g: (not g.startswith("stale"), g))
    for sig in order:
        size, s, text = found[sig]
        out.append({"signature": sig,
                    "what": "cache %s — history %s (%s): %s" % (sig, s["id"], s.get("var"), text),
                    "replay": {"scenario": strip(s), "finding": text,
                               "how": "steady_state_transport_solver(**request, cache=GreensFunctionCache(dir)) for each event, "
                                      "compared with the same call without cache"}})
    if any(h and "interface_cache" in h for h in hints) or ctx.thorough:
        for sig, detail, rep in interface_cache_probe(ctx):
            out.append({"signature": "interface:" + sig, "what": "C15 " + detail, "replay": rep})
    return out


def replay(body):
    if "interface_cache" in body:
        hits = interface_cache_probe(None)
        for sig, detail, rep in hits:
            print("FAILS", sig, detail)
        if not hits:
            print("holds: run_bldfm_single with a cache attached equals the run without one on the non-square grids")
        return 1 if hits else 0
    import tempfile

    scn = body.get("scenario")
    if not scn:
        print(json.dumps(body, indent=1)[:3000])
        return 0
    tmp = tempfile.mkdtemp(prefix="c15replay")
    try:
        scn = dict(scn)
        scn["id"] = "replay"
        res, keys = execute(tmp, [scn], "rp", nproc=1)
        evres = res["replay"]
        for n, (e, r) in enumerate(zip(scn["events"], evres)):
            spec = scn["reqs"][e["i"]]
            diff = {k: v for k, v in spec.items() if BASE.get(k) != v}
            if e["t"] == "run":
                print("event %d: solve request %d (base request with %r), cache %s -> %s, solver runs %d, answer %s uncached (%s vs %s)%s" % (
                    n, e["i"], diff, "attached" if e.get("cache", True) else "none",
                    {0: "MISS", 1: "HIT", 2: "no lookup", 9: "RAISED"}[r["code"]], r["ran"],
                    "==" if r["answer"] == r["ref"] else "!=", r["answer"], r["ref"],
                    ("  raised " + r["raised"]) if r["raised"] else ""))
            elif e["t"] == "damage":
                print("event %d: entry of request %d overwritten with %r %s" % (n, e["i"], e.get("how"), r.get("skipped", "")))
            else:
                print("event %d: run of request %d killed at write step %d (exit code %s)" % (n, e["i"], e["at"], r.get("exit")))
            print("          entries:", [f[:12] for f in r["files"]])
        f = judge(scn, evres)
        for sig, text in f:
            print("FAILS %s: %s" % (sig, text))
        if not f:
            print("holds")
        return 1 if f else 0
    finally:
        shutil.rmtree(tmp, ignore_errors=True)


if __name__ == "__main__":
    if sys.argv[1] == "--worker":
        worker_main(sys.argv[2])
    elif sys.argv[1] == "--killchild":
        killchild_main(sys.argv[2])
