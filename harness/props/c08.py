"""C08 — meteorological wind-direction convention, end to end.

check  = Properties/C08.v (theorems over R) + slice translator/bridge on compute_wind_fields (u and v)
         + interval-certified correspondence of (u, v) on a fine direction lattice (scalars and numpy arrays)
         + exact observation of what run_bldfm_single feeds to vertical_profiles / the solver
         + a small end-to-end smoke run (footprint centroid bearing, 8 directions).
oracle = the property's own end-to-end statement through parse_config_dict + run_bldfm_single: bearing from the
         tower to the footprint's centre of mass equals wind_dir within 5 degrees on a resolved domain."""
import math
import os
import struct
import sys
from fractions import Fraction

import numpy as np

import c08axis
import core
import py2coq
import rcorr
import solvercorr as sc
import solverslices

THEOREMS_WIND = ["C08_speed", "C08_speed_norm", "C08_cardinals", "C08_upwind_vector", "C08_periodic", "C08_upwind_bearing"]
# Properties/C08Axis.v: the part of the centroid clause that is a theorem (cardinal winds): over abstract Ops (no axioms) ...
THEOREMS_AXIS = ["C08_axis_symmetric_footprint", "C08_axis_symmetric_footprint_defect", "C08_axis_symmetric_footprint_odd",
                 "C08_axis_symmetric_footprint_full", "C08_centroid_on_wind_axis_partial", "C08_centroid_on_wind_axis_noNyq_partial",
                 "C08_axis_symmetric_footprint_x", "C08_axis_symmetric_footprint_x_defect", "C08_axis_symmetric_footprint_x_odd",
                 "C08_axis_symmetric_footprint_x_full", "C08_centroid_on_wind_axis_x_partial", "C08_centroid_on_wind_axis_x_noNyq_partial",
                 "C08_axis_nonvacuous", "C08_axis_example_applied",
                 "C08_centroid_on_wind_axis_any_tower_partial", "C08_centroid_on_wind_axis_any_tower_noNyq_partial",
                 "C08_centroid_on_wind_axis_any_tower_x_partial", "C08_centroid_on_wind_axis_any_tower_x_noNyq_partial",
                 "C08_axis_half_cell_nonvacuous"]
# ... and their connection to compute_wind_fields / the profiles, over R and the complex instance ROps (stdlib real axioms)
THEOREMS_AXIS_R = ["C08_cardinal_no_crosswind", "C08_cardinal_request", "C08_centroid_cardinal_east_west_partial",
                   "C08_centroid_cardinal_north_south_partial", "C08_cardinal_nonvacuous"]
THEOREMS = THEOREMS_WIND + THEOREMS_AXIS + THEOREMS_AXIS_R
TRUSTED = [
    "Model/Wind.v is hand-written over Coq's R; tied to utils.compute_wind_fields by two bridge lemmas against the formulas re-extracted from the current source (SSA expansion of the re-assigned parameter) and by interval-certified evaluation at the exact rational value of every float input",
    "np.deg2rad = x*pi/180, np.sin/np.cos = sin/cos (numpy/libm not modelled; their rounding is inside the 1e-12*max(1,U) tolerance)",
    "the plumbing observation wraps compute_wind_fields, vertical_profiles and steady_state_transport_solver in bldfm.interface's namespace",
    "the centroid-bearing clause is a theorem only for the four cardinal directions and only as 'the centre of mass over a window centred on the tower lies on the wind axis' (Properties/C08Axis.v, theorems about Model/Solver.v); which side (upwind), oblique directions and the tolerance 'a few degrees' are NOT theorems: they are exercised by the end-to-end oracle (thorough tier sweep and whenever an obligation or the correspondence breaks) and by the smoke run in every check",
    "Properties/C08Axis.v speaks about Model/Solver.v: tied to bldfm/solver.py in this check by the solver slice bridge (Bridge/SolverBridge.v, PlumbBridge.v, statement skeleton), by a float correspondence of the model on footprint requests with a wind along a grid axis, and by the axis observable (harness/c08axis.py) measured on the public API",
]
ASSUMPTIONS = [
    "theorems are in exact real arithmetic; orientation of the (x east, y north) frame is C17_orientation; the solver's own orientation is the subject of C02/C06/C07",
    "'a few degrees' = 5 deg; 'resolved domain' = tower at the domain centre (via lat/lon and the reference), 2*max(dx,dy) <= footprint peak distance <= min(xmax,ymax)/20 (measured first, domain sized in units of it), modes = all modes of the padded grid, halo = 2*max(xmax,ymax) for every closure (measured worst error 0.75 deg) and additionally the solver's default halo for MOST/MOSTM (measured worst 2.7 deg); the CONSTANT closure with the default halo is NOT counted as resolved: its x^(-3/2) tail re-enters through the periodic images and moves the centroid by up to 5.7 deg on oblong domains, and a truncated spectrum (modes = grid size) low-pass filters anisotropically (up to 9 deg) - both are domain/resolution effects, not direction-convention effects",
    "correspondence tolerance 1e-12*max(1,|U|): deg2rad and sin/cos round to <= 2 ulp at |wind_dir| <= 720 deg",
    "axis theorems: exact arithmetic under Laws O (field laws standing for IEEE doubles); footprint mode; v = 0 (u = 0) at every node - in binary64 compute_wind_fields(U, 90) has v = -U*6.1e-17, not 0; tower on a grid line for the centroid statements; returned array exact for an odd retained count or the full spectrum, otherwise without the unpaired retained frequency; every halo. Axis observable: tolerance 1e-9 of max|F| / of r*sum|F| (double; measured <= 3e-11 on the unchanged tree) and 1e-4 (single storage); direct solver requests in the bounded-growth regime (shooting growth exponent <= 2.5: cells enlarged until it holds; measured worst over 2400 generated cases 2e-11, with 3.5 it was 4.6e-10), because on under-resolved grids (cells smaller than the measurement height) the shooting method amplifies the 1e-16 cross-wind component up to 1e-7; through run_bldfm_single on the resolved end-to-end configurations (measured <= 2.1e-11 on all 102 configurations of the thorough sweep, dominated by the tower being 1.5e-12 cells off its grid line after the lat/lon round trip)",
]

UTILS = lambda: os.path.join(core.SRC, "bldfm", "utils.py")
SLICES = [
    dict(name="wind_u", func="compute_wind_fields", target="return", elt=0, arity=2, inline=["u", "v", "wind_dir"], params=["u_rot", "wind_dir"]),
    dict(name="wind_v", func="compute_wind_fields", target="return", elt=1, arity=2, inline=["u", "v", "wind_dir"], params=["u_rot", "wind_dir"]),
]
UNFOLD = "unfold compute_wind_fields, deg2rad; cbn [fst snd];"
HEADER = rcorr.HEADER + "From BL Require Import Model.Wind.\n"
BEARING_TOL = 5.0


def _impl():
    if core.SRC not in sys.path:
        sys.path.insert(0, core.SRC)
    os.environ.setdefault("NUMBA_CACHE_DIR", os.path.join(core.VERIF, "build", "numba_cache"))
    import bldfm.config_parser as cp
    import bldfm.interface as itf
    import bldfm.utils as ut
    from bldfm.plotting import _geo as geo
    import logging

    logging.disable(logging.CRITICAL)  # "No tke provided" etc.: the OAAHOC default is intended here
    return cp, itf, ut, geo


def _wind_only():
    """compute_wind_fields without importing the solver stack twice"""
    if core.SRC not in sys.path:
        sys.path.insert(0, core.SRC)
    import bldfm.utils as ut

    return ut


def bits(x):
    return struct.pack("<d", float(x)).hex()


def run_slices(ctx):
    import skeleton
    skeleton.check_names(ctx, "wind", UTILS(), ["compute_wind_fields"], skeleton.slice_names(SLICES))
    try:
        text = py2coq.translate(UTILS(), SLICES, "R")
    except py2coq.TranslateError as e:
        ctx.obligation("gen:GenWind.v", False, "slice translator failed closed: %s" % e)
        return False
    ctx.cov["slices_translated"] = ctx.cov.get("slices_translated", 0) + 2
    return core.run_bridge(ctx, {"GenWind.v": text}, ["WindBridge.v"])


def tol_lit(U):
    fr = Fraction(max(1.0, abs(float(U)))) / 10 ** 12
    return "(%d / %d)" % (fr.numerator, fr.denominator)


# ---------------------------------------------------------------------------------------------
# correspondence of (u, v)


def gen_wind(ctx):
    rng = ctx.rng
    step = 2.5 if ctx.thorough else 7.5
    dirs = [k * step for k in range(int(360 / step))]
    dirs += [360.0, 450.0, 720.5, -90.0, -0.0, 1e-9, 359.999999]
    dirs += [rng.uniform(0, 360) for _ in range(40 if ctx.thorough else 10)]
    speeds = [0.5, 3.0, 12.25] + [rng.uniform(0.1, 20.0) for _ in range(3 if ctx.thorough else 1)]
    cases = []
    for wd in dirs:
        for U in (speeds if ctx.thorough else [speeds[int(wd * 7) % len(speeds)], speeds[int(wd * 3 + 1) % len(speeds)]]):
            cases.append((U, wd))
    cases += [(0.0, 123.0), (5, 270), (7, 45), (-2.0, 30.0)]  # zero speed, int inputs, negative "speed"
    return cases


def gen_wind_arrays(ctx):
    rng = ctx.rng
    n = 12 if ctx.thorough else 4
    out = []
    for k in range(n):
        m = rng.randint(3, 6)
        wd = np.array([rng.choice([0.0, 90.0, 180.0, 270.0, rng.uniform(0, 360)]) for _ in range(m)])
        if k % 2 == 0:
            U = rng.uniform(0.5, 15.0)
            kind = "dir-array"
        else:
            U = np.array([rng.uniform(0.5, 15.0) for _ in range(m)])
            kind = "both-arrays"
        out.append((kind, U, wd))
    return out


def wind_correspondence(ctx, ut):
    goals, info, hist = [], {}, {}

    def add(cid, U, wd, u, v, kind):
        a = "%s %s" % (rcorr.rlit(U), rcorr.rlit(wd))
        h = {"U": float(U), "wd": float(wd), "impl": [float(u), float(v)], "kind": kind}
        goals.append((cid + "u", "Rabs (fst (compute_wind_fields %s) - %s) <= %s" % (a, rcorr.rlit(float(u)), tol_lit(U))))
        goals.append((cid + "v", "Rabs (snd (compute_wind_fields %s) - %s) <= %s" % (a, rcorr.rlit(float(v)), tol_lit(U))))
        info[cid + "u"] = info[cid + "v"] = h
        hist[kind] = hist.get(kind, 0) + 2

    scal = gen_wind(ctx)
    for i, (U, wd) in enumerate(scal):
        u, v = ut.compute_wind_fields(U, wd)
        kind = "cardinal" if float(wd) % 90 == 0 else "oblique"
        add("s%d" % i, U, wd, u, v, kind)
    arrs = gen_wind_arrays(ctx)
    for i, (kind, U, wd) in enumerate(arrs):
        u, v = ut.compute_wind_fields(U, wd)
        u, v = np.asarray(u), np.asarray(v)
        if u.shape != wd.shape or v.shape != wd.shape:
            ctx.fail("correspondence", "C08:array-shape-%d" % i, "shapes %r %r" % (u.shape, v.shape), hint={"U": float(np.ravel(U)[0]), "wd": float(wd[0])})
            continue
        Ub = np.broadcast_to(np.asarray(U, float), wd.shape)
        for j in range(wd.size):
            add("a%d_%d" % (i, j), float(Ub[j]), float(wd[j]), u[j], v[j], "array:" + kind)
    failing, err = rcorr.certify(ctx, "c08iv", HEADER, UNFOLD, goals, shard=50, jobs=14)
    if err:
        ctx.fail("correspondence", "C08:coq-interval", err)
    for cid in sorted(failing)[:20]:
        ctx.fail("correspondence", "C08:case-%s" % cid, "interval could not certify |model - implementation| <= tol for %r" % (info[cid],), hint=info[cid])
    return goals, info, hist, failing, len(scal), len(arrs)


# ---------------------------------------------------------------------------------------------
# plumbing: what run_bldfm_single feeds to the profiles and to the solver


class Recorder:
    def __init__(self, itf, stub_solver=True):
        self.itf = itf
        self.stub = stub_solver
        self.calls = {"wind": [], "prof": [], "solve": []}
        self.orig = (itf.compute_wind_fields, itf.vertical_profiles, itf.steady_state_transport_solver)

    def __enter__(self):
        itf, (ow, op, os_) = self.itf, self.orig

        def w(*a, **k):
            r = ow(*a, **k)
            self.calls["wind"].append((a, k, r))
            return r

        def p(*a, **k):
            r = op(*a, **k)
            self.calls["prof"].append((a, k, r))
            return r

        def s(*a, **k):
            self.calls["solve"].append((a, k))
            if self.stub:
                return ("GRID", "CONC", "FLX")
            return os_(*a, **k)

        itf.compute_wind_fields, itf.vertical_profiles, itf.steady_state_transport_solver = w, p, s
        return self

    def __exit__(self, *exc):
        itf = self.itf
        itf.compute_wind_fields, itf.vertical_profiles, itf.steady_state_transport_solver = self.orig
        return False


def gen_plumb(ctx):
    rng = ctx.rng
    n = 120 if ctx.thorough else 40
    cases = []
    for k in range(n):
        nsteps = rng.choice([1, 1, 2, 3])
        aslist = nsteps > 1 or k % 5 == 0
        ws = [rng.uniform(0.5, 12.0) for _ in range(nsteps)]
        wd = [rng.choice([0.0, 90.0, 180.0, 270.0, rng.uniform(0, 360)]) for _ in range(nsteps)]
        met = {"mol": rng.choice([1e9, -80.0, 150.0]),
               "wind_speed": ws if aslist else ws[0],
               "wind_dir": wd if (aslist and k % 2 == 0) or nsteps > 1 else wd[0]}
        if k % 3 == 0:
            met["z0"] = rng.choice([0.05, 0.1, 0.3])
        else:
            met["ustar"] = [0.3 + 0.05 * i for i in range(nsteps)] if nsteps > 1 and k % 2 else 0.35
        rlat, rlon = rng.uniform(-60, 60), rng.uniform(-180, 180)
        # a reference on the equator / the prime meridian / at (0, 0) is an origin like any other (0.0 is a coordinate)
        if k % 8 == 1:
            rlat = 0.0
        elif k % 8 == 3:
            rlon = 0.0
        elif k % 8 == 5:
            rlat, rlon = 0.0, 0.0
        ntw = rng.choice([1, 2, 3])
        towers = [{"name": "T%d" % t, "lat": rlat + rng.uniform(-0.003, 0.003), "lon": rlon + rng.uniform(-0.003, 0.003),
                   "z_m": rng.choice([2.0, 3.5, 10.0])} for t in range(ntw)]
        dom = {"nx": 8, "ny": rng.choice([8, 12]), "xmax": 100.0, "ymax": rng.choice([100.0, 150.0]), "nz": 4, "modes": [8, 8]}
        if k % 7 != 6:
            dom["ref_lat"], dom["ref_lon"] = rlat, rlon
        closure = rng.choice(["MOST", "MOSTM", "CONSTANT", "OAAHOC"])
        if closure == "OAAHOC" and "ustar" not in met:
            met.pop("z0", None)  # this closure is defined by ustar and tke; z0 is derived
            met["ustar"] = 0.35
        raw = {"domain": dom, "towers": towers, "met": met,
               "solver": {"closure": closure, "footprint": bool(k % 2), "precision": "double"}}
        cases.append({"raw": raw, "met_index": rng.randrange(nsteps), "tower": rng.randrange(ntw), "has_ref": "ref_lat" in dom})
    return cases


def plumb_one(cp, itf, ut, case):
    """returns list of discrepancies (strings); empty = exactly as the property's mechanism demands"""
    raw, mi, ti = case["raw"], case["met_index"], case["tower"]
    cfg = cp.parse_config_dict(raw)
    tower = cfg.towers[ti]
    with Recorder(itf, stub_solver=True) as rec:
        res = itf.run_bldfm_single(cfg, tower, met_index=mi)
    bad = []
    g = lambda f: f[mi] if isinstance(f, list) else f
    ws, wd = g(raw["met"]["wind_speed"]), g(raw["met"]["wind_dir"])
    if len(rec.calls["wind"]) != 1 or len(rec.calls["prof"]) != 1 or len(rec.calls["solve"]) != 1:
        return ["call counts %r" % {k: len(v) for k, v in rec.calls.items()}]
    (wa, wk, wr) = rec.calls["wind"][0]
    wargs = list(wa) + [wk.get("u_rot"), wk.get("wind_dir")]
    wargs = [a for a in wargs if a is not None][:2]
    if [bits(a) for a in wargs] != [bits(ws), bits(wd)]:
        bad.append("compute_wind_fields called with %r, the step has wind_speed=%r wind_dir=%r" % (wargs, ws, wd))
    eu, ev = ut.compute_wind_fields(ws, wd)
    (pa, pk, pr) = rec.calls["prof"][0]
    wind = pk.get("wind", pa[2] if len(pa) > 2 else None)
    if wind is None or [bits(wind[0]), bits(wind[1])] != [bits(eu), bits(ev)]:
        bad.append("vertical_profiles got wind=%r, compute_wind_fields(%r, %r) = (%r, %r)" % (wind, ws, wd, eu, ev))
    if pk.get("meas_height") != tower.z_m or pk.get("n") != raw["domain"]["nz"] or pk.get("closure") != raw["solver"]["closure"]:
        bad.append("vertical_profiles got meas_height/n/closure = %r/%r/%r" % (pk.get("meas_height"), pk.get("n"), pk.get("closure")))
    (sa, sk) = rec.calls["solve"][0]
    mp = sk.get("meas_pt")
    dom = raw["domain"]
    if case["has_ref"]:
        ex, ey = cp.latlon_to_xy(raw["towers"][ti]["lat"], raw["towers"][ti]["lon"], dom["ref_lat"], dom["ref_lon"])
    else:
        ex, ey = 0.0, 0.0
    if mp is None or [bits(mp[0]), bits(mp[1])] != [bits(ex), bits(ey)]:
        bad.append("solver got meas_pt=%r, the tower's local coordinates are (%r, %r)" % (mp, ex, ey))
    if sk.get("profiles") is not pr[1] or sk.get("z") is not pr[0]:
        bad.append("solver did not receive the profiles returned by vertical_profiles")
    if tuple(sk.get("domain", ())) != (dom["xmax"], dom["ymax"]) or sk.get("footprint") != raw["solver"]["footprint"]:
        bad.append("solver got domain/footprint = %r/%r" % (sk.get("domain"), sk.get("footprint")))
    if [bits(v) for v in res.get("tower_xy", (1, 1))] != [bits(ex), bits(ey)]:
        bad.append("result tower_xy = %r" % (res.get("tower_xy"),))
    return bad


# ---------------------------------------------------------------------------------------------
# end to end: footprint centroid bearing through the configuration-driven interface

GRIDS = {  # name: (nx, ny, xmax in peak distances, ymax in peak distances); cells are a third of the peak distance
    "square": (64, 64, 64 / 3.0, 64 / 3.0),
    "oblong-x": (96, 64, 32.0, 64 / 3.0),
    "oblong-y-anisotropic-cells": (64, 96, 64 / 3.0, 40.0),
}


def e2e_config(geo, P, wd, xmax, ymax):
    nx, ny = P["nx"], P["ny"]
    rlat, rlon = P["ref"]
    lat, lon = geo.xy_to_latlon(xmax / 2, ymax / 2, rlat, rlon)
    met = {"mol": P["mol"], "wind_speed": P["U"], "wind_dir": wd}
    if P.get("z0") is not None:
        met["z0"] = P["z0"]
    else:
        met["ustar"] = P["ustar"]
    # enough modes = every mode of the padded grid: a truncated spectrum low-pass filters the footprint
    # anisotropically on oblong grids (measured: up to 9 deg), which is resolution, not direction convention
    halo = (P.get("halo_mult") or 1.0) * max(xmax, ymax)
    modes = [nx + 2 * int(halo / (xmax / nx)), ny + 2 * int(halo / (ymax / ny))]
    dom = {"nx": nx, "ny": ny, "xmax": xmax, "ymax": ymax, "nz": P.get("nz", 16), "modes": modes,
           "ref_lat": rlat, "ref_lon": rlon}
    if P.get("halo_mult") is not None:
        dom["halo"] = halo
    return {"domain": dom, "towers": [{"name": "A", "lat": float(lat), "lon": float(lon), "z_m": P["zm"]}],
            "met": met, "solver": {"closure": P["closure"], "footprint": True, "precision": "double"}}


def e2e_run(cp, itf, geo, P, wd, xmax, ymax):
    cfg = cp.parse_config_dict(e2e_config(geo, P, wd, xmax, ymax))
    t = cfg.towers[0]
    if P.get("cached"):
        # through a result cache: the first call solves and stores, the second is served from the store — the
        # footprint examined is the one a repeated run hands to the user
        import tempfile
        from bldfm.cache import GreensFunctionCache
        cache = GreensFunctionCache(tempfile.mkdtemp(prefix="c08cache_", dir=os.getcwd()))
        itf.run_bldfm_single(cfg, t, cache=cache)
        r = itf.run_bldfm_single(cfg, t, cache=cache)
    else:
        r = itf.run_bldfm_single(cfg, t)
    X, Y = np.squeeze(np.asarray(r["grid"][0], float)), np.squeeze(np.asarray(r["grid"][1], float))
    f = np.squeeze(np.asarray(r["flx"], float))
    if f.shape != X.shape or not np.all(np.isfinite(f)):
        return None
    m = f.sum()
    if not m > 0:
        return None
    cx, cy = (f * X).sum() / m - t.x, (f * Y).sum() / m - t.y
    pk = np.unravel_index(np.argmax(f), f.shape)
    brg = math.degrees(math.atan2(cx, cy)) % 360.0
    return {"axis": axis_moment(f, wd, t.x, t.y, xmax, ymax), "bearing": brg, "err": (brg - wd + 180.0) % 360.0 - 180.0, "peak": math.hypot(X[pk] - t.x, Y[pk] - t.y),
            "cdist": math.hypot(cx, cy), "tower_xy": (t.x, t.y), "centre_off": math.hypot(t.x - xmax / 2, t.y - ymax / 2)}


def axis_moment(f, wd, tx, ty, xmax, ymax):
    """cardinal wind directions with the tower on a grid line (to 2e-11 cells; through lat/lon the tower of the
    end-to-end configurations is 1.5e-12 cells off its line, which is what the measured moments of 1e-14 .. 2e-11 on
    the 102 resolved configurations of the thorough sweep consist of): first moment of the footprint ACROSS the
    wind about the tower over the largest window of whole rows/columns centred on the tower, relative to r*sum|F|
    (C08_centroid_on_wind_axis_partial: exactly 0 when all modes of the padded grid are retained).  None otherwise."""
    if float(wd) % 90.0 != 0.0:
        return None
    rows = float(wd) % 180.0 == 90.0
    A = f if rows else f.T
    n = A.shape[0]
    pos = (ty / (ymax / n)) if rows else (tx / (xmax / n))
    jm = int(round(pos))
    r = min(jm, n - 1 - jm)
    if abs(pos - jm) > 2e-11 or r < 1:
        return None
    d = np.arange(-r, r + 1)
    W = A[jm - r: jm + r + 1, :]
    return float(abs((d[:, None] * W).sum()) / (r * np.abs(W).sum()))


def resolve_domain(cp, itf, geo, P):
    """Measure the footprint's peak distance and size the domain in units of it.  Returns (xmax, ymax, peak), or
    None when the configuration cannot be resolved with this grid, or ("misplaced", record) when it cannot be
    resolved AND the footprint of the west wind used for sizing does not even lie west of the tower: with the tower
    in the middle of the domain that bearing is 270 deg by symmetry whatever the resolution, so a footprint that has
    been moved somewhere else must not be able to hide behind "unresolved"."""
    nx, ny, mx, my = GRIDS[P["grid"]]
    P["nx"], P["ny"] = nx, ny
    pk = 12.0 * P["zm"]
    last = None
    for it in range(6):
        xmax, ymax = mx * pk, my * pk
        r = e2e_run(cp, itf, geo, P, 270.0, xmax, ymax)
        if r is None:
            return None
        dx, dy = xmax / nx, ymax / ny
        new = max(r["peak"], min(dx, dy))
        if 2 * max(dx, dy) <= r["peak"] <= min(xmax, ymax) / 20:
            return xmax, ymax, r["peak"]
        last = (270.0, r["bearing"], r["err"], xmax, ymax, r["peak"])
        pk = new
    if last is not None and abs(last[2]) > BEARING_TOL:
        return ("misplaced", last)
    return None


def classify(fails):
    """fails: [(wd, bearing)] with |bearing - wd| > tol.  Stable class of the failure."""
    def frac(T):
        k = 0
        for wd, b in fails:
            if abs((b - T(wd) + 180.0) % 360.0 - 180.0) <= BEARING_TOL:
                k += 1
        return k / len(fails)
    cands = [("bearing:off-by-180", lambda w: w + 180.0), ("bearing:mirrored-east-west", lambda w: -w),
             ("bearing:mirrored-north-south", lambda w: 180.0 - w), ("bearing:axes-swapped", lambda w: 90.0 - w),
             ("bearing:math-convention", lambda w: 270.0 - w), ("bearing:rotated-plus-90", lambda w: w + 90.0),
             ("bearing:rotated-minus-90", lambda w: w - 90.0)]
    best = max(cands, key=lambda c: frac(c[1]))
    return best[0] if frac(best[1]) >= 0.6 else "bearing:exceeds-5deg"


def sweep_one(cp, itf, geo, P, dirs):
    """returns (status, records) ; status in resolved / skipped"""
    dom = resolve_domain(cp, itf, geo, P)
    if dom is None:
        return "skipped", []
    if dom[0] == "misplaced":
        return "resolved", [dom[1]]
    xmax, ymax, peak = dom
    recs = []
    for wd in dirs:
        r = e2e_run(cp, itf, geo, P, float(wd), xmax, ymax)
        if r is None:
            return "skipped", []
        recs.append((float(wd), r["bearing"], r["err"], xmax, ymax, peak))
        if r.get("axis") is not None:
            P.setdefault("_axis", []).append((float(wd), r["axis"]))
    return "resolved", recs


def smoke(ctx, cp, itf, geo):
    """end-to-end smoke run in every check: MOST on eight directions, and every other closure the
    interface accepts (MOSTM, CONSTANT, OAAHOC) on oblique directions, on square, oblong and anisotropic-cell grids"""
    base = {"mol": 1e9, "U": 4.0, "ustar": 0.4, "zm": 3.0, "grid": "square", "halo_mult": 2.0, "ref": (50.95, 11.586)}
    plan = [("MOST", "square", [0.0, 90.0, 180.0, 270.0, 30.0, 135.0, 200.0, 310.0]),
            ("OAAHOC", "square", [0.0, 120.0, 250.0]), ("MOSTM", "oblong-y-anisotropic-cells", [60.0, 200.0]),
            ("CONSTANT", "oblong-x", [120.0, 315.0]), ("MOST:cached", "square", [30.0, 200.0])]
    plan.append(("MOSTM:axis", "oblong-y-anisotropic-cells", [90.0, 180.0]))
    n, worst = 0, None
    ctx.cov["axis_e2e"] = {"runs": 0, "worst": 0.0, "tolerance": c08axis.TOL["double"]}
    for closure, grid, dirs in plan:
        P = dict(base, closure=closure.split(":")[0], grid=grid)
        if closure.endswith(":cached"):
            P["cached"] = True
        try:
            status, recs = sweep_one(cp, itf, geo, P, dirs)
        except Exception as e:
            ctx.fail("correspondence", "C08:e2e-smoke-raised-%s" % closure, "the end-to-end smoke run raised %r" % e, hint={"e2e": P})
            continue
        if status != "resolved":
            if closure == "MOST":
                ctx.fail("correspondence", "C08:e2e-smoke-unresolved", "the smoke configuration could not be resolved", hint={"e2e": P})
            continue
        axis_recs = P.pop("_axis", [])
        n += len(recs)
        w = max(abs(r[2]) for r in recs)
        worst = w if worst is None else max(worst, w)
        for wd, mom in axis_recs:
            ctx.cov["axis_e2e"]["runs"] += 1
            ctx.cov["axis_e2e"]["worst"] = max(ctx.cov["axis_e2e"]["worst"], mom)
            if not mom <= c08axis.TOL["double"]:
                ctx.fail("correspondence", "C08:e2e-axis-%s-wd%g" % (closure, wd),
                         "through run_bldfm_single, wind_dir %g, tower on a grid line, all modes of the padded grid: the footprint's first moment across the wind about the tower is %.3g of r*sum|F| (theorem C08_centroid_on_wind_axis_partial: 0; tolerance %g) (closure %s)" % (wd, mom, c08axis.TOL["double"], closure),
                         hint={"e2e": dict(P)})
        for wd, b, err, xmax, ymax, peak in recs:
            if abs(err) > BEARING_TOL:
                ctx.fail("correspondence", "C08:e2e-smoke-%s-wd%g" % (closure, wd), "footprint centroid bearing %.2f deg for wind_dir %.1f (closure %s)" % (b, wd, closure), hint={"e2e": P})
    return n, worst


def gen_axis_model_cases(ctx):
    """footprint requests with a wind along a grid axis and the tower on a grid line, for the float correspondence of
    Model/Solver.v (the model the axis theorems are about): halo none / default / unequal pads, full / truncated / odd
    spectra, both storage precisions"""
    rng = ctx.rng
    out = []
    for k in range(12 if ctx.thorough else 5):
        nx, ny = rng.choice([4, 5, 6]), rng.choice([3, 4, 6])
        dx, dy = rng.choice([1.5, 2.0]), rng.choice([1.25, 3.0])
        U = rng.choice([0.5, 1.0, 3.0]) * rng.choice([1, -1])
        wind = (U, 0.0) if k % 2 == 0 else (0.0, U)
        halo = [0.0, 2.2 * max(dx, dy), None, 0.7 * dy + 0.01][k % 4]
        if halo is None and max(nx, ny) > 4:
            halo = 1.3 * dx
        out.append(sc.mk_case(rng, nx=nx, ny=ny, domain=(nx * dx, ny * dy), footprint=True, analytic=False, wind=wind,
                              kind=rng.choice(["vary", "const"]), halo=halo, meas=(dx * rng.randrange(nx), dy * rng.randrange(ny)),
                              modes=rng.choice([(64, 64), (4, 4), (2, 4), (8, 8)]), precision="single" if k % 5 == 4 else "double"))
    return out


def check_axis(ctx):
    """the tie of Properties/C08Axis.v (theorems about Model/Solver.v) to the current source"""
    core.check_properties_file(ctx, "Properties/C08Axis.v", THEOREMS_AXIS, core.AX_NONE)
    # coqchk is not run on this file: it imports the Interval/Coquelicot-based profile proofs (PblProofs), on which the
    # independent checker does not finish in 20 minutes (as for Properties/C19Num.v); Print Assumptions is compared as usual
    core.check_properties_file(ctx, "Properties/C08AxisWind.v", THEOREMS_AXIS_R, core.AX_REALS, coqchk=False)
    solverslices.run(ctx)
    cases = gen_axis_model_cases(ctx)
    recs = sc.correspond(ctx, cases, "c08ax_")
    devs = [r["dev"] for r in recs if r.get("dev") is not None]
    obs = c08axis.observe(ctx)
    return {"model_cases": len(cases), "model_mismatches": sum(1 for r in recs if not r["ok"]), "model_max_rel_dev": max(devs) if devs else None, "obs": obs}


def check(ctx):
    core.check_properties_file(ctx, "Properties/C08.v", THEOREMS_WIND, core.AX_REALS)
    run_slices(ctx)
    # the configuration step (TowerConfig.compute_local_xy, BLDFMConfig.__post_init__, the parser tables) is anchored in
    # config_parser.py: its translator and bridge lemmas (built for C13) are obligations of this property too
    import py2coq_interface
    py2coq_interface.bridge(ctx)
    axis = check_axis(ctx)
    ut = _wind_only()
    goals, info, hist, failing, n_scal, n_arr = wind_correspondence(ctx, ut)
    cp, itf, ut, geo = _impl()
    plumb = gen_plumb(ctx)
    n_pl_bad = 0
    for i, case in enumerate(plumb):
        try:
            bad = plumb_one(cp, itf, ut, case)
        except Exception as e:
            bad = ["raised %r" % e]
        if bad:
            n_pl_bad += 1
            if n_pl_bad <= 8:
                ctx.fail("correspondence", "C08:plumbing-%d" % i, "; ".join(bad), hint={"plumb": case})
    n_smoke, worst = smoke(ctx, cp, itf, geo)
    hist["plumbing"] = len(plumb)
    hist["plumbing:with-reference"] = sum(1 for c in plumb if c["has_ref"])
    hist["plumbing:timeseries"] = sum(1 for c in plumb if isinstance(c["raw"]["met"]["wind_speed"], list))
    hist["e2e-smoke"] = n_smoke
    hist["axis-model-correspondence"] = axis["model_cases"]
    hist.update(axis["obs"]["histogram"])
    ctx.cov["axis"] = {"model_correspondence_cases": axis["model_cases"], "model_max_rel_dev": axis["model_max_rel_dev"],
                       "observable_cases": axis["obs"]["cases"], "observable_worst": axis["obs"]["worst"], "observable_tolerance": c08axis.TOL,
                       "growth_bound": c08axis.GROWTH_BOUND, "sample": axis["obs"]["sample"],
                       "rule": "axis observable on the public API (compute_wind_fields -> vertical_profiles -> solver, footprint): mirror symmetry of the footprint about the tower's grid line and zero first moment across the wind, cases from the case splits of the proofs (halo none/default/unequal pads, odd/even padded size, full/truncated spectrum, tower on a line or half way, all closures, both precisions); float correspondence of Model/Solver.v on axis requests; the same moment through run_bldfm_single in the smoke run"}
    ctx.cov.update({
        "evaluations": len(goals) + len(plumb) + n_smoke + axis["model_cases"] + axis["obs"]["evaluated"],
        "distinct_nontrivial": sum(1 for cid, _ in goals if info[cid]["U"] != 0) + sum(1 for c in plumb if c["has_ref"]) + n_smoke + axis["obs"]["evaluated"],
        "rule": "interval-certified goals for u and v: %d scalar (speed, direction) pairs on a %s-degree lattice incl. the cardinals, 360/450/720.5/-90/-0.0, random oblique directions, int inputs, zero and negative speed; %d array calls (direction array with scalar or array speed), element by element; %d exact plumbing observations (scalar/list met fields, met_index, z0/ustar branch, 1-3 towers, with/without reference, three closures) comparing bit patterns of what run_bldfm_single passes on; %d end-to-end smoke directions (worst bearing error %s deg); non-trivial = non-zero speed / tower off the origin" % (n_scal, "2.5" if ctx.thorough else "7.5", n_arr, len(plumb), n_smoke, "%.2f" % worst if worst is not None else "n/a"),
        "samples": [info[cid] for cid, _ in goals[:: max(1, len(goals) // 5)]][:5] + [{"plumb": plumb[0]}],
        "histogram": hist,
        "correspondence_mismatches": len(failing) + n_pl_bad + axis["model_mismatches"] + axis["obs"]["violations"],
        "interval_goals": len(goals),
    })


# ---------------------------------------------------------------------------------------------
# oracle


def probe_wind(ut, U, wd):
    out = []
    u, v = ut.compute_wind_fields(U, wd)
    if not abs(math.hypot(u, v) - abs(U)) <= 1e-12 * max(1.0, abs(U)):
        out.append(("speed:not-preserved", "|(u,v)| = %.15g for speed %.15g, direction %g" % (math.hypot(u, v), U, wd)))
    card = {0.0: (0.0, -1.0), 90.0: (-1.0, 0.0), 180.0: (0.0, 1.0), 270.0: (1.0, 0.0)}
    if float(wd) in card:
        eu, ev = card[float(wd)]
        if not (abs(u - eu * U) <= 1e-12 * max(1.0, abs(U)) and abs(v - ev * U) <= 1e-12 * max(1.0, abs(U))):
            toward = {0.0: "south", 90.0: "west", 180.0: "north", 270.0: "east"}[float(wd)]
            out.append(("cardinal:wrong", "wind from %g deg should blow toward %s: (u,v) = (%g, %g) for speed %g" % (wd, toward, u, v, U)))
    return out


def probe_interface_wind(cp, itf, ut, U, wd):
    """what the profiles receive through the configuration-driven interface"""
    raw = {"domain": {"nx": 8, "ny": 8, "xmax": 100.0, "ymax": 100.0, "nz": 4, "modes": [8, 8], "ref_lat": 50.0, "ref_lon": 11.0},
           "towers": [{"name": "A", "lat": 50.0004, "lon": 11.0007, "z_m": 3.0}],
           "met": {"ustar": 0.3, "mol": 1e9, "wind_speed": U, "wind_dir": wd}, "solver": {"footprint": True, "precision": "double"}}
    cfg = cp.parse_config_dict(raw)
    with Recorder(itf, stub_solver=True) as rec:
        itf.run_bldfm_single(cfg, cfg.towers[0])
    (pa, pk, pr) = rec.calls["prof"][0]
    u, v = pk["wind"]
    out = []
    if not abs(math.hypot(u, v) - U) <= 1e-12 * max(1.0, U):
        out.append(("speed:not-preserved", "interface hands |(u,v)| = %.15g to the profiles for wind_speed %.15g, wind_dir %g" % (math.hypot(u, v), U, wd)))
    # upwind unit vector must have compass bearing wd
    if U > 0:
        b = math.degrees(math.atan2(-u, -v)) % 360.0
        if abs((b - wd + 180.0) % 360.0 - 180.0) > 1e-9:
            out.append(("cardinal:wrong" if wd % 90 == 0 else "bearing:wind-vector", "upwind direction of the wind handed to the profiles has bearing %.9f deg for wind_dir %g" % (b, wd)))
    return out


def e2e_space(ctx):
    """covering design: every closure x stability x speed once, grids / heights / references / z0-vs-ustar rotated
    (Latin-square style) so that no two factors are aliased; default-halo twins for half of the MOST/MOSTM cases"""
    closures = ["MOST", "MOSTM", "CONSTANT", "OAAHOC"]
    mols = [1e9, -30.0, -200.0, 60.0, 300.0] if ctx.thorough else [1e9, -50.0, 80.0]
    speeds = [1.5, 4.0, 9.0] if ctx.thorough else [2.0, 6.0]
    refs = [(50.95, 11.586), (-33.9, 18.4), (60.0, -150.0), (0.0, 0.0), (-60.0, 179.9)]
    grids = ["square", "oblong-x", "oblong-y-anisotropic-cells"]
    out = []
    k = 0
    for ci, c in enumerate(closures):
        for mi, mol in enumerate(mols):
            for ui, U in enumerate(speeds):
                P = {"closure": c, "mol": mol, "U": U, "zm": [3.0, 2.0, 8.0][(ci + 2 * mi + ui) % 3],
                     "grid": grids[(ci + mi + ui) % 3], "halo_mult": 2.0, "ref": refs[k % len(refs)]}
                if (mi + 2 * ui + ci) % 4 == 3 and c != "OAAHOC":  # OAAHOC is defined by ustar and tke; z0 is derived
                    P["z0"] = 0.1
                else:
                    P["ustar"] = U / (8.0 if (mi + ui) % 2 else 12.0)
                out.append(P)
                if (ci + mi + ui) % 3 == 0:
                    Q = dict(P)
                    Q["cached"] = True  # the footprint a repeated run gets from the result cache
                    out.append(Q)
                if c != "CONSTANT" and (ci + mi + ui) % 2 == 0:
                    Q = dict(P)
                    Q["halo_mult"] = None  # the solver's default halo = max(xmax, ymax)
                    out.append(Q)
                k += 1
    return out


_W = {}


def _sweep_worker(args):
    """one configuration in a worker process (spawned: no forked numba/pyfftw state)"""
    P, dirs = args
    P = dict(P)
    try:
        if "impl" not in _W:
            _W["impl"] = _impl()
        cp, itf, ut, geo = _W["impl"]
        status, recs = sweep_one(cp, itf, geo, P, dirs)
        _quiet_exit()
        return status, recs, P, None
    except Exception as e:
        return "error", [], P, repr(e)


def _quiet_exit():
    """bldfm.fft_manager registers an atexit hook that starts a thread during interpreter shutdown (harmless
    RuntimeError traceback per worker); drop the hook in this harness process"""
    try:
        import atexit

        import bldfm.fft_manager as fm

        m = getattr(fm, "_fft_manager", None)
        if m is not None:
            atexit.unregister(m._cleanup)
    except Exception:
        pass


def sweep_all(space, dirs, impl, workers=12):
    """[(status, recs, P, err)] for every configuration; worker pool for long lists, in-process otherwise"""
    jobs = [(dict(P), dirs) for P in space]
    if len(jobs) > 3 and workers > 1:
        try:
            import multiprocessing as mp
            from concurrent.futures import ProcessPoolExecutor

            os.environ.setdefault("NUMBA_CACHE_DIR", os.path.join(core.VERIF, "build", "numba_cache"))
            os.environ["BLDFM_REPO"] = core.REPO
            with ProcessPoolExecutor(max_workers=min(workers, len(jobs)), mp_context=mp.get_context("spawn")) as ex:
                return list(ex.map(_sweep_worker, jobs))
        except Exception:
            pass
    _W.setdefault("impl", impl)
    return [_sweep_worker(j) for j in jobs]


def oracle(ctx, hints):
    cp, itf, ut, geo = _impl()
    found = {}

    def note(sig, what, rep):
        if sig not in found:
            found[sig] = (what, rep)

    # 1. the decomposition itself, on the real function and through the interface
    pool = [(h["U"], h["wd"]) for h in hints if h and "U" in h and "wd" in h]
    step = 5.0 if ctx.thorough else 15.0
    for U in (0.5, 3.0, 12.25):
        pool += [(U, k * step) for k in range(int(360 / step))]
    for U, wd in pool:
        for sig, what in probe_wind(ut, U, wd):
            note(sig, what, {"probe": "wind", "U": U, "wd": wd})
    for U, wd in [(3.0, 0.0), (3.0, 90.0), (3.0, 180.0), (3.0, 270.0), (7.5, 33.0), (2.0, 211.0)]:
        try:
            for sig, what in probe_interface_wind(cp, itf, ut, U, wd):
                note(sig, what, {"probe": "interface-wind", "U": U, "wd": wd})
        except Exception as e:
            note("raises:" + type(e).__name__, "interface raised %r" % e, {"probe": "interface-wind", "U": U, "wd": wd})
    for h in hints:
        if h and "plumb" in h:
            try:
                bad = plumb_one(cp, itf, ut, h["plumb"])
            except Exception as e:
                bad = ["raised %r" % e]
            if bad:
                note("plumbing:interface-feeds-something-else", "; ".join(bad), {"probe": "plumb", "case": h["plumb"]})

    # 1b. the axis observable: cardinal winds, footprint symmetric about the tower's grid line, centroid on the wind axis
    try:
        api = c08axis.impl()
        ax_cases = [h["axis"] for h in hints if h and "axis" in h] + c08axis.gen(ctx)
        ax_n = 0
        for c in ax_cases:
            try:
                bad, res, g = c08axis.probe(api, c)
                ax_n += 1
            except Exception as e:
                note("axis:raises:" + type(e).__name__, "the axis observable raised %r" % e, {"probe": "axis", "case": c})
                continue
            for sig, what in bad:
                note(sig, what, {"probe": "axis", "case": c})
        ctx.cov["oracle_axis_cases"] = ax_n
    except Exception as e:
        note("axis:raises:" + type(e).__name__, "the axis observable could not run: %r" % e, {"probe": "axis", "case": None})

    # 2. end to end: bearing tower -> footprint centroid
    step = 5 if ctx.thorough else 15
    dirs = [float(d) for d in range(0, 360, step)]
    space = [h["e2e"] for h in hints if h and "e2e" in h][:2] + e2e_space(ctx)
    stats = {"configurations": 0, "skipped_unresolved": 0, "skipped_error": 0, "runs": 0, "worst_err_deg": 0.0, "worst_at": None,
             "worst_by_closure_and_halo": {}, "direction_step_deg": step, "errors": []}
    fails_all = []
    for status, recs, P, err in sweep_all(space, dirs, (cp, itf, ut, geo)):
        stats["configurations"] += 1
        if status == "error":
            stats["skipped_error"] += 1
            stats["errors"].append("%s on %r" % (err, P))
            continue
        if status != "resolved":
            stats["skipped_unresolved"] += 1
            continue
        stats["runs"] += len(recs)
        for wd_, mom in P.pop("_axis", []):
            stats["axis_runs"] = stats.get("axis_runs", 0) + 1
            stats["axis_worst"] = max(stats.get("axis_worst", 0.0), mom)
            if not mom <= c08axis.TOL["double"]:
                xm_, ym_ = [(r[3], r[4]) for r in recs if r[0] == wd_][0]
                note("axis:centroid-off-the-wind-axis", "through run_bldfm_single, wind_dir %g, tower on a grid line: the footprint's first moment across the wind about the tower is %.3g of r*sum|F| (tolerance %g) on %r" % (wd_, mom, c08axis.TOL["double"], P),
                     {"probe": "e2e", "P": dict(P), "wd": wd_, "xmax": xm_, "ymax": ym_})
        w = max(abs(r[2]) for r in recs)
        key = P["closure"] + (":halo-2x" if P.get("halo_mult") else ":default-halo")
        stats["worst_by_closure_and_halo"][key] = max(stats["worst_by_closure_and_halo"].get(key, 0.0), w)
        if w > stats["worst_err_deg"]:
            stats["worst_err_deg"] = w
            stats["worst_at"] = {k: v for k, v in P.items()}
        fails = [(wd, b, xmax, ymax) for wd, b, err_, xmax, ymax, peak in recs if abs(err_) > BEARING_TOL]
        if fails:
            fails_all.append((P, fails))
    if fails_all:
        allf = [(wd, b) for P, fs in fails_all for wd, b, _, _ in fs]
        sig = classify(allf)
        P, fs = fails_all[0]
        # prefer a non-cardinal example: it distinguishes the classes
        fs_sorted = sorted(fs, key=lambda t: (t[0] % 90 == 0, t[0]))
        wd, b, xmax, ymax = fs_sorted[0]
        note(sig, "bearing from the tower to the footprint's centre of mass is %.2f deg for wind_dir %.1f deg (%d of the swept runs differ by more than %g deg) on %r" % (b, wd, len(allf), BEARING_TOL, P),
             {"probe": "e2e", "P": P, "wd": wd, "xmax": xmax, "ymax": ymax})
    if stats["configurations"] and stats["runs"] == 0:
        note("e2e:nothing-resolved", "none of the %d end-to-end configurations produced a resolved finite footprint (%s)" % (stats["configurations"], "; ".join(stats["errors"][:2])),
             {"probe": "e2e", "P": dict(space[0]), "wd": 270.0})
    stats["errors"] = stats["errors"][:5]
    ctx.cov["oracle"] = stats
    return [{"signature": sig, "what": "C08 %s: %s" % (sig, what), "replay": rep} for sig, (what, rep) in found.items()]


def replay(body):
    cp, itf, ut, geo = _impl()
    kind = body["probe"]
    res = []
    if kind == "wind":
        res = probe_wind(ut, body["U"], body["wd"])
    elif kind == "interface-wind":
        res = probe_interface_wind(cp, itf, ut, body["U"], body["wd"])
    elif kind == "plumb":
        res = [("plumbing:interface-feeds-something-else", b) for b in plumb_one(cp, itf, ut, body["case"])]
    elif kind == "axis":
        api = c08axis.impl()
        bad, r, g = c08axis.probe(api, body["case"])
        print("wind_dir %g, %s, padded grid %dx%d, retained %dx%d, growth exponent %.2f: %r" % (body["case"]["wd"], body["case"]["closure"], g["nxe"], g["nye"], g["nlx"], g["nly"], g["growth"], r))
        res = bad
    elif kind == "e2e":
        P = dict(body["P"])
        if "xmax" in body:
            nx, ny, _, _ = GRIDS[P["grid"]]
            P["nx"], P["ny"] = nx, ny
            r = e2e_run(cp, itf, geo, P, body["wd"], body["xmax"], body["ymax"])
        else:
            dom = resolve_domain(cp, itf, geo, P)
            r = e2e_run(cp, itf, geo, P, body["wd"], dom[0], dom[1]) if dom else None
        if r is None:
            print("configuration not resolved / no finite footprint")
            return 0
        print("wind_dir %.2f deg: bearing tower -> footprint centroid %.3f deg (difference %.3f deg, peak distance %.1f m)" % (body["wd"], r["bearing"], r["err"], r["peak"]))
        if abs(r["err"]) > BEARING_TOL:
            res = [(classify([(body["wd"], r["bearing"])]), "bearing differs by %.2f deg" % r["err"])]
        if r.get("axis") is not None:
            print("first moment across the wind about the tower: %.3g of r*sum|F|" % r["axis"])
            if not r["axis"] <= c08axis.TOL["double"]:
                res.append(("axis:centroid-off-the-wind-axis", "first moment across the wind %.3g" % r["axis"]))
    for sig, what in res:
        print("FAILS", sig, what)
    if not res:
        print("holds on this input")
    return 1 if res else 0
