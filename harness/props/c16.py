"""C16 — met time series semantics.  Two ties between bldfm.config_parser.MetConfig and Model/Met.v:
(B) the three methods and the field list are re-translated from the current source on every run
(harness/py2coq_met.py -> Gen/GenMet.v, deep embedding of Model/MetPy.v) and Bridge/MetBridge.v re-proves
gen = model for ALL inputs; (A) exhaustive exact correspondence through parse_config_dict and the step
range the drivers iterate over.  Plus the property's own oracle."""
import itertools
import os
import sys

import clicorr
import core
import py2coq
import py2coq_cli
import py2coq_met

TRUSTED = [
    "Model/Met.v is hand-written; tied to config_parser.MetConfig (B) for all inputs: harness/py2coq_met.py re-translates n_timesteps, get_step, validate "
    "(whole bodies, statement by statement; fail closed on any syntax outside the fragment, any further method/decorator/base class/field default) and the "
    "dataclass field list from the current source, Bridge/MetBridge.v re-proves gen = model (every field pattern, list length, value, step index); "
    "(A) by exhaustive differential execution through parse_config_dict and the drivers over the property's space",
    "Model/MetPy.v: the meaning given to the Python fragment (CPS big-step interpreter; short-circuit and/or yielding an operand, truthiness, dict insertion "
    "order, value semantics for the dicts/sets the code builds - the translator rejects programs in which such a container could be aliased -, set.pop() on "
    "singletons/empty only, IndexError for an index >= len, `self.<field>` reads the constructor argument) and the translator's AST -> embedding mapping",
    "the message expression of `raise ValueError(f\"...\")` is not evaluated by the embedding (only the exception class is compared)",
    "what (B) does not cover and (A) does: _parse_met/parse_config_dict (dict -> MetConfig, the call of validate in BLDFMConfig.__post_init__) and the drivers' step range",
    "yaml/dataclasses machinery of CPython",
    "Model/Cli.v (the command-line driver cli.cmd_run / _save_plots) is hand-written; tied to bldfm/cli.py (B) for all worlds and arguments: harness/py2coq_cli.py "
    "re-translates cmd_run and _save_plots statement by statement (sub-classing C14's driver translator; fail closed on try/except, break/continue, filters, "
    "sorted/set, dicts of results, range(a, b), subtraction, stores of anything but a field of config.parallel, stores inside loops, a run whose result the call "
    "log cannot follow) into GenCli.v and Bridge/CliBridge.v re-proves gen = model on every run; (A) by differential execution of cmd_run on real YAML files "
    "(recorders in place of the single run, plot_footprint_field and Figure.savefig) compared inside Coq with the model run on Model/CliExec.v's world",
    "harness/py2coq_cli.py: the meaning it gives to the fragment - `config = load_config(..)` as a match on w_load (None = it raises and nothing else happens), "
    "`if flag: <logging>; return` as an early outcome, attribute stores into the module bldfm.config as updates of a record of three optional values, the single "
    "run as a function of the settings stored SO FAR, the hidden call log w_calls, f-strings without conversions as string concatenation over w_str, `a, b = d` as "
    "w_unpack2; what it ignores for the value: docstrings, initialize(), get_logger, logging calls with side-effect-free arguments (and loops of nothing else), "
    "matplotlib set-up statements, style keywords of plot_footprint_field / ax.plot / savefig, plt.close",
    "of matplotlib only: savefig saves the figure that plot_footprint_field / ax.plot were handed the axes of (modelled, not verified); cli.main / argparse are "
    "not translated (main is only required to call cmd_run(args) exactly once); (A) repeats every 5th observed invocation through cli.main() with the command line",
]
ASSUMPTIONS = [
    "values of the forcing fields are opaque to MetConfig (it only selects and forwards them); tokens are distinct integers",
    "as in Model/Met.v: a field is absent (None), a list, or a scalar that is neither None nor a list; mol, wind_speed, wind_dir are never None; "
    "the step index is a non-negative int (Python's negative indexing is outside the model, whose index is a nat)",
    "command-line driver (Model/Cli.v): args.dry_run / args.plot are booleans (argparse store_true); load_config either returns a configuration or raises; "
    "run_bldfm_single returns (a failing single run is outside the model; the translator rejects code that would swallow one); the single run may depend on the "
    "three runtime settings only through their values at the time of the call; C16_cli_plot_names_*: the rendered timestamps contain no underscore "
    "(the separator collision without that hypothesis is recorded as an Example, as is the shared file name of two towers with the same name)",
]
BRIDGE_LEMMAS = ["bridge_fields", "bridge_n_timesteps", "bridge_get_step", "bridge_validate",
                 "bridge_validate_outcomes", "bridge_get_step_index_error", "bridge_n_timesteps_value"]
THEOREMS = ["C16_steps", "C16_get_step", "C16_reject", "C16_accept", "C16_series_total"]
THEOREMS_CLI = ["C16_cli_runs", "C16_cli_results", "C16_cli_calls_traced", "C16_cli_dry_run", "C16_cli_settings", "C16_cli_plots",
                "C16_cli_plot_names_injective", "C16_cli_plot_names_nodup", "C16_cli_multitower", "C16_cli_run_is_met_step", "C16_cli_runs_have_steps"]


def _impl():
    sys.path.insert(0, core.SRC)
    import importlib

    import bldfm.config_parser as cp

    importlib.reload(cp)
    return cp


def space(ctx):
    lens = [1, 2, 3] if not ctx.thorough else [0, 1, 2, 3, 4]
    def opts(base, optional):
        o = [("S", None)] + [("L", n) for n in lens]
        if optional:
            o = [("N", None)] + o
        return o
    ts_opts = [None] + ([1, 2, 3, 4] if not ctx.thorough else [0, 1, 2, 3, 4, 5])
    for u, mo, ws, wd in itertools.product(opts(100, True), opts(200, False), opts(300, False), opts(400, False)):
        for ts in ts_opts:
            for z0 in (None, 77):
                yield (u, mo, ws, wd, ts, z0)
    # forcing states that are revisited (entries recur inside the lists): step i must still carry ITS label
    for n in (3, 4):
        for pat in (("R", "R", "R", "R"), ("S", "S", "S", "R"), ("R", "S", "R", "S"), ("N", "R", "S", "R")):
            for ts in (None, n):
                for z0 in ((None, 77) if pat[0] != "N" else (77,)):
                    yield tuple((k, n if k == "R" else None) for k in pat) + (ts, z0)


def mk(base, spec):
    kind, n = spec
    if kind == "N":
        return None
    if kind == "S":
        return base
    if kind == "R":   # list whose entries recur (a forcing state that is revisited): values base+1, base+2, base+1, ...
        return [base + 1 + (i % 2) for i in range(n)]
    return [base + 1 + i for i in range(n)]


def build_case(c):
    u, mo, ws, wd, ts, z0 = c
    met = {"mol": mk(200, mo), "wind_speed": mk(300, ws), "wind_dir": mk(400, wd)}
    if u[0] != "N":
        met["ustar"] = mk(100, u)
    if z0 is not None:
        met["z0"] = z0
    if ts is not None:
        met["timestamps"] = [900 + i for i in range(ts)]
    return met


def enc_step(d):
    def o(x):
        return -1 if x is None else x
    return [o(d.get("ustar")), d["mol"], d["wind_speed"], d["wind_dir"], o(d.get("z0")), d["timestamp"]]


def run_impl(cp, met, through_drivers=False):
    raw = {
        "domain": {"nx": 4, "ny": 4, "xmax": 10.0, "ymax": 10.0, "nz": 2},
        "towers": [{"name": "A", "lat": 0.0, "lon": 0.0, "z_m": 2.0}],
        "met": met,
    }
    try:
        cfg = cp.parse_config_dict(raw)
    except ValueError:
        return None
    except Exception as e:  # anything else is not a rejection the property allows
        return [[-998]]
    n = cfg.met.n_timesteps
    out = []
    for i in range(n):
        try:
            out.append(enc_step(cfg.met.get_step(i)))
        except IndexError:
            out.append([-999])
        except Exception:
            out.append([-997])
    # a forcing derived from an EARLIER configuration object with dataclasses.replace (the package's own sweep idiom)
    # or by assigning the fields in place is the same forcing: same step count, same steps
    out += derived_disagreements(cfg, out)
    if through_drivers:
        import bldfm.interface as itf

        orig = itf.run_bldfm_single
        seen = []

        def stub(config, tower, met_index=0, **kw):
            seen.append(met_index)
            st = config.met.get_step(met_index)
            return {"i": met_index, "timestamp": st["timestamp"], "params": st, "tower_name": tower.name}

        itf.run_bldfm_single = stub
        returned = None
        try:
            r1 = itf.run_bldfm_timeseries(cfg, cfg.towers[0])
            r2 = itf.run_bldfm_multitower(cfg)
            # what the drivers hand back: one result per step, in time order, each carrying ITS step's label and values
            returned = [enc_step(r["params"])[:5] + [r["timestamp"]] for r in r1] + [enc_step(r["params"])[:5] + [r["timestamp"]] for r in r2[cfg.towers[0].name]]
        except Exception:
            seen = None
        finally:
            itf.run_bldfm_single = orig
        if seen is None:
            out.append([-996])
        elif _nan_key(returned) != _nan_key(out[:n] * 2):
            out.append([-995])
        # the command-line driver (cli.cmd_run): one single run per tower and per step, in time order
        if cli_steps(raw, cfg) != [(cfg.towers[0].name, i) for i in range(n)]:
            out.append([-994])
    return out


_PREV = []
MET_FIELDS = ["ustar", "mol", "wind_speed", "wind_dir", "z0", "timestamps"]


def _steps_of(met):
    n = met.n_timesteps
    res = []
    for i in range(n):
        try:
            res.append(enc_step(met.get_step(i)))
        except IndexError:
            res.append([-999])
        except Exception:
            res.append([-997])
    return res


def derived_disagreements(cfg, out):
    import copy
    import dataclasses

    extra = []
    vals = {k: copy.deepcopy(getattr(cfg.met, k)) for k in MET_FIELDS if hasattr(cfg.met, k)}
    if _PREV:
        prev = _PREV[0]
        _ = prev.met.n_timesteps  # any run or log line reads it
        try:
            met2 = dataclasses.replace(prev.met, **vals)
            cfg2 = dataclasses.replace(prev, met=met2)
            if _nan_key(_steps_of(cfg2.met)) != _nan_key(out):
                extra.append([-993])
        except Exception:
            extra.append([-992])
        try:
            met3 = copy.deepcopy(prev.met)
            _ = met3.n_timesteps
            for k, v in vals.items():
                setattr(met3, k, copy.deepcopy(v))
            if _nan_key(_steps_of(met3)) != _nan_key(out):
                extra.append([-991])
        except Exception:
            extra.append([-990])
    _PREV[:] = [cfg]
    return extra


def cli_steps(raw, cfg):
    """(tower, met_index) pairs that `bldfm run config.yaml` asks run_bldfm_single for (None if it raises)"""
    import argparse
    import tempfile

    import yaml

    import bldfm.cli as cli
    import bldfm.config as rc

    d = tempfile.mkdtemp(prefix="c16cli_", dir=os.getcwd())
    path = os.path.join(d, "config.yaml")
    with open(path, "w") as f:
        yaml.safe_dump(raw, f)
    saved = (cli.run_bldfm_single, cli.initialize, rc.NUM_THREADS, rc.MAX_WORKERS, rc.USE_CACHE)
    calls = []
    cli.run_bldfm_single = lambda config, tower, met_index=0, **kw: calls.append((tower.name, met_index)) or {
        "timestamp": config.met.get_step(met_index)["timestamp"], "tower_name": tower.name}
    cli.initialize = lambda *a, **k: None
    try:
        cli.cmd_run(argparse.Namespace(config=path, dry_run=False, plot=False))
    except Exception:
        calls = None
    finally:
        cli.run_bldfm_single, cli.initialize, rc.NUM_THREADS, rc.MAX_WORKERS, rc.USE_CACHE = saved
    return calls


def coq_fld(base, spec, optional=False):
    kind, n = spec
    if kind == "N":
        return "None"
    if kind == "S":
        t = "(Scalar %d)" % base
    elif kind == "R":
        t = "(Lst [%s])" % "; ".join(str(base + 1 + (i % 2)) for i in range(n))
    else:
        t = "(Lst [%s])" % "; ".join(str(base + 1 + i) for i in range(n))
    return "(Some %s)" % t if optional else t


def coq_case(c):
    u, mo, ws, wd, ts, z0 = c
    return "(@mkMet Z Z %s %s %s %s %s %s)" % (
        coq_fld(100, u, True), coq_fld(200, mo), coq_fld(300, ws), coq_fld(400, wd),
        "None" if z0 is None else "(Some %d)" % z0,
        "None" if ts is None else "(Some [%s])" % "; ".join(str(900 + i) for i in range(ts)),
    )


def coq_expected(e):
    if e is None:
        return "None"
    return "(Some [%s])" % "; ".join("[%s]" % "; ".join("(%d)" % v for v in s) for s in e)


def nontrivial(c, e):
    """non-trivial: at least one list-valued field and (accepted with >= 2 steps, or rejected)"""
    has_list = any(x[0] in ("L", "R") for x in c[:4])
    return has_list and (e is None or len(e) >= 2)


def run_bridge(ctx):
    """tie (B): MetConfig's methods from the current source -> GenMet.v -> Bridge/MetBridge.v (gen = model, all inputs)"""
    path = os.path.join(core.SRC, "bldfm", "config_parser.py")
    try:
        text = py2coq_met.translate(path)
    except py2coq.TranslateError as e:
        ctx.obligation("gen:GenMet.v", False, "MetConfig translator failed closed: %s" % e)
        return False
    except Exception as e:  # a crash of the translator is a failure to translate, never a pass
        ctx.obligation("gen:GenMet.v", False, "MetConfig translator crashed (treated as failed closed): %r" % e)
        return False
    ctx.cov["methods_translated"] = ["MetConfig.n_timesteps", "MetConfig.get_step", "MetConfig.validate", "MetConfig field list"]
    ok = core.run_bridge(ctx, {"GenMet.v": text}, ["MetBridge.v"])
    if ok:
        # the bridge lemmas just compiled depend on no axiom at all
        lines = ["From Gen Require Import MetBridge."]
        for n in BRIDGE_LEMMAS:
            lines.append('Goal True. idtac "THEOREM %s". Abort. Print Assumptions %s.' % (n, n))
        rc, out, err, _ = ctx.coqc(ctx.write("MetBridgeAx.v", "\n".join(lines) + "\n"), timeout=120)
        got = core.parse_assumptions(out) if rc == 0 else {}
        open_ = [n for n in BRIDGE_LEMMAS if got.get(n) != set()]
        ctx.obligation("bridge:MetBridge:closed-under-global-context", rc == 0 and not open_,
                       "" if rc == 0 and not open_ else "not closed / not found: %s %s" % (open_, (out + err)[-600:]))
        ok = ok and rc == 0 and not open_
    return ok


def check(ctx):
    core.check_properties_file(ctx, "Properties/C16.v", THEOREMS, core.AX_NONE)
    core.check_properties_file(ctx, "Properties/C16Cli.v", THEOREMS_CLI, core.AX_NONE)
    run_bridge(ctx)
    # _parse_met / parse_config_dict / BLDFMConfig.__post_init__ (validate is called there) are on this property's path:
    # the configuration-parser translator and its bridge lemmas (built for C13) are obligations here too
    import py2coq_interface
    py2coq_interface.bridge(ctx, only=("GenConfigParser.v",))
    # the command-line driver: (B) cmd_run / _save_plots from the current source -> GenCli.v -> Bridge/CliBridge.v, (A) observed invocations vs Model/Cli.v
    py2coq_cli.run(ctx)
    try:
        clicorr.check_cli(ctx)
    except Exception:
        import traceback

        ctx.fail("correspondence", "C16:cli-observation-crashed", traceback.format_exc())
    cp = _impl()
    cases = list(space(ctx))
    exp = []
    for k, c in enumerate(cases):
        exp.append(run_impl(cp, build_case(c), through_drivers=(k % 7 == 0 or any(x[0] == "R" for x in c[:4]))))
    # evaluate the model in Coq, batch-wise: each batch returns the list of disagreeing indices
    header = "From Coq Require Import List ZArith Bool.\nFrom BL Require Import Model.Met Model.MetExec.\nImport ListNotations.\nOpen Scope Z_scope.\n"
    B = 50
    terms = []
    for b in range(0, len(cases), B):
        items = "; ".join("(%d, agree %s %s)" % (b + j, coq_case(c), coq_expected(e))
                          for j, (c, e) in enumerate(zip(cases[b:b + B], exp[b:b + B])))
        terms.append(("b%d" % b, "map fst (filter (fun p => negb (snd p)) [%s])" % items))
    res = core.coq_eval_sharded(ctx, "c16cases", header, terms, shard=8, timeout=600)
    bad = []
    if "__error__" in res:
        ctx.fail("correspondence", "C16:coq-eval", res["__error__"])
    for b in range(0, len(cases), B):
        r = res.get("b%d" % b)
        if r is None:
            ctx.fail("correspondence", "C16:missing-batch-%d" % b, "no output")
            continue
        idx = [int(x) for x in r.replace("%Z", "").strip("[]() ").split(";") if x.strip()] if r.strip("[] ") else []
        bad += idx
    hist = {"rejected": sum(1 for e in exp if e is None),
            "accepted": sum(1 for e in exp if e is not None),
            "all_scalar": sum(1 for c in cases if not any(x[0] == "L" for x in c[:4])),
            "with_timestamps": sum(1 for c in cases if c[4] is not None),
            "steps_hist": {}}
    for e in exp:
        if e is not None:
            hist["steps_hist"][str(len(e))] = hist["steps_hist"].get(str(len(e)), 0) + 1
    ctx.cov.update({
        "evaluations": len(cases),
        "distinct_nontrivial": sum(1 for c, e in zip(cases, exp) if nontrivial(c, e)),
        "rule": "exhaustive product of {absent(ustar only), scalar, list of length L} for the four fields x timestamps {absent, lengths} x z0 {absent, present}; L in %s; non-trivial = has a list-valued field and is rejected or has >= 2 steps; plus series whose entries recur (a revisited forcing state); every 7th case and every recurring series is additionally pushed through run_bldfm_timeseries/multitower with a stubbed single run: the indices the drivers ask for are range(n_timesteps) and the i-th returned result carries the i-th step's values and label" % ("0..4" if ctx.thorough else "1..3"),
        "samples": [{"met": build_case(c), "impl": e} for c, e in list(zip(cases, exp))[5::max(1, len(cases) // 5)]][:6],
        "exhaustive": True,
        "histogram": hist,
        "correspondence_mismatches": len(bad),
    })
    for i in bad[:20]:
        ctx.fail("correspondence", "C16:case-%d" % i, "model and MetConfig disagree on %r: impl=%r" % (build_case(cases[i]), exp[i]),
                 hint={"met": build_case(cases[i])})


def spec_outcome(met):
    """The property, computed independently of both model and code."""
    fields = [met.get("ustar"), met["mol"], met["wind_speed"], met["wind_dir"]]
    lens = {len(f) for f in fields if isinstance(f, list)}
    if met.get("ustar") is None and met.get("z0") is None:
        return None
    if len(lens) > 1:
        return None
    n = lens.pop() if lens else 1
    ts = met.get("timestamps")
    if ts is not None and len(ts) != n:
        return None
    out = []
    for i in range(n):
        g = lambda f: f[i] if isinstance(f, list) else f
        out.append([-1 if fields[0] is None else g(fields[0]), g(fields[1]), g(fields[2]), g(fields[3]),
                    -1 if met.get("z0") is None else met["z0"], ts[i] if ts is not None else i])
    return out


def classify(met, got, want):
    fields = [met.get("ustar"), met["mol"], met["wind_speed"], met["wind_dir"]]
    lists = [isinstance(f, list) for f in fields]
    if got is not None:
        for code, name in ((-993, "derived:dataclasses.replace-of-an-earlier-config-differs-from-a-fresh-one"), (-992, "derived:dataclasses.replace-raises"),
                           (-991, "derived:fields-assigned-in-place-differ-from-a-fresh-config"), (-990, "derived:assignment-raises"),
                           (-995, "drivers:i-th-result-is-not-the-i-th-step"), (-996, "drivers:raise"), (-994, "cli:step-order")):
            if [code] in got:
                return name
    if want is not None and got is not None and len(got) != len(want):
        if not lists[0] and not lists[2] and any(lists):
            return "n_timesteps:list-only-in-mol-or-wind_dir"
        return "n_timesteps:other"
    if want is None and got is not None:
        if not any(lists) and met.get("timestamps") is not None:
            return "validate:all-scalar-wrong-timestamps-accepted"
        return "validate:accepts-invalid"
    if want is not None and got is None:
        return "validate:rejects-valid"
    return "get_step:wrong-selection"


def _nan_key(x):
    """structural copy in which NaN compares equal to NaN"""
    if isinstance(x, float) and x != x:
        return "nan"
    if isinstance(x, (list, tuple)):
        return [_nan_key(v) for v in x]
    return x


def nan_forcings():
    """entries are opaque to the met series logic: a NaN (a gap marker of flux-tower exports) is an entry like any other -
    one step per list entry, entry i in step i"""
    nan = float("nan")
    return [
        {"ustar": [101, nan, 103, 104], "mol": 200, "wind_speed": 300, "wind_dir": [401, 402, 403, 404], "timestamps": [900, 901, 902, 903]},
        {"ustar": 100, "mol": [201, 202, nan], "wind_speed": [301, nan, 303], "wind_dir": 400},
        {"mol": 200, "wind_speed": [nan, nan], "wind_dir": [nan, nan], "z0": 77, "timestamps": [900, 901]},
        {"ustar": [nan], "mol": 200, "wind_speed": [301, 302], "wind_dir": 400},
    ]


def oracle(ctx, hints):
    cp = _impl()
    found = {}
    pool = [h["met"] for h in hints if h and "met" in h] + nan_forcings() + [build_case(c) for c in space(ctx)]
    last = None
    for met in pool:
        got = run_impl(cp, met, through_drivers=True)
        want = spec_outcome(met)
        if _nan_key(got) != _nan_key(want):
            sig = classify(met, got, want)
            size = sum(len(v) if isinstance(v, list) else 1 for v in met.values())
            if sig not in found or size < found[sig][0]:
                found[sig] = (size, met, got, want, last if sig.startswith("derived:") else None)
        if got is not None:
            last = met
    return [{"signature": sig, "what": "MetConfig %s: met=%r%s gives %r, the property demands %r" % (sig, met, (" (derived from a configuration object built for met=%r whose n_timesteps had been read)" % prev) if prev else "", got, want),
             "replay": {"met": met, "previous_met": prev, "impl": got, "spec": want, "how": "bldfm.config_parser.parse_config_dict({'domain':..,'towers':..,'met': met}) then n_timesteps/get_step; codes -993/-991: the same forcing obtained from the previous configuration object by dataclasses.replace / by assigning the fields differs"}}
            for sig, (size, met, got, want, prev) in found.items()] + clicorr.oracle_cli(ctx, hints)


def replay(body):
    if "cli" in body:
        return clicorr.replay_cli(body)
    cp = _impl()
    met = body["met"]
    _PREV[:] = []
    if body.get("previous_met"):
        run_impl(cp, body["previous_met"])
    got = run_impl(cp, met, through_drivers=True)
    want = spec_outcome(met)
    print("met      =", met)
    print("impl     =", got)
    print("property =", want)
    print("FAILS" if got != want else "holds")
    return 1 if got != want else 0
