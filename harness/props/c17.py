"""C17 — tower geolocation: latlon_to_xy / xy_to_latlon are mutual inverses, well oriented, and agree with
great-circle distance / initial bearing for offsets of a few km.

check  = Properties/C17.v (theorems over R) + slice translator/bridge (both transforms, all four components,
         module constant _EARTH_RADIUS) + interval-certified correspondence (every float input as its exact
         rational, `interval` proves |model - python| <= tol, Qed) for scalars and numpy arrays + exact
         (bit-pattern) check of the configuration step.
oracle = the property's own statement on the real code (round trips, origin, orientation, haversine)."""
import math
import os
import struct
import sys

import numpy as np

import core
import py2coq
import rcorr

THEOREMS = ["C17_inverse_lr", "C17_inverse_rl", "C17_inverse_nonpolar", "C17_origin", "C17_orientation",
            "C17_config_fills", "C17_config_default_origin",
            "C17_accuracy_distance", "C17_accuracy_bearing", "C17_gc_distance_is_haversine", "C17_bearing_separation"]
TRUSTED = [
    "Model/Geo.v is hand-written over Coq's R; tied to config_parser.latlon_to_xy and plotting._geo.xy_to_latlon by (B) four bridge lemmas against formulas re-extracted from the current source and (A) interval-certified evaluation of the real model at the exact rational value of every float input",
    "math.radians/np.radians = x*pi/180, np.degrees = x*180/pi, math.cos/np.cos = cos (libm/numpy are not modelled; their rounding is inside the correspondence tolerance)",
    "the `interval` tactic's reification and floating-point kernels are used ONLY by the per-case correspondence goals (each closed by Qed); no property theorem uses a numerical tactic: the accuracy theorems are analytic (stdlib Taylor bounds of sin, Lipschitz bound of cos, PI > 3)",
    "great-circle yardstick of the accuracy theorems: haversine formula in atan2 form and the standard initial-bearing vector, Earth radius = the code's 6371000 m",
]
ASSUMPTIONS = [
    "theorems are in exact real arithmetic; IEEE rounding of the implementation is bounded per evaluated case only (1e-6 m / 1e-11 deg)",
    "tolerances of the correspondence: forward 1e-6 m (rounding of lon_r - ref_lon_r at |lon| <= 360 deg is <= 2 ulp(2 pi) = 1.8e-15 rad = 1.1e-8 m, x100 margin); inverse 1e-11 deg (ulp(180 deg) = 2.8e-14 deg, cos(ref_lat) relative error <= 1.2e-14 for |ref_lat| <= 89 deg times offsets <= 60 deg)",
    "latlon_to_xy is scalar-only (math.radians); xy_to_latlon is vectorised (numpy broadcasting), arrays are certified element by element",
    "bearing agreement is stated as |cross| <= tan(0.1 deg) * dot of the two (east, north) direction vectors, dot > 0, which for vectors r(sin b, cos b) is |b - c| <= 0.1 deg (C17_bearing_separation)",
]

CONFIG = lambda: os.path.join(core.SRC, "bldfm", "config_parser.py")
GEO = lambda: os.path.join(core.SRC, "bldfm", "plotting", "_geo.py")
L2X_INL = ["x", "y", "lat_r", "lon_r", "ref_lat_r", "ref_lon_r"]
SLICES_FWD = [
    dict(name="l2x_x", func="latlon_to_xy", target="return", elt=0, arity=2, inline=L2X_INL,
         module_consts=["_EARTH_RADIUS"], params=["lon", "ref_lon", "ref_lat"]),
    dict(name="l2x_y", func="latlon_to_xy", target="return", elt=1, arity=2, inline=L2X_INL,
         module_consts=["_EARTH_RADIUS"], params=["lat", "ref_lat"]),
]
SLICES_INV = [
    dict(name="x2l_lats", func="xy_to_latlon", target="return", elt=0, arity=2, inline=["lats", "lons", "R"],
         params=["ref_lat", "y"]),
    dict(name="x2l_lons", func="xy_to_latlon", target="return", elt=1, arity=2, inline=["lats", "lons", "R"],
         params=["ref_lon", "x", "ref_lat"]),
]
TOL_M = "1 / 1000000"          # 1e-6 m
TOL_DEG = "1 / 100000000000"   # 1e-11 deg
UNFOLD = "unfold latlon_to_xy, xy_to_latlon, radians, degrees, earth_radius; cbn [fst snd];"
HEADER = rcorr.HEADER + "From BL Require Import Model.Geo.\n"
R_EARTH = 6371000.0


def _impl():
    if core.SRC not in sys.path:
        sys.path.insert(0, core.SRC)
    import importlib

    import bldfm.config_parser as cp

    importlib.reload(cp)
    import bldfm.plotting._geo as geo

    importlib.reload(geo)
    return cp, geo


def bits(x):
    return struct.pack("<d", float(x)).hex()


def run_slices(ctx):
    import skeleton
    skeleton.check_names(ctx, "geo_forward", CONFIG(), ["latlon_to_xy"], skeleton.slice_names(SLICES_FWD))
    skeleton.check_names(ctx, "geo_inverse", GEO(), ["xy_to_latlon"], skeleton.slice_names(SLICES_INV))
    try:
        text = py2coq.translate(CONFIG(), SLICES_FWD, "R") + py2coq.translate(GEO(), SLICES_INV, "R")
    except py2coq.TranslateError as e:
        ctx.obligation("gen:GenGeo.v", False, "slice translator failed closed: %s" % e)
        return False
    ctx.cov["slices_translated"] = ctx.cov.get("slices_translated", 0) + 4
    return core.run_bridge(ctx, {"GenGeo.v": text}, ["GeoBridge.v"])


# ---------------------------------------------------------------------------------------------
# generators


def _offset_point(rng, rlat, rlon, rmax):
    """a point within rmax metres of the reference (plain small-angle construction; only a generator)"""
    r = rmax * rng.random() ** 0.5
    th = rng.uniform(0, 2 * math.pi)
    lat = rlat + math.degrees(r * math.cos(th) / R_EARTH)
    lon = rlon + math.degrees(r * math.sin(th) / (R_EARTH * max(math.cos(math.radians(rlat)), 0.01)))
    return lat, lon


def gen_forward(ctx):
    rng = ctx.rng
    n = 400 if ctx.thorough else 60
    cases = []
    for k in range(n):
        kind = ("near", "near", "far", "polarish")[k % 4]
        if kind == "near":
            rlat, rlon = rng.uniform(-60, 60), rng.uniform(-180, 180)
            lat, lon = _offset_point(rng, rlat, rlon, 5000.0)
        elif kind == "far":
            rlat, rlon = rng.uniform(-75, 75), rng.uniform(-180, 180)
            lat, lon = rng.uniform(-90, 90), rng.uniform(-180, 180)
        else:
            rlat, rlon = rng.choice([-1, 1]) * rng.uniform(75, 89), rng.uniform(-180, 180)
            lat, lon = _offset_point(rng, rlat, rlon, 50000.0)
        cases.append((kind, lat, lon, rlat, rlon))
    special = [
        ("origin", 50.95, 11.586, 50.95, 11.586),
        ("int-inputs", 51, 12, 50, 11),
        ("equator", 0.01, -0.02, 0.0, 0.0),
        ("neg-zero", -0.0, 0.0, 0.0, -0.0),
        ("dateline", 10.0, 179.95, 10.02, -179.95),
        ("lat60", 60.02, 25.03, 60.0, 25.0),
        ("lat-60", -60.02, -70.03, -60.0, -70.0),
        ("pure-east", 45.0, 7.05, 45.0, 7.0),
        ("pure-north", 45.04, 7.0, 45.0, 7.0),
        ("south-west", -33.93, 18.40, -33.9, 18.45),
    ]
    # station tables read from a float32 NetCDF: tower coordinates as np.float32 scalars, the origin a Python float that
    # is not a float32 number - the result must be the transform of the EXACT values (numpy >= 2 would round the Python
    # float to float32 in a mixed subtraction)
    import numpy as np
    for j, (la, lo, rla, rlo) in enumerate([(50.9512, 11.5873, 50.95, 11.586), (-35.3021, 149.1013, -35.3, 149.1), (64.8003, -147.7011, 64.8, -147.7)]):
        special.append(("f32-%d" % j, np.float32(la), np.float32(lo), rla, rlo))
        special.append(("f32ref-%d" % j, la, lo, np.float32(rla), np.float32(rlo)))
    return special + cases


def gen_inverse(ctx):
    rng = ctx.rng
    n = 400 if ctx.thorough else 60
    cases = []
    for k in range(n):
        kind = ("near", "near", "far", "polarish")[k % 4]
        if kind == "near":
            rlat, rlon = rng.uniform(-60, 60), rng.uniform(-180, 180)
            x, y = rng.uniform(-5000, 5000), rng.uniform(-5000, 5000)
        elif kind == "far":
            rlat, rlon = rng.uniform(-75, 75), rng.uniform(-180, 180)
            x, y = rng.uniform(-1e5, 1e5), rng.uniform(-1e5, 1e5)
        else:
            rlat, rlon = rng.choice([-1, 1]) * rng.uniform(75, 89), rng.uniform(-180, 180)
            x, y = rng.uniform(-5e4, 5e4), rng.uniform(-5e4, 5e4)
        cases.append((kind, x, y, rlat, rlon))
    special = [
        ("origin", 0.0, 0.0, 50.95, 11.586),
        ("int-inputs", 100, -200, 50, 11),
        ("equator", 1234.5, -987.25, 0.0, 0.0),
        ("pure-east", 2500.0, 0.0, 45.0, 7.0),
        ("pure-north", 0.0, 2500.0, 45.0, 7.0),
        ("lat60", -4000.0, 3000.0, 60.0, 25.0),
        ("lat-60", 4000.0, -3000.0, -60.0, -70.0),
    ]
    return special + cases


def gen_arrays(ctx):
    """vectorised calls of xy_to_latlon: (kind, x, y, ref_lat, ref_lon) with numpy arrays"""
    rng = ctx.rng
    n = 40 if ctx.thorough else 8
    out = []
    for k in range(n):
        rlat, rlon = rng.uniform(-60, 60), rng.uniform(-180, 180)
        m = rng.randint(2, 5)
        shape = k % 4
        if shape == 0:      # 1-D x and y
            x = np.array([rng.uniform(-5000, 5000) for _ in range(m)])
            y = np.array([rng.uniform(-5000, 5000) for _ in range(m)])
            kind = "1d"
        elif shape == 1:    # 2-D meshgrid (how plotting uses it)
            xs = np.linspace(rng.uniform(-3000, 0), rng.uniform(1, 3000), 3)
            ys = np.linspace(rng.uniform(-3000, 0), rng.uniform(1, 3000), 2)
            x, y = np.meshgrid(xs, ys)
            kind = "2d-meshgrid"
        elif shape == 2:    # broadcasting: x array, y scalar
            x = np.array([rng.uniform(-5000, 5000) for _ in range(m)])
            y = rng.uniform(-5000, 5000)
            kind = "x-array-y-scalar"
        else:               # broadcasting: column against row
            x = np.array([rng.uniform(-5000, 5000) for _ in range(3)])[None, :]
            y = np.array([rng.uniform(-5000, 5000) for _ in range(2)])[:, None]
            kind = "row-x-column-y"
        out.append((kind, x, y, rlat, rlon))
    return out


# ---------------------------------------------------------------------------------------------
# the check


def check(ctx):
    core.check_properties_file(ctx, "Properties/C17.v", THEOREMS, core.AX_REALS)
    run_slices(ctx)
    # the configuration step (TowerConfig.compute_local_xy, BLDFMConfig.__post_init__, the parser tables) is anchored in
    # config_parser.py: its translator and bridge lemmas (built for C13) are obligations of this property too
    import py2coq_interface
    py2coq_interface.bridge(ctx, only=("GenConfigParser.v",))
    cp, geo = _impl()
    goals = []
    info = {}
    hist = {}

    def add(cid, prop, kind, hint):
        goals.append((cid, prop))
        info[cid] = hint
        hist[kind] = hist.get(kind, 0) + 1

    fwd = gen_forward(ctx)
    for i, (kind, lat, lon, rlat, rlon) in enumerate(fwd):
        try:
            x, y = cp.latlon_to_xy(lat, lon, rlat, rlon)
        except Exception as e:
            ctx.fail("correspondence", "C17:fwd-%d" % i, "latlon_to_xy raised %r" % e, hint={"kind": "fwd", "args": [lat, lon, rlat, rlon]})
            continue
        a = " ".join(rcorr.rlit(float(v)) for v in (lat, lon, rlat, rlon))
        h = {"kind": "fwd", "args": [lat, lon, rlat, rlon], "impl": [float(x), float(y)]}
        add("fx%d" % i, "Rabs (fst (latlon_to_xy %s) - %s) <= %s" % (a, rcorr.rlit(float(x)), TOL_M), "fwd:" + kind.split("-")[0], h)
        add("fy%d" % i, "Rabs (snd (latlon_to_xy %s) - %s) <= %s" % (a, rcorr.rlit(float(y)), TOL_M), "fwd:" + kind.split("-")[0], h)
    inv = gen_inverse(ctx)
    for i, (kind, x, y, rlat, rlon) in enumerate(inv):
        try:
            lats, lons = geo.xy_to_latlon(x, y, rlat, rlon)
        except Exception as e:
            ctx.fail("correspondence", "C17:inv-%d" % i, "xy_to_latlon raised %r" % e, hint={"kind": "inv", "args": [x, y, rlat, rlon]})
            continue
        a = " ".join(rcorr.rlit(v) for v in (x, y, rlat, rlon))
        h = {"kind": "inv", "args": [x, y, rlat, rlon], "impl": [float(lats), float(lons)]}
        add("ia%d" % i, "Rabs (fst (xy_to_latlon %s) - %s) <= %s" % (a, rcorr.rlit(float(lats)), TOL_DEG), "inv:" + kind.split("-")[0], h)
        add("io%d" % i, "Rabs (snd (xy_to_latlon %s) - %s) <= %s" % (a, rcorr.rlit(float(lons)), TOL_DEG), "inv:" + kind.split("-")[0], h)
    arrs = gen_arrays(ctx)
    n_arr_elems = 0
    for i, (kind, x, y, rlat, rlon) in enumerate(arrs):
        lats, lons = geo.xy_to_latlon(x, y, rlat, rlon)
        bx, by = np.broadcast_arrays(np.asarray(x, float), np.asarray(y, float))
        lats, lons = np.asarray(lats), np.asarray(lons)
        # lats depends on y only, lons on x only: numpy returns them with the shape of y resp. x
        ok_shape = (lats.shape == np.shape(y)) and (lons.shape == np.shape(x))
        if not ok_shape:
            ctx.fail("correspondence", "C17:array-shape-%d" % i, "shapes %r %r for inputs %r %r" % (lats.shape, lons.shape, np.shape(x), np.shape(y)),
                     hint={"kind": "inv", "args": [np.asarray(x).ravel()[0].item(), np.asarray(y).ravel()[0].item(), rlat, rlon]})
            continue
        la_b, lo_b = np.broadcast_arrays(lats, lons)
        bx, by = np.broadcast_arrays(bx, by)
        la_b, lo_b = np.broadcast_to(la_b, bx.shape), np.broadcast_to(lo_b, bx.shape)
        for j, (xe, ye, lae, loe) in enumerate(zip(bx.ravel(), by.ravel(), la_b.ravel(), lo_b.ravel())):
            a = " ".join(rcorr.rlit(float(v)) for v in (xe, ye, rlat, rlon))
            h = {"kind": "inv", "args": [float(xe), float(ye), rlat, rlon], "impl": [float(lae), float(loe)], "array": kind}
            add("aa%d_%d" % (i, j), "Rabs (fst (xy_to_latlon %s) - %s) <= %s" % (a, rcorr.rlit(float(lae)), TOL_DEG), "array:" + kind, h)
            add("ao%d_%d" % (i, j), "Rabs (snd (xy_to_latlon %s) - %s) <= %s" % (a, rcorr.rlit(float(loe)), TOL_DEG), "array:" + kind, h)
            n_arr_elems += 1
    failing, err = rcorr.certify(ctx, "c17iv", HEADER, UNFOLD, goals, shard=50, jobs=14)
    if err:
        ctx.fail("correspondence", "C17:coq-interval", err)
    for cid in sorted(failing)[:20]:
        ctx.fail("correspondence", "C17:case-%s" % cid, "interval could not certify |model - implementation| <= tol for %r" % (info[cid],), hint=info[cid])

    n_cfg, cfg_bad = config_fill_check(ctx, cp)
    for name, detail, hint in cfg_bad[:10]:
        ctx.fail("correspondence", name, detail, hint=hint)

    nontriv = sum(1 for cid, _ in goals if _nontrivial(info[cid]))
    ctx.cov.update({
        "evaluations": len(goals) + n_cfg,
        "distinct_nontrivial": nontriv,
        "rule": "interval-certified goals (one per output component): %d forward points, %d inverse points, %d array calls (%d elements; 1-D, 2-D meshgrid, scalar/array and row/column broadcasting); near = |ref_lat| <= 60 with offsets <= 5 km, far = anywhere on the globe / offsets <= 100 km, polarish = 75..89 deg; plus %d exact bit-pattern checks of the configuration step; non-trivial = offset from the reference is non-zero in the component's driving coordinate" % (len(fwd), len(inv), len(arrs), n_arr_elems, n_cfg),
        "samples": [info[cid] for cid, _ in goals[:: max(1, len(goals) // 6)]][:6],
        "histogram": hist,
        "correspondence_mismatches": len(failing) + len(cfg_bad),
        "tolerances": {"metres": 1e-6, "degrees": 1e-11},
        "interval_goals": len(goals),
    })


def _nontrivial(h):
    a = h["args"]
    if h["kind"] == "fwd":
        return a[0] != a[2] or a[1] != a[3]
    return a[0] != 0 or a[1] != 0


def config_fill_check(ctx, cp):
    """BLDFMConfig/parse_config_dict fill tower.x, tower.y with exactly latlon_to_xy(...) and leave (0,0) without a
    complete reference.  Floats are only passed through -> bit patterns must be identical."""
    rng = ctx.rng
    n = 120 if ctx.thorough else 30
    bad = []
    count = 0
    for k in range(n):
        nt = rng.randint(1, 4)
        rlat, rlon = rng.uniform(-60, 60), rng.uniform(-180, 180)
        towers = []
        for t in range(nt):
            lat, lon = _offset_point(rng, rlat, rlon, 5000.0)
            towers.append({"name": "T%d" % t, "lat": lat, "lon": lon, "z_m": 2.0 + t})
        if k % 4 == 0:
            # two DISTINCT masts a few metres apart at a large |longitude| (their lat/lon agree to 1e-6 relative, not absolute):
            # each keeps its own local coordinates
            rlat, rlon = rng.choice([(-35.3, 149.1), (64.8, -147.7), (-17.7, 178.0)])
            towers = [{"name": "M0", "lat": rlat, "lon": rlon, "z_m": 2.0},
                      {"name": "M1", "lat": rlat + 2.0e-5, "lon": rlon + 6.0e-5, "z_m": 3.0},
                      {"name": "M2", "lat": rlat - 1.0e-5, "lon": rlon - 9.0e-5, "z_m": 4.0}]
        mode = ("both", "both", "none", "lat-only", "lon-only")[k % 5]
        dom = {"nx": 4, "ny": 4, "xmax": 10.0, "ymax": 10.0, "nz": 2}
        if mode in ("both", "lat-only"):
            dom["ref_lat"] = rlat
        if mode in ("both", "lon-only"):
            dom["ref_lon"] = rlon
        raw = {"domain": dom, "towers": towers, "met": {"ustar": 0.3, "mol": -100.0, "wind_speed": 3.0, "wind_dir": 200.0}}
        hint = {"kind": "config", "raw": raw, "mode": mode}
        try:
            if k % 3 == 2:
                # direct dataclass construction instead of the dict parser
                cfg = cp.BLDFMConfig(
                    domain=cp.DomainConfig(nx=4, ny=4, xmax=10.0, ymax=10.0, nz=2, ref_lat=dom.get("ref_lat"), ref_lon=dom.get("ref_lon")),
                    towers=[cp.TowerConfig(name=t["name"], lat=t["lat"], lon=t["lon"], z_m=t["z_m"]) for t in towers],
                    met=cp.MetConfig(ustar=0.3))
            else:
                cfg = cp.parse_config_dict(raw)
        except Exception as e:
            bad.append(("C17:config-%d" % k, "configuration raised %r" % e, hint))
            continue
        if [t.name for t in cfg.towers] != [t["name"] for t in towers]:
            bad.append(("C17:config-%d" % k, "tower order changed", hint))
        for t, src in zip(cfg.towers, towers):
            count += 1
            if bits(t.lat) != bits(src["lat"]) or bits(t.lon) != bits(src["lon"]):
                bad.append(("C17:config-%d" % k, "tower lat/lon changed", hint))
            if mode == "both":
                ex, ey = cp.latlon_to_xy(src["lat"], src["lon"], rlat, rlon)
                if (bits(t.x), bits(t.y)) != (bits(ex), bits(ey)):
                    bad.append(("C17:config-%d" % k, "tower (x,y)=(%r,%r) is not latlon_to_xy(...)=(%r,%r)" % (t.x, t.y, ex, ey), hint))
            else:
                if (bits(t.x), bits(t.y)) != (bits(0.0), bits(0.0)):
                    bad.append(("C17:config-%d" % k, "tower (x,y)=(%r,%r) without a complete reference (mode %s)" % (t.x, t.y, mode), hint))
        # history: the SAME tower objects placed in a second configuration with ANOTHER origin (dataclasses.replace, the
        # package's own sweep idiom) are located relative to the new origin; the new origin may be one of the towers
        if mode == "both":
            import dataclasses

            for which in ("shifted", "on-a-tower"):
                r2lat, r2lon = (rlat + 0.011, rlon - 0.017) if which == "shifted" else (towers[-1]["lat"], towers[-1]["lon"])
                try:
                    cfg2 = dataclasses.replace(cfg, domain=dataclasses.replace(cfg.domain, ref_lat=r2lat, ref_lon=r2lon))
                except Exception as e:
                    bad.append(("C17:config-%d" % k, "re-origin raised %r" % e, dict(hint, reorigin=[r2lat, r2lon])))
                    continue
                for t, src in zip(cfg2.towers, towers):
                    count += 1
                    ex, ey = cp.latlon_to_xy(src["lat"], src["lon"], r2lat, r2lon)
                    if (bits(t.x), bits(t.y)) != (bits(ex), bits(ey)):
                        bad.append(("C17:config-%d" % k, "after replacing the origin by (%r, %r) [%s] tower (x,y)=(%r,%r) is not latlon_to_xy(...)=(%r,%r)" % (r2lat, r2lon, which, t.x, t.y, ex, ey),
                                    dict(hint, reorigin=[r2lat, r2lon])))
                        break
        # TowerConfig.compute_local_xy directly
        t0 = cp.TowerConfig(name="D", lat=towers[0]["lat"], lon=towers[0]["lon"], z_m=1.0)
        if (bits(t0.x), bits(t0.y)) != (bits(0.0), bits(0.0)):
            bad.append(("C17:config-%d" % k, "fresh tower not at (0,0)", hint))
        t0.compute_local_xy(rlat, rlon)
        ex, ey = cp.latlon_to_xy(towers[0]["lat"], towers[0]["lon"], rlat, rlon)
        count += 1
        if (bits(t0.x), bits(t0.y)) != (bits(ex), bits(ey)):
            bad.append(("C17:config-%d" % k, "compute_local_xy differs from latlon_to_xy", hint))
    return count, bad


# ---------------------------------------------------------------------------------------------
# the property's own statement on the real code


def haversine(lat0, lon0, lat1, lon1):
    p0, p1 = math.radians(lat0), math.radians(lat1)
    dphi, dlam = p1 - p0, math.radians(lon1) - math.radians(lon0)
    a = math.sin(dphi / 2) ** 2 + math.cos(p0) * math.cos(p1) * math.sin(dlam / 2) ** 2
    return 2 * R_EARTH * math.atan2(math.sqrt(a), math.sqrt(1 - a))


def initial_bearing(lat0, lon0, lat1, lon1):
    p0, p1 = math.radians(lat0), math.radians(lat1)
    dlam = math.radians(lon1) - math.radians(lon0)
    e = math.sin(dlam) * math.cos(p1)
    n = math.cos(p0) * math.sin(p1) - math.sin(p0) * math.cos(p1) * math.cos(dlam)
    return math.degrees(math.atan2(e, n)) % 360.0


def destination(lat0, lon0, bearing_deg, dist):
    """direct geodesic problem on the sphere (independent of the code under test)"""
    p0, l0, th, d = math.radians(lat0), math.radians(lon0), math.radians(bearing_deg), dist / R_EARTH
    p1 = math.asin(math.sin(p0) * math.cos(d) + math.cos(p0) * math.sin(d) * math.cos(th))
    l1 = l0 + math.atan2(math.sin(th) * math.sin(d) * math.cos(p0), math.cos(d) - math.sin(p0) * math.sin(p1))
    return math.degrees(p1), math.degrees(l1)


def angdiff(a, b):
    return (a - b + 180.0) % 360.0 - 180.0


def probe_roundtrip_lr(cp, geo, lat, lon, rlat, rlon):
    x, y = cp.latlon_to_xy(lat, lon, rlat, rlon)
    la, lo = geo.xy_to_latlon(x, y, rlat, rlon)
    tol = 1e-9 * max(1.0, abs(lat), abs(lon), abs(rlat), abs(rlon))
    e = max(abs(float(la) - lat), abs(float(lo) - lon))
    return [("roundtrip:lr", "latlon->xy->latlon moved the point by %.3g deg (tol %.1g)" % (e, tol))] if not e <= tol else []


def probe_roundtrip_lr32(cp, geo, lat, lon, rlat, rlon, which):
    """the same round trip with some of the (float32-representable) numbers handed over as np.float32 scalars"""
    import numpy as np
    vals = [lat, lon, rlat, rlon]
    args = [np.float32(v) if w else v for v, w in zip(vals, which)]
    x, y = cp.latlon_to_xy(*args)
    la, lo = geo.xy_to_latlon(float(x), float(y), float(args[2]), float(args[3]))
    tol = 1e-9 * max(1.0, abs(lat), abs(lon), abs(rlat), abs(rlon))
    e = max(abs(float(la) - float(args[0])), abs(float(lo) - float(args[1])))
    return [("roundtrip:lr:float32-presentation", "latlon->xy->latlon with np.float32 scalars for %s moved the point by %.3g deg (tol %.1g)"
             % ([n for n, w in zip(("lat", "lon", "ref_lat", "ref_lon"), which) if w], e, tol))] if not e <= tol else []


def probe_roundtrip_rl(cp, geo, x, y, rlat, rlon):
    out = []
    la, lo = geo.xy_to_latlon(x, y, rlat, rlon)
    x2, y2 = cp.latlon_to_xy(float(la), float(lo), rlat, rlon)
    # ulp(180 deg) is 3e-9 m on the ground: absolute floor 1e-6 m plus 1e-9 relative
    tol = 1e-9 * max(abs(x), abs(y)) + 1e-6
    e = max(abs(x2 - x), abs(y2 - y))
    if not e <= tol:
        out.append(("roundtrip:rl", "xy->latlon->xy moved the point by %.3g m (tol %.3g)" % (e, tol)))
    return out


def probe_origin(cp, geo, rlat, rlon):
    out = []
    x, y = cp.latlon_to_xy(rlat, rlon, rlat, rlon)
    if not (x == 0.0 and y == 0.0):
        out.append(("origin:not-zero", "reference maps to (%r, %r)" % (x, y)))
    la, lo = geo.xy_to_latlon(0.0, 0.0, rlat, rlon)
    if not (float(la) == rlat and float(lo) == rlon):
        out.append(("origin:inverse", "(0,0) maps to (%r, %r), reference (%r, %r)" % (la, lo, rlat, rlon)))
    return out


def probe_orientation(cp, geo, rlat, rlon, lat, lon, dlat, dlon):
    """dlat, dlon >= 1e-6 deg"""
    out = []
    x0, y0 = cp.latlon_to_xy(lat, lon, rlat, rlon)
    x1, y1 = cp.latlon_to_xy(lat, lon + dlon, rlat, rlon)
    x2, y2 = cp.latlon_to_xy(lat + dlat, lon, rlat, rlon)
    if not x1 > x0:
        out.append(("orientation:x-not-east", "x does not increase with longitude: %r -> %r" % (x0, x1)))
    if not y2 > y0:
        out.append(("orientation:y-not-north", "y does not increase with latitude: %r -> %r" % (y0, y2)))
    if bits(x2) != bits(x0):
        out.append(("orientation:x-depends-on-lat", "x changes with latitude: %r -> %r" % (x0, x2)))
    if bits(y1) != bits(y0):
        out.append(("orientation:y-depends-on-lon", "y changes with longitude: %r -> %r" % (y0, y1)))
    # signs relative to the origin
    xe, ye = cp.latlon_to_xy(rlat + dlat, rlon + dlon, rlat, rlon)
    if not (xe > 0 and ye > 0):
        out.append(("orientation:north-east-not-positive", "a point north-east of the reference has (x,y)=(%r,%r)" % (xe, ye)))
    # inverse: lats increase with y, lons with x
    la0, lo0 = geo.xy_to_latlon(100.0, 100.0, rlat, rlon)
    la1, lo1 = geo.xy_to_latlon(101.0, 101.0, rlat, rlon)
    if not (float(la1) > float(la0) and float(lo1) > float(lo0)):
        out.append(("orientation:inverse", "lat/lon do not increase with y/x"))
    return out


def probe_accuracy(cp, geo, rlat, rlon, bearing, dist):
    out = []
    lat, lon = destination(rlat, rlon, bearing, dist)
    x, y = cp.latlon_to_xy(lat, lon, rlat, rlon)
    dloc = math.hypot(x, y)
    dgc = haversine(rlat, rlon, lat, lon)
    if not abs(dloc - dgc) <= 1e-3 * dgc + 1e-6:
        out.append(("accuracy:distance", "local distance %.6f m vs great-circle %.6f m (rel %.3g)" % (dloc, dgc, abs(dloc - dgc) / max(dgc, 1e-300))))
    if dist >= 10.0:
        bloc = math.degrees(math.atan2(x, y)) % 360.0
        bgc = initial_bearing(rlat, rlon, lat, lon)
        if not abs(angdiff(bloc, bgc)) <= 0.1:
            out.append(("accuracy:bearing", "local bearing %.4f deg vs initial great-circle bearing %.4f deg" % (bloc, bgc)))
    return out


def probe_array(cp, geo, xs, ys, rlat, rlon):
    out = []
    la, lo = geo.xy_to_latlon(np.asarray(xs, float), np.asarray(ys, float), rlat, rlon)
    la, lo = np.asarray(la), np.asarray(lo)
    if la.shape != np.shape(ys) or lo.shape != np.shape(xs):
        return [("array:shape", "shapes %r %r" % (la.shape, lo.shape))]
    for xe, ye, lae, loe in zip(np.ravel(xs), np.ravel(ys), la.ravel(), lo.ravel()):
        x2, y2 = cp.latlon_to_xy(float(lae), float(loe), rlat, rlon)
        if not max(abs(x2 - xe), abs(y2 - ye)) <= 1e-9 * max(abs(xe), abs(ye)) + 1e-6:
            out.append(("roundtrip:rl-array", "array element (%r,%r) comes back as (%r,%r)" % (xe, ye, x2, y2)))
            break
    return out


def probe_config(cp, geo, raw):
    """configuration time: every tower's local (x, y) is its lat/lon expressed in the reference frame"""
    out = []
    cfg = cp.parse_config_dict(raw)
    dom = raw["domain"]
    complete = dom.get("ref_lat") is not None and dom.get("ref_lon") is not None
    for t, src in zip(cfg.towers, raw["towers"]):
        if complete:
            la, lo = geo.xy_to_latlon(t.x, t.y, dom["ref_lat"], dom["ref_lon"])
            tol = 1e-9 * max(1.0, abs(src["lat"]), abs(src["lon"]))
            if not (abs(float(la) - src["lat"]) <= tol and abs(float(lo) - src["lon"]) <= tol):
                out.append(("config:tower-xy-not-its-latlon", "tower %s at lat/lon (%r, %r) got local (x,y)=(%r,%r), which is lat/lon (%r, %r)" % (t.name, src["lat"], src["lon"], t.x, t.y, float(la), float(lo))))
                break
        elif not (t.x == 0.0 and t.y == 0.0):
            out.append(("config:no-reference-not-origin", "tower %s has (x,y)=(%r,%r) although no complete reference was given" % (t.name, t.x, t.y)))
            break
    if complete and not out:
        import dataclasses

        last = raw["towers"][-1]
        for r2lat, r2lon in ((dom["ref_lat"] + 0.011, dom["ref_lon"] - 0.017), (last["lat"], last["lon"])):
            cfg2 = dataclasses.replace(cfg, domain=dataclasses.replace(cfg.domain, ref_lat=r2lat, ref_lon=r2lon))
            for t, src in zip(cfg2.towers, raw["towers"]):
                la, lo = geo.xy_to_latlon(t.x, t.y, r2lat, r2lon)
                tol = 1e-9 * max(1.0, abs(src["lat"]), abs(src["lon"]))
                if not (abs(float(la) - src["lat"]) <= tol and abs(float(lo) - src["lon"]) <= tol):
                    out.append(("config:tower-xy-stale-after-new-origin", "configuration parsed with origin (%r, %r); the same towers in a configuration whose origin was replaced by (%r, %r): tower %s at lat/lon (%r, %r) has local (x,y)=(%r,%r), which is lat/lon (%r, %r) in the new frame"
                                % (dom["ref_lat"], dom["ref_lon"], r2lat, r2lon, t.name, src["lat"], src["lon"], t.x, t.y, float(la), float(lo))))
                    return out
    return out


PROBES = {
    "config": probe_config,
    "lr": probe_roundtrip_lr, "lr32": probe_roundtrip_lr32, "rl": probe_roundtrip_rl, "origin": probe_origin,
    "orientation": probe_orientation, "accuracy": probe_accuracy, "array": probe_array,
}


def oracle(ctx, hints):
    cp, geo = _impl()
    rng = ctx.rng
    pool = []
    for h in hints:
        if not h:
            continue
        if h.get("kind") == "fwd":
            import numpy as np
            if any(isinstance(v, np.float32) for v in h["args"]):
                pool.append(("lr32", [float(v) for v in h["args"]] + [[isinstance(v, np.float32) for v in h["args"]]]))
            lat, lon, rlat, rlon = [float(v) for v in h["args"]]
            pool.append(("lr", [lat, lon, rlat, rlon]))
            pool.append(("orientation", [rlat, rlon, lat, lon, 1e-3, 1e-3]))
            if abs(rlat) <= 60:
                pool.append(("accuracy", [rlat, rlon, 45.0, 3000.0]))
        elif h.get("kind") == "inv":
            x, y, rlat, rlon = [float(v) for v in h["args"]]
            pool.append(("rl", [x, y, rlat, rlon]))
        elif h.get("kind") == "config":
            pool.append(("config", [h["raw"]]))
    n = 4000 if ctx.thorough else 600
    for k in range(n):
        rlat = rng.choice([-60.0, 60.0, 0.0]) if k % 10 == 0 else rng.uniform(-60, 60)
        rlon = rng.choice([-180.0, 180.0, 0.0]) if k % 17 == 0 else rng.uniform(-180, 180)
        lat, lon = _offset_point(rng, rlat, rlon, 5000.0)
        pool.append(("lr", [lat, lon, rlat, rlon]))
        pool.append(("rl", [rng.uniform(-5000, 5000), rng.uniform(-5000, 5000), rlat, rlon]))
        pool.append(("origin", [rlat, rlon]))
        pool.append(("orientation", [rlat, rlon, lat, lon, 10 ** rng.uniform(-6, -1), 10 ** rng.uniform(-6, -1)]))
        # all directions, ranges log-uniform 1 m .. 5 km, plus the extreme ring
        dist = 5000.0 if k % 3 == 0 else 10 ** rng.uniform(0, math.log10(5000.0))
        brg = (k * 7.5) % 360.0 if k % 2 == 0 else rng.uniform(0, 360)
        pool.append(("accuracy", [rlat, rlon, brg, dist]))
        if k % 20 == 0:
            towers = [{"name": "T%d" % t, "lat": _offset_point(rng, rlat, rlon, 5000.0)[0], "lon": _offset_point(rng, rlat, rlon, 5000.0)[1], "z_m": 3.0} for t in range(1 + k % 3)]
            dom = {"nx": 4, "ny": 4, "xmax": 10.0, "ymax": 10.0, "nz": 2}
            if k % 40 == 0:
                dom["ref_lat"], dom["ref_lon"] = rlat, rlon
            elif k % 80 == 20:
                dom["ref_lat"] = rlat
            pool.append(("config", [{"domain": dom, "towers": towers, "met": {"ustar": 0.3}}]))
            xs = [rng.uniform(-5000, 5000) for _ in range(4)]
            ys = [rng.uniform(-5000, 5000) for _ in range(4)]
            pool.append(("array", [xs, ys, rlat, rlon]))
    import numpy as _np
    for la, lo, rla, rlo in ((50.9512, 11.5873, 50.95, 11.586), (-35.3021, 149.1013, -35.3, 149.1), (64.8003, -147.7011, 64.8, -147.7)):
        pool.append(("lr32", [float(_np.float32(la)), float(_np.float32(lo)), rla, rlo, [True, True, False, False]]))
        pool.append(("lr32", [la, lo, float(_np.float32(rla)), float(_np.float32(rlo)), [False, False, True, True]]))
    # far points and high-latitude references for the algebraic clauses only
    for k in range(n // 4):
        rlat, rlon = rng.uniform(-89, 89), rng.uniform(-180, 180)
        pool.append(("lr", [rng.uniform(-90, 90), rng.uniform(-180, 180), rlat, rlon]))
        pool.append(("rl", [rng.uniform(-1e5, 1e5), rng.uniform(-1e5, 1e5), rlat, rlon]))
        pool.append(("orientation", [rlat, rlon, rng.uniform(-80, 80), rng.uniform(-170, 170), 1e-3, 1e-3]))
    found = {}
    worst = {"distance_rel": 0.0, "bearing_deg": 0.0}
    for kind, args in pool:
        try:
            res = PROBES[kind](cp, geo, *args)
        except Exception as e:
            res = [("raises:" + type(e).__name__, "%s%r raised %r" % (kind, args, e))]
        for sig, what in res:
            if sig not in found:
                found[sig] = (what, kind, args)
        if kind == "accuracy" and not res:
            rlat, rlon, brg, dist = args
            lat, lon = destination(rlat, rlon, brg, dist)
            x, y = cp.latlon_to_xy(lat, lon, rlat, rlon)
            dgc = haversine(rlat, rlon, lat, lon)
            worst["distance_rel"] = max(worst["distance_rel"], abs(math.hypot(x, y) - dgc) / dgc)
            if dist >= 10:
                worst["bearing_deg"] = max(worst["bearing_deg"], abs(angdiff(math.degrees(math.atan2(x, y)) % 360, initial_bearing(rlat, rlon, lat, lon))))
    ctx.cov["oracle"] = {"probes": len(pool), "worst_distance_rel": worst["distance_rel"], "worst_bearing_deg": worst["bearing_deg"],
                         "accuracy_domain": "|ref_lat| <= 60 deg, any longitude, ranges 1 m .. 5 km (bearing for ranges >= 10 m), all directions"}
    return [{"signature": sig, "what": "C17 %s: %s [probe %s%r]" % (sig, what, kind, args),
             "replay": {"probe": kind, "args": args}} for sig, (what, kind, args) in found.items()]


def replay(body):
    cp, geo = _impl()
    kind, args = body["probe"], body["args"]
    res = PROBES[kind](cp, geo, *args)
    for sig, what in res:
        print("FAILS", sig, what)
    if not res:
        print("holds on this input: probe %s%r" % (kind, args))
    return 1 if res else 0
