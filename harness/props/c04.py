"""C04 — linearity in (surface flux, background); background = uniform conc offset; footprint
depends on the source's shape only."""
import numpy as np

import core
import solvercorr as sc
import solverslices
import roundedobs

THEOREMS_SINGLE = ['C04_linear_single_bound', 'Single_instance_laws']
# theorems that survive rounding (Properties/RoundedProps.v): exact power-of-two homogeneity in rounded arithmetic
THEOREMS_ROUNDED = ['C04_homogeneous_in_rounded_arithmetic', 'Rounded_similarity', 'Rounded_float_instance_same_formulas',
                    'Rounded_binary_rounding_is_homogeneous']
ROUNDED_THEOREM_OF = {"source": "C04_homogeneous_in_rounded_arithmetic", "velocity": "C07_velocity_scaling_in_rounded_arithmetic",
                      "length": "C07_length_scaling_in_rounded_arithmetic"}
THEOREMS = ["C04_linear", "C04_background", "C04_footprint_shape_only"]
TRUSTED = [
    "Model/Solver.v is hand-written in frequency-set form; tied to bldfm.solver by (A) float correspondence of whole solves (FloatOps, vm_compute) and (B) the slice translator + Bridge/SolverBridge.v for every scalar kernel",
    "pyFFTW is modelled by the definition of the DFT; numba-compiled ivp_solver by its Python source",
    "the theorems assume the field laws `Laws O` (exact complex arithmetic); IEEE rounding is not covered by them. Exception: the theorems of Properties/RoundedProps.v are about the model in ROUNDED arithmetic (RndOps: every scalar operation followed by an arbitrary rounding function, no field laws) and assume only that the rounding commutes with multiplication by the scale factor (proved for binary rounding to any precision and powers of two, unbounded exponent range: overflow and subnormals are not modelled)",
    "RndOps and the executable FloatOps are instances of one construction (Base/PairOps.v; FloatOps = PairOps FloatScalar by conversion); numpy/numba/pyFFTW use their own (also homogeneous) complex division, square root and FFT algorithms: that the code's results rescale bit for bit is observed on the check's cases in every run (harness/roundedobs.py), not proved",
]
ASSUMPTIONS = [
    "C04_linear is stated for double-precision storage (a_single = false): complex64 storage rounding is not linear; for single storage C04_linear_single_bound (Properties/SinglePrecisionProps.v; arbitrary rounding function with |rnd x - x| <= eps |x|; stdlib real axioms) bounds the superposition defect of every cell by eps * Blin, Blin = sum of the moduli of the exact amplitudes of the three runs (concentration in the analytic branch: eps(2+eps))",
    "the linear combination uses real scalars (cre s = s)",
    "C04_homogeneous_in_rounded_arithmetic: dispersion mode; source and background times s != 0 with rnd (s x) = s rnd x for the arithmetic rounding and for the complex64 storage rounding; both precisions, numerical and analytic branch, all levels, error outcomes included",
]


def gen(ctx):
    n = 60 if ctx.thorough else 18
    cases = []
    for k in range(n):
        cases.append(sc.mk_case(ctx.rng, bg=ctx.rng.choice([1.5, -2.0, 0.25, 0.0]),
                                src=ctx.rng.choice(["signed", "random", "sparse"]),
                                analytic=(k % 3 == 0), footprint=(k % 2 == 0)))
    return cases


def check(ctx):
    core.check_properties_file(ctx, "Properties/C04.v", THEOREMS, core.AX_NONE)
    core.check_properties_file(ctx, "Properties/SinglePrecisionProps.v", THEOREMS_SINGLE, core.AX_REALS, coqchk=False)
    core.check_properties_file(ctx, "Properties/RoundedProps.v", THEOREMS_ROUNDED, core.AX_REALS, coqchk=False)
    solverslices.run(ctx)
    cases = gen(ctx)
    # the bit-equality solve(2^e q, 2^e bg) = 2^e solve(q, bg) that the rounded-arithmetic theorem predicts, observed on the code
    roundedobs.observe(ctx, "C04", cases, ["source"], ROUNDED_THEOREM_OF, limit=(24 if ctx.thorough else 8))
    recs = sc.correspond(ctx, cases, "c04_")
    sc.summarize(ctx, cases, recs,
                 "random small solves emphasising non-zero background, sign-changing sources, analytic and numerical branch, footprint and dispersion; non-trivial = every case (all have >= 2 retained modes); distinct by full argument description",
                 nontrivial=lambda c: True)


def _rel(a, b):
    s = max(np.abs(a).max(), np.abs(b).max(), 1e-300)
    return float(np.abs(a - b).max() / s)


def probe(S, case, rng):
    """the property's own statement on the real code; returns list of (signature, detail)"""
    out = []
    tol = 1e-5 if case["precision"] == "single" else 1e-9
    q1 = case["q0"]
    q2 = sc.source(rng, *q1.shape, kind="signed")
    a, b = rng.choice([2.0, -1.5, 0.5]), rng.choice([3.0, 0.25, -2.0])
    c1, c2 = case["bg"], rng.choice([0.0, 1.0, -3.0])
    if not case["footprint"]:
        r1 = sc.call(S, case, q0=q1, bg=c1)
        r2 = sc.call(S, case, q0=q2, bg=c2)
        r12 = sc.call(S, case, q0=a * q1 + b * q2, bg=a * c1 + b * c2)
        for name, idx in (("conc", 1), ("flx", 2)):
            d = _rel(np.asarray(r12[idx], float), a * np.asarray(r1[idx], float) + b * np.asarray(r2[idx], float))
            if d > tol:
                out.append(("linearity:%s:%s" % ("analytic" if case["analytic"] else "numeric", name), "superposition error %.3g" % d))
        # homogeneity over many orders of magnitude (flux densities in SI units of trace gases are ~1e-9 and below):
        # scaling by a power of two commutes with every rounding, so the scaled run must reproduce the unscaled one
        qs = sc.source(rng, *q1.shape, kind=rng.choice(["smooth", "smooth", "random"]))
        ru = sc.call(S, case, q0=qs, bg=0.0)
        for e in (-40, -55, 30):
            rs = sc.call(S, case, q0=qs * 2.0 ** e, bg=0.0)
            for name, idx in (("conc", 1), ("flx", 2)):
                d = _rel(np.asarray(rs[idx], float) * 2.0 ** (-e), np.asarray(ru[idx], float))
                if d > tol:
                    out.append(("linearity:homogeneity:%s:%s" % ("analytic" if case["analytic"] else "numeric", name),
                                "solve(2^%d q) / 2^%d differs from solve(q) by %.3g (smooth source)" % (e, e, d)))
    r0 = sc.call(S, case, bg=0.0)
    rb = sc.call(S, case, bg=2.5)
    dc = np.asarray(rb[1], float) - np.asarray(r0[1], float)
    if _rel(dc, np.full_like(dc, 2.5)) > (1e-5 if case["precision"] == "single" else 1e-9):
        out.append(("background:not-a-uniform-offset", "conc(bg=2.5)-conc(bg=0) ranges %.6g..%.6g" % (dc.min(), dc.max())))
    if _rel(np.asarray(rb[2], float), np.asarray(r0[2], float)) > (1e-7 if case["precision"] == "single" else 1e-12) and np.abs(np.asarray(r0[2])).max() > 0:
        out.append(("background:changes-flux", "flx differs by %.3g" % _rel(np.asarray(rb[2], float), np.asarray(r0[2], float))))
    if case["footprint"]:
        ra = sc.call(S, case)
        rq = sc.call(S, case, q0=q2 * 7.0 + 1.0)
        if not (np.array_equal(ra[1], rq[1]) and np.array_equal(ra[2], rq[2])):
            out.append(("footprint:depends-on-source-values", "footprint changed when only source values changed"))
    return out


def oracle(ctx, hints):
    S = sc.impl()
    pool = [sc.from_full(h["case"]) for h in hints if h and "case" in h]
    n = 40 if ctx.thorough else 12
    pool += [sc.mk_case(ctx.rng, analytic=(k % 3 == 0), footprint=(k % 2 == 0)) for k in range(n)]
    found = {}
    for case in pool:
        try:
            for sig, detail in probe(S, case, ctx.rng):
                if sig not in found:
                    found[sig] = (detail, case)
        except Exception as e:
            if not ("even" in str(e)):
                found.setdefault("solver-raises:" + type(e).__name__, (str(e), case))
    return [{"signature": sig, "what": "C04 %s: %s on %r" % (sig, d, sc.describe(c)), "replay": {"case": sc.full(c), "detail": d}}
            for sig, (d, c) in found.items()]


def replay(body):
    import random

    S = sc.impl()
    case = sc.from_full(body["case"])
    res = probe(S, case, random.Random(1))
    for sig, d in res:
        print("FAILS", sig, d)
    if not res:
        print("holds on this input")
    return 1 if res else 0
