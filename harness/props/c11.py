"""C11 — output keeps the input grid for any size parity, halo and mode count."""
import itertools

import numpy as np

import core
import solvercorr as sc
import solverslices
import py2coq_plumbing
import plumbcorr
from props.c04 import TRUSTED as _T
from props import c02

THEOREMS_MAIN = ["C11_shape_or_error", "C11_error_iff", "C11_truncate_reads", "C11_untruncate_writes",
                 "C11_untruncate_zero_elsewhere", "C11_no_collision", "C11_lowpass", "C11_clamp"]
# Properties/C11Array.v: the statement-by-statement array model of the plumbing (Model/SolverArray.v) refines the
# frequency-set model Model/Solver.v cell by cell (Proofs/ArrayRefine.v)
THEOREMS_ARRAY = ["C11_array_refines_spec", "C11_array_error_iff", "C11_array_source_spectrum", "C11_array_scatter",
                  "C11_array_back_pipe", "C11_array_untruncate_sum", "C11_array_slices_in_range",
                  "C11_array_flux_sum", "C11_array_conc_sum", "C11_array_footprint_mass", "C11_array_lowpass",
                  "C11_array_nonvacuous"]
THEOREMS = THEOREMS_MAIN + THEOREMS_ARRAY
TRUSTED = _T + [
    "numpy.fft.fftshift/ifftshift are rolls by n//2 and -(n//2); np.pad/slicing semantics (Proofs/Plumbing.v models them as functions of an integer index)",
    "numpy semantics of the array calls as Model/SolverArray.v states them: np.pad(mode='constant', 0.0) embeds the block and writes zeros elsewhere; "
    "x[lo:hi] for 0 <= lo <= hi <= n (C11_array_slices_in_range proves the bounds are in range) reads x[lo + r]; fftshift/ifftshift(axes) roll the last two axes; "
    "fft2/ifft2 (pyFFTW through bldfm.fft_manager) are the definitional 2-D DFT over the last two axes with norm='forward' scaling the forward and "
    "norm='backward' the inverse transform by 1/(rows*cols); np.meshgrid default indexing 'xy'; X[msk] lists the selected entries in C order and "
    "A[:, msk] = V scatters column m of V to the m-th selected entry; .real; broadcasting of an (nly, nlx) array against (nlvls, nly, nlx). "
    "The index part (pad, shifts, slices, mask gather/scatter, meshgrid, fftfreq) is compared exactly with numpy on every run over all parities "
    "(harness/plumbcorr.py, integer arrays, carrier Z under vm_compute); the DFT and its norm conventions by the whole-solve float correspondence",
    "harness/py2coq_plumbing.py (fail-closed `ast` data-flow translator of the plumbing statements of steady_state_transport_solver into the "
    "description language of Model/SolverArray.v; coq/Bridge/PlumbingBridge.v re-proves on every run that the generated descriptions are "
    "interpreted to exactly the pipelines of solve_array)",
]
ASSUMPTIONS = [
    "C11_array_refines_spec: cell equality is stated for requests with both mode counts positive (modes=(0, n) makes the code raise IndexError at "
    "tfftp[0, 0, 0] = p000; Model/Solver.v returns a zero field there) and for well-formed arguments (rectangular source, profiles as long as z)",
    "the clamp resets BOTH mode counts when either exceeds the padded size (as the code does); the property's sentence is read for the pair",
    "an odd mode request is rejected before the clamp, so 'more than it holds == exactly as many as it holds' is stated for even padded sizes",
]


def gen(ctx):
    cases = []
    sizes = range(2, 8) if not ctx.thorough else range(2, 10)
    nys = (3, 4) if not ctx.thorough else (2, 3, 4, 5)
    modes = [(2, 2), (4, 2), (4, 6), (8, 8), (12, 12)] if not ctx.thorough else [(2, 2), (2, 4), (4, 2), (4, 4), (6, 4), (6, 6), (8, 8), (10, 12), (12, 12), (3, 4)]
    for nx, ny, md, hk, fp in itertools.product(sizes, nys, modes, ("zero", "inc", "none"), (True, False)):
        if hk == "none" and (nx > 4 or ny > 3 or md[0] > 8):
            continue  # default halo triples the grid: keep a few
        dx, dy = 1.0, 1.25
        halo = {"zero": 0.0, "inc": 1.3, "none": None}[hk]
        if ctx.rng.random() < (0.35 if ctx.thorough else 0.5) and not (nx % 2 or ny % 2) and hk == "zero" and md in ((4, 4), (8, 8)):
            continue  # thin out the all-even, power-of-two corner the test-suite already lives in
        c = sc.mk_case(ctx.rng, nx=nx, ny=ny, nz=3, domain=(nx * dx, ny * dy), halo=halo, modes=md, footprint=fp,
                       levels=2, meas=(dx * (nx // 2), dy * (ny // 2)) if fp else (0.0, 0.0), precision="double", kind="vary")
        cases.append(c)
    if not ctx.thorough:
        ctx.rng.shuffle(cases)
        cases = cases[:150]
    return cases


def parity_class(c):
    ny, nx = c["q0"].shape
    dx, dy = c["domain"][0] / nx, c["domain"][1] / ny
    halo = max(c["domain"]) if c["halo"] is None else c["halo"]
    nxe, nye = nx + 2 * int(halo / dx), ny + 2 * int(halo / dy)
    nlx, nly = c["modes"]
    if nlx % 2 or nly % 2:
        return "odd-modes"
    if nlx > nxe or nly > nye:
        return "clamped:%s" % ("odd" if (nxe % 2 or nye % 2) else "even")
    return "parity:%d%d" % ((nxe - nlx) % 2, (nye - nly) % 2)


def check(ctx):
    core.check_properties_file(ctx, "Properties/C11.v", THEOREMS_MAIN, core.AX_NONE)
    core.check_properties_file(ctx, "Properties/C11Array.v", THEOREMS_ARRAY, core.AX_NONE)
    solverslices.run(ctx)
    # tie (B) for the array plumbing: statement sequence of the current source -> description -> bridge to solve_array
    py2coq_plumbing.run(ctx)
    cases = gen(ctx)
    recs = sc.correspond(ctx, cases, "c11_", shard=5)
    sc.summarize(ctx, cases, recs,
                 "product of nx in 2..7(9), ny, even and odd mode requests below/at/above the padded size, halo {0, incommensurate, None}, footprint/dispersion (thinned in the all-even corner); outcome class, shape, coordinates and values compared with the model; non-trivial = an odd size, an odd padded-size-minus-modes parity, a clamped or a rejected request",
                 nontrivial=lambda c: parity_class(c) not in ("parity:00",))
    h = {}
    for c in cases:
        k = parity_class(c)
        h[k] = h.get(k, 0) + 1
    ctx.cov.setdefault("histogram", {})["parity_class"] = h
    ctx.cov["exhaustive"] = bool(ctx.thorough)
    # exact correspondence of the index semantics Model/SolverArray.v ascribes to numpy's pad / shifts / slices / mask / meshgrid / fftfreq
    plumbcorr.run(ctx)


def probe(S, case):
    out = []
    ny, nx = case["q0"].shape
    dx, dy = case["domain"][0] / nx, case["domain"][1] / ny
    pc = parity_class(case)
    try:
        (X, Y, Z), conc, flx = sc.call(S, case)
    except (ValueError, IndexError) as e:
        if pc == "odd-modes" and "even" in str(e):
            return out
        # an error is allowed by the property, never a silently wrong field
        return out
    conc, flx = np.asarray(conc), np.asarray(flx)
    if conc.shape != (ny, nx) or flx.shape != (ny, nx):
        out.append(("shape:%s" % ("footprint" if case["footprint"] else "dispersion") + "-" + ("odd-parity" if pc.startswith("parity:") and pc != "parity:00" else pc),
                    "source %r -> conc %r flx %r" % ((ny, nx), conc.shape, flx.shape)))
        return out
    X, Y = np.asarray(X), np.asarray(Y)
    if X.shape != (ny, nx) or not (np.array_equal(X[0], np.arange(nx) * (case["domain"][0] / nx)) and np.array_equal(Y[:, 0], np.arange(ny) * (case["domain"][1] / ny))):
        if not (np.allclose(X[0], np.arange(nx) * dx, rtol=0, atol=1e-12) and np.allclose(Y[:, 0], np.arange(ny) * dy, rtol=0, atol=1e-12)):
            out.append(("coords", "x or y coordinates are not i*dx, j*dy"))
    # registration: reciprocity must hold on every accepted combination (C02 identity)
    if case["footprint"]:
        for sig, d in c02.probe(S, case):
            out.append(("registration:" + pc, d))
            break
    # clamp: more modes than the padded grid == exactly as many (when even)
    halo = max(case["domain"]) if case["halo"] is None else case["halo"]
    nxe, nye = nx + 2 * int(halo / dx), ny + 2 * int(halo / dy)
    if pc == "clamped:even":
        r2 = sc.call(S, case, modes=(nxe, nye))
        if not (np.array_equal(r2[1], conc) and np.array_equal(r2[2], flx)):
            out.append(("clamp", "modes %r vs exactly (%d,%d) differ" % (case["modes"], nxe, nye)))
    # low-pass: components strictly inside the smaller cut-off unchanged (dispersion, halo 0)
    if not case["footprint"] and case["halo"] == 0.0 and pc.startswith("parity") and case["modes"][0] + 2 <= nx and case["modes"][1] + 2 <= ny:
        big = sc.call(S, case, modes=(case["modes"][0] + 2, case["modes"][1] + 2))
        Fa, Fb = np.fft.fft2(flx), np.fft.fft2(np.asarray(big[2]))
        kx = np.fft.fftfreq(nx, 1.0 / nx)
        ky = np.fft.fftfreq(ny, 1.0 / ny)
        m = (np.abs(kx)[None, :] < case["modes"][0] // 2) & (np.abs(ky)[:, None] < case["modes"][1] // 2)
        s = max(np.abs(Fb).max(), 1e-300)
        if np.abs(Fa - Fb)[m].max() > 1e-9 * s:
            out.append(("lowpass", "components strictly inside the cut-off change by %.3g when more modes are retained" % (np.abs(Fa - Fb)[m].max() / s)))
    return out


def oracle(ctx, hints):
    S = sc.impl()
    pool = [sc.from_full(h["case"]) for h in hints if h and "case" in h]
    cases = gen(ctx)
    pool += cases[:: (2 if ctx.thorough else 4)]
    found = {}
    for case in pool:
        try:
            for sig, detail in probe(S, case):
                found.setdefault(sig, (detail, case))
        except Exception as e:
            found.setdefault("probe-raises:" + type(e).__name__, (str(e), case))
    return [{"signature": sig, "what": "C11 %s: %s on %r" % (sig, d, sc.describe(c)), "replay": {"case": sc.full(c), "detail": d}}
            for sig, (d, c) in found.items()]


def replay(body):
    S = sc.impl()
    res = probe(S, sc.from_full(body["case"]))
    for sig, d in res:
        print("FAILS", sig, d)
    if not res:
        print("holds on this input")
    return 1 if res else 0
